#!/usr/bin/env python3
"""tools/mutate.py [--jobs N] [--limit K] [--files substr,..] [--phase checks|tests|all]
Development harness (not a registered check): a systematic single-token mutation campaign over /repo/src.

For every mutation site (a comparison flipped to its neighbour, && <-> ||, == <-> !=, a `+ 1` / `- 1` dropped) a scratch
copy of the crate is made under /var/tmp/mut, the 18 quick checks are run on it (VERIF_REPO), and -- for the mutants
on which every check is silent -- the crate's own test suite (cargo nextest, offline) to see whether the existing tests
notice.  Results: /var/tmp/mut/results.jsonl, one line per mutant:
  {"id", "file", "line", "from", "to", "text", "compiles", "fired": [props], "tests": "pass" | "fail" | null}
The interesting rows are  fired == [] and tests == "pass"  (survive both): they are read by hand and either shown to be
equivalent / outside every property, or turned into a rule.  /repo is only read."""
import hashlib, json, os, re, shutil, subprocess, sys
from concurrent.futures import ThreadPoolExecutor

VERIF = os.path.dirname(os.path.dirname(os.path.abspath(__file__)))
REPO = os.environ.get("VERIF_REPO", "/repo")
ROOT = "/var/tmp/mut"
PROPS = ["C01", "C02", "C03", "C06", "C07", "C08", "C09", "C10", "C11", "C12", "C13", "C14", "C15", "C16", "C17", "C18", "C19", "C20"]
args = sys.argv[1:]
jobs = int(args[args.index("--jobs") + 1]) if "--jobs" in args else 8
limit = int(args[args.index("--limit") + 1]) if "--limit" in args else None
files_filter = args[args.index("--files") + 1].split(",") if "--files" in args else None
phase = args[args.index("--phase") + 1] if "--phase" in args else "all"

SUBS = [
    (r" <= ", " < "), (r" < ", " <= "), (r" >= ", " > "), (r" > ", " >= "),
    (r" == ", " != "), (r" != ", " == "), (r" && ", " || "), (r" \|\| ", " && "),
    (r" \+ 1\b(?!\.)", " + 0"), (r" - 1\b(?!\.)", " - 0"), (r" - 1\.0\b", " - 0.0"), (r" \+ 1\.0\b", " + 0.0"),
    (r"\bcontinue;", "break;"), (r"\bbreak;", "continue;"),
]


def sites():
    out = []
    for dp, dn, fn in os.walk(os.path.join(REPO, "src")):
        for f in sorted(fn):
            if not f.endswith(".rs"):
                continue
            p = os.path.join(dp, f)
            rel = os.path.relpath(p, REPO)
            if files_filter and not any(x in rel for x in files_filter):
                continue
            lines = open(p).read().split("\n")
            in_test = False
            depth_doc = False
            for i, ln in enumerate(lines):
                s = ln.strip()
                if s.startswith("#[cfg(test)]"):
                    in_test = True
                if in_test:
                    continue
                if s.startswith("/**"):
                    depth_doc = True
                if depth_doc:
                    if "*/" in s:
                        depth_doc = False
                    continue
                if s.startswith("//") or s.startswith("///") or s.startswith("*") or s.startswith("where") or "fn " in s and "<" in s and "(" not in s:
                    continue
                if re.search(r"\b(impl|struct|enum|trait|type|use)\b", s) or s.startswith("T:") or s.startswith("A:") or s.startswith("pub fn") or s.startswith("fn "):
                    continue
                for (pat, rep) in SUBS:
                    for m in re.finditer(pat, ln):
                        # skip generic brackets / arrows / string literals
                        pre = ln[: m.start()]
                        if pre.count('"') % 2 == 1:
                            continue
                        if "->" in ln[max(0, m.start() - 2): m.end() + 2] or "=>" in ln[max(0, m.start() - 1): m.end() + 1]:
                            continue
                        new = ln[: m.start()] + rep + ln[m.end():]
                        out.append({"file": rel, "line": i + 1, "from": m.group(0).strip(), "to": rep.strip(), "text": ln.strip()[:140], "col": m.start(), "new": new})
    return out


def run_one(mu):
    mid = hashlib.sha256(("%s:%d:%d:%s" % (mu["file"], mu["line"], mu["col"], mu["to"])).encode()).hexdigest()[:10]
    d = os.path.join(ROOT, "m_" + mid)
    res = {k: mu[k] for k in ("file", "line", "from", "to", "text")}
    res["id"] = mid
    shutil.rmtree(d, ignore_errors=True)
    os.makedirs(d)
    for item in ("src", "tests", "Cargo.toml", "Cargo.lock", "README.md"):
        s = os.path.join(REPO, item)
        if os.path.isdir(s):
            shutil.copytree(s, os.path.join(d, item))
        elif os.path.exists(s):
            shutil.copyfile(s, os.path.join(d, item))
    p = os.path.join(d, mu["file"])
    lines = open(p).read().split("\n")
    lines[mu["line"] - 1] = mu["new"]
    open(p, "w").write("\n".join(lines))
    env = dict(os.environ)
    env.update({"VERIF_REPO": d, "VERIF_WORK": os.path.join(d, "work"), "VERIF_OUT": os.path.join(d, "out"), "VERIF_IN_FIXTURE": "1", "CARGO_NET_OFFLINE": "true"})
    fired, rules = [], []
    compiles = True
    if phase in ("checks", "all"):
        for prop in PROPS:
            try:
                r = subprocess.run([sys.executable, os.path.join(VERIF, "sa", "check.py"), prop], cwd=VERIF, env=env, capture_output=True, text=True, timeout=600)
            except subprocess.TimeoutExpired:
                fired.append(prop + "(timeout)")
                continue
            if "could not compile" in (r.stdout + r.stderr) or "error[E" in (r.stdout + r.stderr):
                compiles = False
                break
            if r.returncode != 0:
                fired.append(prop)
                rules += [l.strip()[:160] for l in r.stdout.splitlines() if l.strip().startswith("rule ")][:2]
        for t in ("target-default", "target-adjacency_matrix"):
            shutil.rmtree(os.path.join(d, "work", t), ignore_errors=True)
    res["compiles"] = compiles
    res["fired"] = fired
    res["rules"] = rules[:4]
    res["tests"] = None
    if compiles and not fired and phase in ("tests", "all"):
        w = os.path.join(ROOT, "target_%d" % (os.getpid() % 1000 + (hash(mid) % jobs)))
        env2 = dict(env)
        env2["CARGO_TARGET_DIR"] = os.path.join(ROOT, "target_%d" % (int(mid, 16) % max(1, jobs // 2)))
        try:
            r = subprocess.run(["timeout", "-k", "5", "420", "cargo", "nextest", "run", "--workspace", "--no-fail-fast", "--offline", "--test-threads", "4"], cwd=d, env=env2, capture_output=True, text=True, timeout=480)
            out = r.stdout + r.stderr
            if r.returncode == 124:
                out += "\n        FAIL [ 0.0s] graphrs timeout::the_test_run_did_not_finish\n"
        except subprocess.TimeoutExpired:
            out = "        PASS [ 0.0s] graphrs dummy\n        FAIL [ 0.0s] graphrs timeout::the_test_run_did_not_finish\n"
        failed = set()
        passed = 0
        for line in out.splitlines():
            m = re.match(r"\s*(PASS|FAIL|SIGABRT|SIGSEGV|TIMEOUT)\s+\[[^\]]*\]\s+(?:\(\s*\d+/\d+\)\s+)?(\S+)\s+(\S+)", line)
            if m:
                if m.group(1) == "PASS":
                    passed += 1
                else:
                    failed.add(m.group(3))
        known = {"algorithms::cluster::undirected_weighted::tests::test_get_weighted_triangles_and_degrees_1", "tests::test_clustering_directed_weighted", "tests::test_clustering_undirected_weighted"}
        extra = sorted(failed - known)
        if "error: could not compile" in out or passed == 0:
            res["tests"] = "nobuild"
        else:
            res["tests"] = "fail" if extra else "pass"
            res["failed_tests"] = extra[:4]
    shutil.rmtree(d, ignore_errors=True)
    with open(os.path.join(ROOT, "results.jsonl"), "a") as f:
        f.write(json.dumps(res) + "\n")
    return res


if __name__ == "__main__":
    os.makedirs(ROOT, exist_ok=True)
    ss = sites()
    done = set()
    rp = os.path.join(ROOT, "results.jsonl")
    if os.path.exists(rp):
        for l in open(rp):
            try:
                done.add(json.loads(l)["id"])
            except Exception:
                pass
    todo = []
    for mu in ss:
        mid = hashlib.sha256(("%s:%d:%d:%s" % (mu["file"], mu["line"], mu["col"], mu["to"])).encode()).hexdigest()[:10]
        if mid not in done:
            todo.append(mu)
    if limit:
        todo = todo[:limit]
    print("%d mutation sites, %d to do" % (len(ss), len(todo)), flush=True)
    n = 0
    with ThreadPoolExecutor(max_workers=jobs) as ex:
        for r in ex.map(run_one, todo):
            n += 1
            tag = "nocompile" if not r["compiles"] else ("caught by %s" % ",".join(r["fired"]) if r["fired"] else "silent; tests %s" % r["tests"])
            print("%4d %s:%d  %s -> %s   %s" % (n, r["file"], r["line"], r["from"], r["to"], tag), flush=True)
