#!/usr/bin/env python3
"""tools/mkmut2.py <name> <<< '@@ <file>\nOLD\n=====\nNEW[\n#####\n@@ <file> ...]'  -- like mkmut.py, but /repo is only READ:
the patch is produced with difflib from an in-memory copy (safe while a regression run is copying /repo)."""
import sys, difflib
name = sys.argv[1]
blocks = sys.stdin.read().split("\n#####\n")
texts = {}
for blk in blocks:
    lines = blk.split("\n")
    assert lines[0].startswith("@@ "), "block must start with '@@ <file>'"
    f = lines[0][3:].strip()
    old, new = "\n".join(lines[1:]).split("\n=====\n")
    old = old.strip("\n"); new = new.strip("\n")
    s = texts.get(f, (None, None))[1] or open("/repo/" + f).read()
    orig = texts.get(f, (open("/repo/" + f).read(), None))[0]
    assert s.count(old) == 1, "OLD occurs %d times in %s" % (s.count(old), f)
    texts[f] = (orig, s.replace(old, new))
out = []
for f, (a, b) in texts.items():
    out.append("diff --git a/%s b/%s\n" % (f, f))
    out += list(difflib.unified_diff(a.splitlines(True), b.splitlines(True), "a/" + f, "b/" + f))
dest = sys.argv[2] if len(sys.argv) > 2 else "/verif/fixtures/mutants/%s.patch" % name
open(dest, "w").write("".join(out))
print("wrote", dest, len(out), "lines")
