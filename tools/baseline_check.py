#!/usr/bin/env python3
"""runs /repo's test suite (nextest, offline) and compares the passing set with BASELINE.json's stable_pass"""
import json, os, re, subprocess, sys
b = json.load(open("/root/.vp/BASELINE.json"))
stable = set(b["stable_pass"])
r = subprocess.run(["cargo", "nextest", "run", "--workspace", "--no-fail-fast", "--offline", "--test-threads", "8"], cwd=os.environ.get("REPO_DIR", "/repo"), capture_output=True, text=True)
out = r.stdout + r.stderr
passed, failed = set(), set()
for line in out.splitlines():
    m = re.match(r"\s*(PASS|FAIL|SIGABRT|SIGSEGV|TIMEOUT)\s+\[[^\]]*\]\s+(?:\(\s*\d+/\d+\)\s+)?(\S+)\s+(\S+)", line)
    if m:
        name = m.group(2) + "::" + m.group(3)
        (passed if m.group(1) == "PASS" else failed).add(name)
missing = stable - passed
print("passed %d, failed %d, stable baseline %d, baseline tests not passing now: %d" % (len(passed), len(failed), len(stable), len(missing)))
for m in sorted(missing):
    print("  MISSING", m)
print("failing now:", sorted(failed))
sys.exit(1 if missing else 0)
