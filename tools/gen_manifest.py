#!/usr/bin/env python3
"""regenerates /verif/MANIFEST.json from the table below (claimed checks + not_applicable)"""
import json, os
V = os.path.dirname(os.path.dirname(os.path.abspath(__file__)))
props = [json.loads(l) for l in open(os.path.join(V, "properties.jsonl"))]
NA = {
 "C04": "optimality and completeness of shortest paths quantify over run-time weights and graphs; no sound static bound in reach (structural parts are claimed under C03/C08)",
 "C05": "equality with the betweenness definition is a numerical identity over all graphs; not visible in the shape of the code (schedule-independence is C07)",
}
CLAIMS = {}
def claim(pid, category, text, note, technique, design_ref):
    CLAIMS[pid] = dict(category=category, text=text, note=note, technique=technique, design_ref=design_ref)

exec(open(os.path.join(V, "tools", "claims.py")).read())

checks = []
for p in props:
    pid = p["id"]
    if pid in CLAIMS:
        c = CLAIMS[pid]
        checks.append({
            "property_id": pid,
            "quick_cmd": "python3 sa/check.py %s --tier quick" % pid,
            "thorough_cmd": "python3 sa/check.py %s --tier thorough" % pid,
            "evidence_file": "/verif/evidence/%s.json" % pid,
            "replay_cmd_template": "python3 sa/check.py --replay {path}",
            "engine": "sa",
            "level_claimed": {"category": c["category"], "text": c["text"], "design_ref": c["design_ref"]},
            "level_note": c["note"],
            "technique": c["technique"],
        })
na = []
for p in props:
    if p["id"] not in CLAIMS:
        na.append({"property_id": p["id"], "reason": NA.get(p["id"], "not claimed: the rules for this property are not yet running green on the current tree (see DESIGN.md section 10)")})
m = {
 "version": 1,
 "setup_cmd": "cd /verif/driver && CARGO_NET_OFFLINE=true cargo +nightly build --release --offline",
 "hooks": {"guard": "graphrs_verif", "enable": "none needed: the analysis reads the compiler's own IR (MIR + typed HIR) of the unmodified sources through a rustc_private driver; the guard name is reserved and unused",
           "baseline_off_cmd": "cd /repo && cargo test --workspace --no-fail-fast --offline", "source_commits": [], "add_only": True},
 "engines": [
   {"name": "facts", "path": "driver/", "serves_properties": sorted(CLAIMS), "kind_free_text": "rustc_private driver (RUSTC_WORKSPACE_WRAPPER under cargo +nightly check) dumping items, MIR with resolved callees, promoted constants and typed-HIR facts of /repo's working tree as JSON"},
   {"name": "sa", "path": "sa/", "serves_properties": sorted(CLAIMS), "kind_free_text": "Python rule engine over the fact base: CFG/dominators/control dependence, points-to, write effects with path-sensitive written-sets, dependence slicing with predicate atoms, guard/must-pass-through, panic-site + taint, hash-order, rayon inventory, vocabulary and sibling cross-checks"},
 ],
 "checks": checks,
 "not_applicable": na,
 "notes": "Static analysis only: no check executes graphrs code.  See DESIGN.md for the per-property rules, what each decides and what it does not.",
}
json.dump(m, open(os.path.join(V, "MANIFEST.json"), "w"), indent=1)
print("claimed:", sorted(CLAIMS), "not applicable/unclaimed:", [x["property_id"] for x in na])
