"""python3 -i tools/dbg.py <scratch-name-prefix|path> [config]  -- load a Program for a scratch copy"""
import os, sys, glob
sys.path.insert(0, os.path.join(os.path.dirname(os.path.abspath(__file__)), "..", "sa"))
arg = sys.argv[1] if len(sys.argv) > 1 else "/repo"
if not os.path.isdir(arg):
    arg = sorted(glob.glob("/var/tmp/verif-regress/%s*" % arg))[0]
if arg != "/repo":
    os.environ["VERIF_REPO"] = arg
    os.environ["VERIF_WORK"] = os.path.join(arg, "work")
import facts, mir, inline, flow, panic, engines
cfg = sys.argv[2] if len(sys.argv) > 2 else "default"
prog = mir.Program(inline.normalise(facts.load(configs=(cfg,), verbose=False)[cfg]))
flows = flow.Flows(prog)
