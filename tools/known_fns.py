#!/usr/bin/env python3
"""tools/known_fns.py -- (re)generate rules/known_fns.json: the short paths of all functions of
/repo's current tree (both feature configurations).  Used only by sa/inline.py to decide which
crate-local calls are inlined before the rules run (functions NOT in the table are new helpers)."""
import json, os, sys
sys.path.insert(0, os.path.join(os.path.dirname(os.path.abspath(__file__)), "..", "sa"))
import facts, mir
fs = facts.load(verbose=False)
names = set()
sigs = {}
for cfg, d in fs.items():
    for it in d["items"]:
        if it["kind"] in ("fn", "assoc_fn"):
            sh = mir.short(it["path"])
            names.add(sh)
            sigs[sh] = {"inputs": it.get("inputs"), "output": it.get("output"), "pub": bool(it.get("pub") and it.get("reachable"))}
out = os.path.join(os.path.dirname(os.path.abspath(__file__)), "..", "rules", "known_fns.json")
json.dump({"note": "normalisation table for sa/inline.py (which calls are spliced, which new function is a renamed old one); not compared by any rule", "functions": sorted(names), "signatures": {k: sigs[k] for k in sorted(sigs)}}, open(out, "w"), indent=1)
print("wrote", out, len(names))
