#!/usr/bin/env python3
"""tools/regress.py [--only substr] [--jobs N] [--refactors-only|--fixtures-only]
Development harness (not a registered check): every fixture in fixtures/mutants/EXPECT.json (own mutants, reverts of
fixes, independently seeded changes) is applied to a persistent scratch copy of /repo under /var/tmp/verif-regress/ and
the checks listed for it must FIRE; every behaviour-preserving refactoring in refactors/*/patch.diff is applied likewise
and ALL checks must stay SILENT.  Facts are cached per scratch copy, so re-runs after a rule change take seconds."""
import json, os, shutil, subprocess, sys, hashlib
from concurrent.futures import ThreadPoolExecutor
VERIF = os.path.dirname(os.path.dirname(os.path.abspath(__file__)))
REPO = "/repo"
ROOT = "/var/tmp/verif-regress"
ALL = "C01 C02 C03 C06 C07 C08 C09 C10 C11 C12 C13 C14 C15 C16 C17 C18 C19 C20".split()
args = sys.argv[1:]
only = args[args.index("--only") + 1] if "--only" in args else None
jobs = int(args[args.index("--jobs") + 1]) if "--jobs" in args else 8
head = subprocess.run(["git", "-C", REPO, "rev-parse", "HEAD"], capture_output=True, text=True).stdout.strip()[:10]

def prepare(name, patch):
    h = hashlib.sha256((head + open(patch).read()).encode()).hexdigest()[:10]
    d = os.path.join(ROOT, name.replace("/", "_").replace("..", "") + "." + h)
    if not os.path.exists(os.path.join(d, ".ready")):
        shutil.rmtree(d, ignore_errors=True)
        os.makedirs(d)
        for item in ("src", "Cargo.toml", "Cargo.lock", "README.md"):
            s = os.path.join(REPO, item)
            (shutil.copytree if os.path.isdir(s) else shutil.copyfile)(s, os.path.join(d, item))
        r = subprocess.run(["git", "apply", "--unsafe-paths", "--directory=" + d, patch], cwd="/", capture_output=True, text=True)
        if r.returncode != 0:
            r = subprocess.run(["patch", "-p1", "-s", "-i", patch], cwd=d, capture_output=True, text=True)
        if r.returncode != 0:
            return None
        open(os.path.join(d, ".ready"), "w").write("ok")
    return d

def check(d, prop):
    env = dict(os.environ)
    env.update({"VERIF_REPO": d, "VERIF_WORK": os.path.join(d, "work"), "VERIF_OUT": os.path.join(d, "out"), "VERIF_IN_FIXTURE": "1"})
    r = subprocess.run([sys.executable, os.path.join(VERIF, "sa", "check.py"), prop], cwd=VERIF, env=env, capture_output=True, text=True)
    rules = [l.strip() for l in r.stdout.splitlines() if l.strip().startswith("rule ")]
    # the facts stay cached; the cargo target directories (250 MB per copy) are not needed again
    for t in ("target-default", "target-adjacency_matrix"):
        shutil.rmtree(os.path.join(d, "work", t), ignore_errors=True)
    return r.returncode, rules, r.stdout

def one(job):
    kind, name, patch, props = job
    d = prepare(name, patch)
    if d is None:
        return (kind, name, "NOAPPLY", [])
    res = []
    for p in props:
        rc, rules, out = check(d, p)
        if rc == 2:
            return (kind, name, "NOCOMPILE", [out[-300:]])
        res.append((p, rc, rules))
    return (kind, name, "ok", res)

jobs_l = []
if "--refactors-only" not in args:
    exp = json.load(open(os.path.join(VERIF, "fixtures/mutants/EXPECT.json")))
    for k, v in sorted(exp.items()):
        if only and only not in k:
            continue
        jobs_l.append(("fixture", k, os.path.normpath(os.path.join(VERIF, "fixtures/mutants", k)), v["fires"]))
if "--fixtures-only" not in args:
    rd = os.path.join(VERIF, "refactors")
    for r in sorted(os.listdir(rd)) if os.path.isdir(rd) else []:
        if only and only not in r:
            continue
        jobs_l.append(("refactor", r, os.path.join(rd, r, "patch.diff"), ALL))
os.makedirs(ROOT, exist_ok=True)
bad = 0
with ThreadPoolExecutor(jobs) as ex:
    for (kind, name, st, res) in ex.map(one, jobs_l):
        if st != "ok":
            print("%-9s %-70s %s %s" % (kind, name, st, res[:1]))
            bad += 1
            continue
        if kind == "fixture":
            silent = [p for (p, rc, rules) in res if rc != 1]
            if silent:
                bad += 1
                print("fixture   %-70s SILENT: %s" % (name, silent))
            elif "-v" in args:
                print("fixture   %-70s fires" % name)
        else:
            fired = [(p, rules) for (p, rc, rules) in res if rc != 0]
            if fired:
                bad += 1
                print("refactor  %-20s FALSE ALARM in %s" % (name, [p for p, _ in fired]))
                for p, rules in fired:
                    for l in rules[:int(os.environ.get("SHOW", "4"))]:
                        print("      %s: %s" % (p, l[:300]))
            else:
                print("refactor  %-20s silent" % name)
print("regress: %d jobs, %d problems" % (len(jobs_l), bad))
sys.exit(1 if bad else 0)
