#!/bin/bash
# tools/eval_seed.sh <name> <worktree> <property>   -- confirm a seeded change and run all checks on it
set -u
NAME=$1; WT=$2; PROP=$3
OUT=/verif/seeded/$NAME
mkdir -p "$OUT"
cd "$WT" || exit 9
git diff -- src > "$OUT/patch.diff"
cp tests/seeded_demo.rs "$OUT/seeded_demo.rs"
cp seeded_out/notes.md "$OUT/notes.md" 2>/dev/null
echo "--- demo WITH change (must fail)"
cargo test --offline --test seeded_demo > "$OUT/.with.log" 2>&1; W=$?
grep -E "^test result|^test .*FAILED" "$OUT/.with.log" | head -5
echo "--- baseline suite WITH change (207 stable must pass)"
REPO_DIR="$WT" python3 /verif/tools/baseline_check.py | head -3 | tee "$OUT/.base.log"
git checkout -q -- src
echo "--- demo WITHOUT change (must pass)"
cargo test --offline --test seeded_demo > "$OUT/.without.log" 2>&1; WO=$?
grep -E "^test result" "$OUT/.without.log" | head -3
git apply "$OUT/patch.diff"
echo "with_rc=$W without_rc=$WO"
echo "--- checks on the change"
# the checks run against the worktree itself (VERIF_REPO), /repo is not touched
cd /verif && SHOW=2 tools/wtcheck.sh "$WT" C01 C02 C03 C06 C07 C08 C09 C10 C11 C12 C13 C14 C15 C16 C17 C18 C19 C20 2>&1 | grep -v "silent" | cut -c1-330 | tee "$OUT/.checks.log"
rm -rf /var/tmp/wtcheck.$(basename $WT)
