"""python3 tools/gen_unwrap_kinds.py  -- (re)generate rules/unwrap_callee_kinds.json from /repo's current tree.
Run it only after looking at the difference: every new kind in an entry is a new way for an unwrap to panic."""
import json, os, sys
sys.path.insert(0, os.path.join(os.path.dirname(os.path.abspath(__file__)), "..", "sa"))
import facts, mir, inline, flow, engines

prog = mir.Program(inline.normalise(facts.load(configs=("adjacency_matrix",), verbose=False)["adjacency_matrix"]))
flows = flow.Flows(prog)
ents = {}
for (root, callee, kinds, s) in engines.unwrapped_crate_results(prog, flows):
    k = "%s|%s" % (root, callee)
    e = ents.setdefault(k, {"key": k, "kinds": [], "sites": 0})
    e["kinds"] = sorted(set(e["kinds"]) | set(kinds))
    e["sites"] += 1
out = {"comment": "error kinds the callee could produce when the unwrap was reviewed; a kind that appears later alarms (R-C20-9 / R-C13-8). Keys: <root function>|<callee>.", "entries": [ents[k] for k in sorted(ents)]}
json.dump(out, open(os.path.join(os.path.dirname(os.path.abspath(__file__)), "..", "rules", "unwrap_callee_kinds.json"), "w"), indent=1)
print(len(ents), "entries")
