claim("C07", "proof",
  "Static proof by construction that results cannot depend on thread count or schedule: every parallel region found in the MIR is an indexed into_par_iter().map(f).collect::<Vec>() whose per-item code has no hidden input and no shared mutable state, both arms of each thread-count branch are checked to be siblings (same crate callees, same argument provenance, same option tests), and no hash-order-sensitive sink lies inside a region or after the join. All obligations must be discharged; this is the one property where the static argument covers the whole statement.",
  "Trusted: rustc type/borrow checker; rayon's order-preserving indexed collect; determinism of std Vec/BinaryHeap/f64 for a fixed operation order; nohash iteration depends only on insertion history; trait methods of the caller's T/A are pure (A-T). Concurrent read-only use is covered by P1/P3 (no unsafe, no interior mutability) plus the compile-fail witnesses of the thorough tier.",
  "rustc_private MIR/HIR fact extraction + rayon call inventory + closure reachability + sibling-arm provenance comparison + hash-order sink classification",
  "DESIGN.md section 4, C07 (P1-P7)")
claim("C10", "other",
  "Decides one clause of C10 for all inputs: each component function returns an error, never an answer, on the wrong kind of graph (every non-error return is reachable only through the continue edge of a kind guard; CFG edge-deletion reachability, recursively through callees). Says nothing about the components' contents.",
  "Partial claim: reachability-class correctness, BFS completeness and partition sizes are run-time properties of graphs and are NOT decided. Trusted: rustc MIR; CFG paths over-approximate executions.",
  "must-pass-through guard analysis on MIR CFG (edge deletion + reachability), inter-procedural through crate callees",
  "DESIGN.md section 4, C10 (R-C10-1); sections 12-13 (R-C10-2 start nodes come from the node store, R-C10-3 adjacency-map entries are created only for new nodes)")
claim("C19", "other",
  "Sound enumeration of the crate's own panic-capable operations reachable from read_graphml_string; each is discharged by a dominating existence guard on the same map and key (CFG edge deletion), or by a reviewed invariant that is re-checked structurally (R-C19-1b), or it is a violation when its operand derives from the input document. Plus: no recursion in the reachable call graph, every CFG cycle contains an input-consuming or finite-iterator call and the loop exits to the constructor, and the constructor's directedness depends on the document's edgedefault with the right polarity.",
  "Trusted: quick-xml never panics/loops and consumes input on each read_event_into; std HashMap semantics. Reviewed-safe entries (rules/panic_review.json, keyed by function/callee/shape with a reviewed count) are assumptions with stated reasons. Not decided: that the graph contains exactly the document's elements.",
  "panic-site inventory over MIR (unwrap/expect/index/assert terminators) + guard dominance by edge deletion + inter-procedural data-slice taint + call-graph SCCs + CFG cycle analysis",
  "DESIGN.md section 4, C19 (R-C19-1..4)")
claim("C11", "other",
  "Decides two structural clauses of C11 for all inputs: (1) the kind refusals the statement requires (multi-edge for all five functions, directed for triangles/transitivity/generalized_degree) guard every non-error return; (2) no unwrapped lookup in a neighbour map whose key domain is the caller's subset (inter-procedural provenance of the map), plus that results data-depend on node_names. Says nothing about coefficient values.",
  "Partial claim: coefficient values, the [0,1] range and 'subset values equal full values' are numerical and NOT decided. Trusted: rustc MIR; over-approximated CFG paths and dependence.",
  "must-pass-through guard analysis (CFG edge deletion) + inter-procedural provenance slice of map operands + data-dependence of Ok payloads",
  "DESIGN.md section 4, C11 (R-C11-1, R-C11-2)")
claim("C20", "other",
  "Panic-site analysis of every body in the crate: unwraps of kind-restricted crate calls must be discharged per spec condition (dominating spec test, kind guard, or all call sites recursively); caller-supplied names reaching an unwrapped lookup in a function with an error channel must pass an existence check on the way (inter-procedural, through closures and wrapper functions); every MIR arithmetic Assert must be a benign class (constant-step usize counter, sum of lengths, non-zero constant divisor, guarded unsigned subtraction) or reviewed. Remaining sites are inventoried against a reviewed table.",
  "Partial claim: loop termination is not decided; untainted internal-invariant unwrap/index sites that are neither auto-discharged nor reviewed are reported in the evidence and do not alarm (an honest inventory, not a proof of panic-freedom). Reviewed entries are assumptions with reasons. Extraction uses -C overflow-checks=on so that release-mode wrap sites are visible as Assert terminators.",
  "MIR panic-site inventory + guard dominance by CFG edge deletion + error-kind summaries + inter-procedural name taint + arithmetic-assert classification",
  "DESIGN.md section 4, C20 (R-C20-1..5)")
claim("C01", "other",
  "Decides structural clauses of C01 on every CFG path of the mutators (hence for every GraphSpecs combination, name and history): failure atomicity by a path-sensitive written-set dataflow over inter-procedural write effects; batch = prefix; each error kind is control-dependent on its own policy atoms with the right polarity and no atom-consistent path creates a node under MissingNodeStrategy::Error; add_node's per-path written sets are exactly REPLACE or APPEND; source before target.",
  "Partial claim: that each branch computes the right outcome beyond these dependences (e.g. the stored weight, NaN handling) is NOT decided. One named infeasible-path exemption (X1). Trusted: rustc MIR, std HashMap/Vec semantics.",
  "path-sensitive written-set dataflow over MIR write effects + control-dependence atoms + atom-consistent path exploration + guard/edge-deletion reachability",
  "DESIGN.md section 4, C01 (R-C01-1..5)")
claim("C02", "other",
  "Decides structural clauses of C02: who may write the eleven private index fields; paired updates of the redundant stores on every success path of add_edge (written-set dataflow); canonical orientation of every keyed access (name-pair store ordered by a NAME comparison, position store by a POSITION comparison, both under specs.directed -- the rule aimed at fixtures whose name order equals insertion order); kind refusals of 14 query/degree functions; NotFound errors conditional on failed lookups; append/list-order of parallel edges.",
  "Partial claim: that BFS/successor queries return the right sets is value-level and NOT decided; agreement holds in the sense that all views are projections of stores proved to be updated together and keyed consistently. Assumes the public `specs` field is not mutated after construction.",
  "write-effect analysis with path-sensitive written sets + context-sensitive value slicing (MUST-DEPEND / MUST-NOT-DEPEND on comparison kinds) + guard analysis",
  "DESIGN.md section 4, C02 (R-C02-1..5)")
claim("C03", "other",
  "Decides structural clauses of C03: traversal lists are written only next to the edge store and read only through the by-index accessors that all kernels use; the cached weight is replaced under the same policy predicates as the stored edge (inter-procedural decision dependence incl. a KeepLast/KeepFirst-separating test); adjacency-list updates are argument-paired with the adjacency-set updates; the multi-edge replacement keeps the smaller weight (operator/role rule).",
  "Partial claim: the numerical equality 'distances equal those computed from get_all_edges()' needs C04 and is NOT decided. R-C03-5 alarms only on a positively identified wrong direction; unrecognised shapes are reported undecided.",
  "inter-procedural decision-dependence slicing with predicate atoms + write-effect ownership + sibling argument pairing + comparison-direction rule",
  "DESIGN.md section 4, C03 (R-C03-1..5)")
claim("C06", "other",
  "Decides one necessary condition of C06 for all inputs: on directed graphs every distance-kernel call of closeness_centrality (serial and parallel arm) runs on the reversed graph and on undirected graphs on the graph itself -- provenance of the graph argument, control dependence of the reversal on specs.directed, and reaching definitions showing that the un-reversed graph reaches a kernel only along the undirected edge; plus dependence of the result on weighted / wf_improved.",
  "Partial claim, stated plainly: the closeness formula's values, the WF scaling and the 0 for unreachable nodes are numerical and NOT decided. A value-conditional choice between the two graphs inside the directed branch is beyond may-dependence. Trusted: Graph::reverse (C15).",
  "provenance slicing through closure captures + control-dependence atoms + reaching definitions on the MIR CFG",
  "DESIGN.md section 4, C06 (R-C06-1, R-C06-2)")
claim("C08", "other",
  "Decides structural clauses of C08: the truth table of the fast-kernel dispatch (canonicalised conjunction), argument-position agreement of all kernel call sites with the entry points' same-named options (provenance, robust to renaming), a non-interference proof that with_paths / the paths vector influence no distance, heap entry or branch decision of the full kernel, the strict cutoff prune and finalise-before-exit shapes, and the constants/filter of get_all_shortest_paths_involving.",
  "Partial claim: equality of the fast and full kernels' distances, symmetry and the triangle inequality are value-level and NOT decided. R-C08-3 is a sound non-interference result under flow-insensitive may-dependence.",
  "predicate-atom canonicalisation + inter-procedural provenance descriptors + MUST-NOT-DEPEND slicing (non-interference) + operator/operand-role rule",
  "DESIGN.md section 4, C08 (R-C08-1..5)")
claim("C09", "other",
  "Decides structural clauses of C09: no edge count taken from the number of keys of the pair-keyed stores on a multi-edge path (number_of_edges derives from the per-pair lists); adjacency-matrix triplets depend on specs.directed (mirror under undirected) and on is_nan(weight); degree_centrality's division is guarded; the self-loop correction of the (weighted) degree depends on specs.directed.",
  "Partial claim: the handshake identities and every numeric value are NOT decided; R-C09-2 is evaluated on the adjacency_matrix feature configuration.",
  "receiver-resolved call-site rule (HashMap::len on edge stores) + MUST-DEPEND slices on matrix triplets and degree terms",
  "DESIGN.md section 4, C09 (R-C09-1..4)")
claim("C15", "other",
  "Decides structural clauses of C15: the four derived-graph functions cannot modify their source (&self, no write effects), return exactly the checked constructor's payload with the source's specs (collapse overrides only multi_edges), take the node list from the position-ordered store without reordering, and build the edge list as specified (Edge::reversed swaps u/v and keeps the rest; weight := parameter unconditionally; one summed edge per pair key; both-endpoints membership filter); kind refusals guard every answer.",
  "Partial claim: the arithmetic of the sums and reverse(reverse(g)) == g as an equality are NOT decided. Relies on C01-C03 for the constructor.",
  "write-effect summaries + constructor-provenance of the return value + field-source slices + closure truth-table canonicalisation + guard analysis",
  "DESIGN.md section 4, C15 (R-C15-1..5)")
claim("C18", "other",
  "Decides one clause of C18 for all inputs: eigenvector_centrality returns Ok only on the true edge of 'sum of |x - xlast| < tolerance-derived bound' inside the max_iter-bounded loop, after normalisation; exhausting the iterator is the only way to the PowerIterationFailedConvergence exit.",
  "Partial claim, stated plainly: unit norm, non-negativity and fixed-point quality are numerical and NOT decided.",
  "control-dependence with edge polarity + natural-loop analysis + dependence slices of the comparison operands",
  "DESIGN.md section 4, C18 (R-C18-1); section 13.1c (R-C18-2: the iteration never reads the raw by-index adjacency lists, so it multiplies by the matrix of the stored edges)")
claim("C14", "other",
  "Decides structural necessary conditions of the GraphML round trip: writer/reader vocabulary agreement (element x event kind from MIR constructors vs typed-HIR match arms; attribute names per element; edgedefault literals and polarity; data key = key id), escaping API discipline on both sides, plain f64 Display / parse::<f64> and NaN <=> absent, position-order node output and append-order input, file variant = string variant.",
  "Partial claim: the round-trip equality itself is NOT decided. Trusted: quick-xml escape/unescape are inverses; Rust's f64 Display/FromStr round-trip; this toolchain's byte-template encoding of format strings (a lone {} is b\"\\xc0\\x00\").",
  "vocabulary cross-check between MIR-extracted writer tables and typed-HIR reader match arms + generic-argument inspection + control-dependence/edge-deletion rules",
  "DESIGN.md section 4, C14 (V1-V6)")
claim("C16", "other",
  "Decides structural clauses of C16: interval-canonicalised argument validation (p > 0 and p < 1 guard the generator and both kernels), a sibling cross-check of the two skipping kernels on a frozen feature vector confirmed against the published algorithm (carry loop consumes the cursor by subtraction, saturating skip, draw ln(1-U), ...), and complete_graph's construction shape (nodes from 0..n, combinations/permutations tied to directedness).",
  "Partial claim: the edge distribution, 'every pair can occur' and the karate-club data literal are NOT decided. The sibling rule is a deviance rule armed because each feature was confirmed by reading and by execution during triage.",
  "comparison-atom interval canonicalisation + sibling feature-vector cross-check over MIR + MUST-DEPEND slices",
  "DESIGN.md section 4, C16 (R-C16-1..3)")
claim("C17", "other",
  "Decides structural clauses of C17 on everything reachable from the seeded entry points: entropy sources only under seed == None and seeded generators built from the payload alone, all rand use through the two factories; every iteration over a randomly-seeded hash container classified by its resolved consumer, with ORDER sites required to be reviewed and consumers of hash-ordered sequences frozen; no rayon/clock/env/pointer input; Louvain node ids from sorted names.",
  "Partial claim: float sums whose operand order follows hash order (S3) are an explicit assumption (order-independent up to rounding; exact for unweighted graphs), not decided. The second sentence of the property (non-randomised algorithms) is covered only as far as they are reachable from the seeded entry points.",
  "call-graph scoping + control-dependence on the seed discriminant + hash-order sink classification (type-resolved hasher, consumer classes, sort-after-collect, keyed stores) + reviewed table",
  "DESIGN.md section 4, C17 (S1-S5)")
claim("C12", "other",
  "Decides structural necessary conditions of C12: is_partition's answer depends on a graph-membership lookup of the members, on an element-identity operation ACROSS communities (without which an overlap compensated by a missing node cannot be seen) and on the node count, with every `false` conditional on such a test; modularity answers only behind is_partition(graph, communities) == true and builds NotAPartition on the false edge; its value depends on communities/weighted/resolution, the six degree tables and the induced subgraphs.",
  "Partial claim, stated plainly: that is_partition is exactly the partition predicate and that modularity equals Newman's formula are value-level and NOT decided. (The design had C12 as not applicable because the count-based defect seemed to have no structural signature; the necessary information-flow condition R-C12-1 does expose it, the defect was repaired in 0e1e0d3.)",
  "MUST-DEPEND slices on required operations (membership, cross-set identity, node count) + guard/edge-deletion reachability",
  "DESIGN.md section 12.5, C12 (R-C12-1..3); section 13.1b (R-C12-4: no merging/dropping operation on edges between the stored edge list and L_c)")
claim("C13", "other",
  "Decides three structural clauses of C13 and says plainly that the rest is undecided: the list of levels returned by louvain_partitions is never empty (path-sensitive predicate abstraction: every abstract path into Ok(levels) has pushed a level), communities are non-empty (empty sets are filtered from both partitions compute_one_level returns; the initial partition is made of singletons), louvain_communities returns the popped last level or NoPartitions; within a level communities change only by moving a node's whole member set.",
  "Stated plainly: termination, nesting as a value-level fact and non-decreasing modularity depend on run-time floating-point gains and are NOT decided by any rule here; the claim covers the structural clauses only.",
  "path-sensitive predicate-abstraction dataflow (constant-initialised loop flag) + producer-chain and dependence rules + guard/edge-deletion",
  "DESIGN.md section 12.6, C13 (R-C13-1..4); section 13.1c (R-C13-5 name/position domain discipline where names are usize) and section 15 (R-C13-6: directed neighbour weights count both directions -- a structural necessary condition of the termination argument; termination itself is NOT decided)")
