#!/bin/bash
# tools/try_patch.sh <patch.diff> <ID> [<ID>...]
# applies a patch to /repo, runs the given checks with output redirected to a scratch dir,
# and ALWAYS restores /repo afterwards.  Exit code: number of checks that reported a violation.
set -u
PATCH=$(realpath "$1"); shift
OUT=$(mktemp -d /var/tmp/verif-mut.XXXXXX)
cd /repo || exit 99
if ! git -C /repo diff --quiet; then echo "/repo has uncommitted changes; refusing"; exit 98; fi
trap 'git -C /repo checkout -- . ; git -C /repo clean -fdq tests 2>/dev/null; rm -rf "$OUT"' EXIT
if ! git -C /repo apply "$PATCH"; then echo "PATCH DOES NOT APPLY: $PATCH"; exit 97; fi
n=0
for id in "$@"; do
  VERIF_OUT="$OUT" python3 /verif/sa/check.py "$id" --tier "${TIER:-quick}" > "$OUT/$id.log" 2>&1
  rc=$?
  if [ $rc -eq 1 ]; then n=$((n+1)); echo "== $id FIRED:"; grep -E "rule .* violated|VIOLATION" "$OUT/$id.log" | head -${SHOW:-6};
  elif [ $rc -eq 0 ]; then echo "== $id silent"; 
  else echo "== $id ERROR rc=$rc"; tail -15 "$OUT/$id.log"; fi
done
exit $n
