#!/usr/bin/env python3
"""tools/mkmut.py <name> <file> <<< 'OLD\n=====\nNEW'   -- create fixtures/mutants/<name>.patch by
replacing OLD with NEW (exactly once) in /repo/<file>; /repo is restored afterwards.
Several edits: separate blocks with a line '#####' and start each block with '@@ <file>'."""
import subprocess, sys, os
name = sys.argv[1]
spec = sys.stdin.read()
blocks = spec.split("\n#####\n")
try:
    for blk in blocks:
        lines = blk.split("\n")
        assert lines[0].startswith("@@ "), "block must start with '@@ <file>'"
        f = "/repo/" + lines[0][3:].strip()
        body = "\n".join(lines[1:])
        old, new = body.split("\n=====\n")
        old = old.strip("\n"); new = new.strip("\n")
        s = open(f).read()
        assert s.count(old) == 1, "OLD occurs %d times in %s" % (s.count(old), f)
        open(f, "w").write(s.replace(old, new))
    d = subprocess.run(["git", "-C", "/repo", "diff"], capture_output=True, text=True).stdout
    out = sys.argv[2] if len(sys.argv) > 2 else "/verif/fixtures/mutants/%s.patch" % name
    open(out, "w").write(d)
    print("wrote", out, len(d.splitlines()), "lines")
finally:
    subprocess.run(["git", "-C", "/repo", "checkout", "--", "."])
