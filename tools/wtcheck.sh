#!/bin/bash
# tools/wtcheck.sh <worktree> <prop>...   -- run the quick checks against another checkout (not /repo);
# facts cache, evidence and replay files go to scratch directories, /verif/evidence is untouched.
WT=$1; shift
S=/var/tmp/wtcheck.$(basename $WT)
mkdir -p $S/work $S/out
for p in "$@"; do
  VERIF_REPO=$WT VERIF_WORK=$S/work VERIF_OUT=$S/out python3 /verif/sa/check.py $p > $S/$p.log 2>&1
  rc=$?
  if [ $rc -ne 0 ]; then echo "== $p FIRED:"; grep -B1 -A1 "rule .* violated" $S/$p.log | grep -v "^--" | head -${SHOW:-6}; else echo "   $p silent"; fi
done
