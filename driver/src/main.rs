// graphrs-facts: a rustc_private driver that dumps the type-checked program of the
// `graphrs` crate (items, MIR with resolved callees, typed-HIR match arms and literals)
// as one JSON fact file.  Used as RUSTC_WORKSPACE_WRAPPER under `cargo +nightly check`.
//
// Environment:
//   VERIF_FACTS_OUT   path of the JSON file to write (one write, at the end)
//   VERIF_NONCE       copied into the fact file (freshness check by the runner)
//   VERIF_CRATE       crate name to analyse (default: graphrs)
#![feature(rustc_private)]
#![allow(clippy::all)]

extern crate rustc_abi;
extern crate rustc_ast;
extern crate rustc_driver;
extern crate rustc_hir;
extern crate rustc_interface;
extern crate rustc_middle;
extern crate rustc_span;

mod json;
use json::J;

use rustc_driver::{Callbacks, Compilation};
use rustc_hir::def::DefKind;
use rustc_hir::def_id::{DefId, LocalDefId, LOCAL_CRATE};
use rustc_hir::intravisit::{self, Visitor};
use rustc_interface::interface::Compiler;
use rustc_middle::mir::{
    AggregateKind, BasicBlock, Body, CastKind, Const, Operand, Place, PlaceRef,
    ProjectionElem, Rvalue, StatementKind, TerminatorKind, UnwindAction, VarDebugInfoContents,
};
use rustc_middle::ty::{self, Ty, TyCtxt};
use rustc_span::{ExpnKind, Span};

struct Cb;

impl Callbacks for Cb {
    fn after_analysis<'tcx>(&mut self, _c: &Compiler, tcx: TyCtxt<'tcx>) -> Compilation {
        let want = std::env::var("VERIF_CRATE").unwrap_or_else(|_| "graphrs".to_string());
        let name = tcx.crate_name(LOCAL_CRATE).to_string();
        if name != want {
            return Compilation::Continue;
        }
        let out = match std::env::var("VERIF_FACTS_OUT") {
            Ok(o) => o,
            Err(_) => return Compilation::Continue,
        };
        let facts = dump_crate(tcx);
        let mut s = String::with_capacity(8 << 20);
        facts.write(&mut s);
        std::fs::write(&out, s).expect("write facts");
        Compilation::Continue
    }
}

fn main() {
    let mut args: Vec<String> = std::env::args().collect();
    // as RUSTC_WORKSPACE_WRAPPER: argv[1] is the real rustc
    if args.len() > 1 && (args[1].ends_with("rustc") || args[1].contains("/rustc")) {
        args.remove(1);
    }
    let mut cb = Cb;
    rustc_driver::run_compiler(&args, &mut cb);
}

// ---------------------------------------------------------------------------------------

fn span_j<'tcx>(tcx: TyCtxt<'tcx>, span: Span) -> J {
    let sm = tcx.sess.source_map();
    let cs = span.source_callsite();
    let lo = sm.lookup_char_pos(cs.lo());
    let hi = sm.lookup_char_pos(cs.hi());
    let file = format!("{}", lo.file.name.prefer_local_unconditionally());
    let mut o = vec![
        ("file".into(), J::Str(file)),
        ("line".into(), J::Num(lo.line as i128)),
        ("col".into(), J::Num(lo.col.0 as i128 + 1)),
        ("eline".into(), J::Num(hi.line as i128)),
        ("ecol".into(), J::Num(hi.col.0 as i128 + 1)),
    ];
    if span.from_expansion() {
        // collect the chain of expansions (innermost first)
        let mut chain = Vec::new();
        let mut sp = span;
        let mut n = 0;
        while sp.from_expansion() && n < 8 {
            let ed = sp.ctxt().outer_expn_data();
            let s = match ed.kind {
                ExpnKind::Macro(_, sym) => format!("macro:{}", sym),
                ExpnKind::Desugaring(k) => format!("desugar:{:?}", k),
                ExpnKind::AstPass(p) => format!("astpass:{:?}", p),
                ExpnKind::Root => "root".to_string(),
            };
            chain.push(J::Str(s));
            sp = ed.call_site;
            n += 1;
        }
        o.push(("exp".into(), J::Arr(chain)));
    }
    J::Obj(o)
}

fn ty_s<'tcx>(t: Ty<'tcx>) -> String {
    format!("{}", t)
}

fn field_name<'tcx>(
    tcx: TyCtxt<'tcx>,
    base_ty: Ty<'tcx>,
    variant: Option<rustc_abi::VariantIdx>,
    f: rustc_abi::FieldIdx,
) -> String {
    match base_ty.kind() {
        ty::Adt(def, _) => {
            let v = match variant {
                Some(v) => def.variant(v),
                None => {
                    if def.is_enum() {
                        return format!("{}", f.as_usize());
                    }
                    def.non_enum_variant()
                }
            };
            match v.fields.get(f) {
                Some(fd) => fd.name.to_string(),
                None => format!("{}", f.as_usize()),
            }
        }
        ty::Closure(did, _) => {
            if let Some(ldid) = did.as_local() {
                let caps = tcx.closure_captures(ldid);
                if let Some(c) = caps.get(f.as_usize()) {
                    return format!("^{}", c.to_string(tcx));
                }
            }
            format!("^{}", f.as_usize())
        }
        _ => format!("{}", f.as_usize()),
    }
}

fn place_j<'tcx>(tcx: TyCtxt<'tcx>, body: &Body<'tcx>, p: PlaceRef<'tcx>) -> J {
    let mut proj = Vec::new();
    let place = Place { local: p.local, projection: tcx.mk_place_elems(p.projection) };
    for (base, elem) in place.iter_projections() {
        let bt = base.ty(&body.local_decls, tcx);
        let e = match elem {
            ProjectionElem::Deref => J::Str("*".into()),
            ProjectionElem::Field(f, fty) => J::Obj(vec![
                ("f".into(), J::Str(field_name(tcx, bt.ty, bt.variant_index, f))),
                ("i".into(), J::Num(f.as_usize() as i128)),
                ("ty".into(), J::Str(ty_s(fty))),
                ("of".into(), J::Str(ty_s(bt.ty))),
            ]),
            ProjectionElem::Index(l) => J::Obj(vec![("idx".into(), J::Num(l.as_usize() as i128))]),
            ProjectionElem::ConstantIndex { offset, from_end, .. } => J::Obj(vec![
                ("cidx".into(), J::Num(offset as i128)),
                ("from_end".into(), J::Bool(from_end)),
            ]),
            ProjectionElem::Subslice { from, to, from_end } => J::Obj(vec![
                ("sub".into(), J::Arr(vec![J::Num(from as i128), J::Num(to as i128)])),
                ("from_end".into(), J::Bool(from_end)),
            ]),
            ProjectionElem::Downcast(name, vi) => {
                let n = match name {
                    Some(s) => s.to_string(),
                    None => match bt.ty.kind() {
                        ty::Adt(def, _) if def.is_enum() => def.variant(vi).name.to_string(),
                        _ => format!("{}", vi.as_usize()),
                    },
                };
                J::Obj(vec![("as".into(), J::Str(n))])
            }
            _ => J::Obj(vec![("other".into(), J::Str(format!("{:?}", elem)))]),
        };
        proj.push(e);
    }
    let t = place.ty(&body.local_decls, tcx).ty;
    J::Obj(vec![
        ("l".into(), J::Num(p.local.as_usize() as i128)),
        ("p".into(), J::Arr(proj)),
        ("ty".into(), J::Str(ty_s(t))),
    ])
}

fn generic_args_j<'tcx>(args: ty::GenericArgsRef<'tcx>) -> J {
    J::Arr(args.iter().map(|a| J::Str(format!("{}", a))).collect())
}

fn const_j<'tcx>(tcx: TyCtxt<'tcx>, owner: DefId, c: &rustc_middle::mir::ConstOperand<'tcx>) -> J {
    let t = c.const_.ty();
    let mut o = vec![
        ("ty".into(), J::Str(ty_s(t))),
        ("s".into(), J::Str(format!("{}", c))),
    ];
    match t.kind() {
        ty::FnDef(did, args) => {
            o.push(("fn".into(), J::Str(tcx.def_path_str(*did))));
            o.push(("fn_full".into(), J::Str(tcx.def_path_str_with_args(*did, args))));
            o.push(("args".into(), generic_args_j(args)));
            o.push(("krate".into(), J::Str(tcx.crate_name(did.krate).to_string())));
            o.push(("local".into(), J::Bool(did.is_local())));
            if let Some(tr) = tcx.trait_of_assoc(*did) {
                o.push(("trait".into(), J::Str(tcx.def_path_str(tr))));
            }
            // try to resolve trait calls to a concrete impl
            let env = ty::TypingEnv::post_analysis(tcx, owner);
            if let Ok(Some(inst)) = ty::Instance::try_resolve(tcx, env, *did, args) {
                let rd = inst.def_id();
                if rd != *did {
                    o.push(("resolved".into(), J::Str(tcx.def_path_str(rd))));
                    o.push((
                        "resolved_full".into(),
                        J::Str(tcx.def_path_str_with_args(rd, inst.args)),
                    ));
                    o.push(("resolved_local".into(), J::Bool(rd.is_local())));
                }
            }
        }
        ty::Closure(did, _) => {
            o.push(("closure".into(), J::Str(tcx.def_path_str(*did))));
        }
        _ => {
            // scalar value if available
            if let Const::Val(cv, _) = c.const_ {
                if let Some(si) = cv.try_to_scalar_int() {
                    let size = si.size();
                    let bits = si.to_bits(size);
                    o.push(("bits".into(), J::Str(format!("{}", bits))));
                    if t.is_signed() {
                        let v = size.sign_extend(bits) as i128;
                        o.push(("int".into(), J::Str(format!("{}", v))));
                    } else if t.is_integral() || t.is_bool() || t.is_char() {
                        o.push(("int".into(), J::Str(format!("{}", bits))));
                    } else if t.is_floating_point() {
                        if size.bytes() == 8 {
                            o.push((
                                "float".into(),
                                J::Str(format!("{:?}", f64::from_bits(bits as u64))),
                            ));
                        } else if size.bytes() == 4 {
                            o.push((
                                "float".into(),
                                J::Str(format!("{:?}", f32::from_bits(bits as u32))),
                            ));
                        }
                    }
                }
            }
        }
    }
    J::Obj(o)
}

fn operand_j<'tcx>(tcx: TyCtxt<'tcx>, owner: DefId, body: &Body<'tcx>, op: &Operand<'tcx>) -> J {
    match op {
        Operand::Copy(p) => J::Obj(vec![
            ("k".into(), J::Str("copy".into())),
            ("place".into(), place_j(tcx, body, p.as_ref())),
        ]),
        Operand::Move(p) => J::Obj(vec![
            ("k".into(), J::Str("move".into())),
            ("place".into(), place_j(tcx, body, p.as_ref())),
        ]),
        Operand::Constant(c) => J::Obj(vec![
            ("k".into(), J::Str("const".into())),
            ("c".into(), const_j(tcx, owner, c)),
        ]),
        #[allow(unreachable_patterns)]
        _ => J::Obj(vec![
            ("k".into(), J::Str("other".into())),
            ("s".into(), J::Str(format!("{:?}", op))),
        ]),
    }
}

fn rvalue_j<'tcx>(tcx: TyCtxt<'tcx>, owner: DefId, body: &Body<'tcx>, rv: &Rvalue<'tcx>) -> J {
    let op = |o: &Operand<'tcx>| operand_j(tcx, owner, body, o);
    let mut o: Vec<(String, J)> = Vec::new();
    match rv {
        Rvalue::Use(x, ..) => {
            o.push(("k".into(), J::Str("use".into())));
            o.push(("ops".into(), J::Arr(vec![op(x)])));
        }
        Rvalue::Repeat(x, n) => {
            o.push(("k".into(), J::Str("repeat".into())));
            o.push(("ops".into(), J::Arr(vec![op(x)])));
            o.push(("n".into(), J::Str(format!("{}", n))));
        }
        Rvalue::Ref(_, bk, p) => {
            o.push(("k".into(), J::Str("ref".into())));
            let m = match bk {
                rustc_middle::mir::BorrowKind::Shared => "shared",
                rustc_middle::mir::BorrowKind::Fake(_) => "fake",
                rustc_middle::mir::BorrowKind::Mut { .. } => "mut",
            };
            o.push(("bk".into(), J::Str(m.into())));
            o.push(("place".into(), place_j(tcx, body, p.as_ref())));
        }
        Rvalue::RawPtr(k, p) => {
            o.push(("k".into(), J::Str("rawptr".into())));
            o.push(("bk".into(), J::Str(format!("{:?}", k))));
            o.push(("place".into(), place_j(tcx, body, p.as_ref())));
        }
        Rvalue::Cast(ck, x, t) => {
            o.push(("k".into(), J::Str("cast".into())));
            let cks = match ck {
                CastKind::IntToInt => "IntToInt".to_string(),
                CastKind::FloatToInt => "FloatToInt".to_string(),
                CastKind::IntToFloat => "IntToFloat".to_string(),
                CastKind::FloatToFloat => "FloatToFloat".to_string(),
                CastKind::Transmute => "Transmute".to_string(),
                other => format!("{:?}", other),
            };
            o.push(("ck".into(), J::Str(cks)));
            o.push(("ops".into(), J::Arr(vec![op(x)])));
            o.push(("to".into(), J::Str(ty_s(*t))));
        }
        Rvalue::BinaryOp(b, ab) => {
            o.push(("k".into(), J::Str("binop".into())));
            o.push(("op".into(), J::Str(format!("{:?}", b))));
            o.push(("ops".into(), J::Arr(vec![op(&ab.0), op(&ab.1)])));
        }
        Rvalue::UnaryOp(u, x) => {
            o.push(("k".into(), J::Str("unop".into())));
            o.push(("op".into(), J::Str(format!("{:?}", u))));
            o.push(("ops".into(), J::Arr(vec![op(x)])));
        }
        Rvalue::Discriminant(p) => {
            o.push(("k".into(), J::Str("discr".into())));
            o.push(("place".into(), place_j(tcx, body, p.as_ref())));
        }
        Rvalue::Aggregate(ak, ops) => {
            o.push(("k".into(), J::Str("aggr".into())));
            let (kind, extra): (String, Vec<(String, J)>) = match &**ak {
                AggregateKind::Array(t) => ("array".into(), vec![("elem".into(), J::Str(ty_s(*t)))]),
                AggregateKind::Tuple => ("tuple".into(), vec![]),
                AggregateKind::Adt(did, vi, args, _, active) => {
                    let def = tcx.adt_def(*did);
                    let v = def.variant(*vi);
                    let mut fields: Vec<J> =
                        v.fields.iter().map(|f| J::Str(f.name.to_string())).collect();
                    if let Some(a) = active {
                        fields = vec![fields[a.as_usize()].clone()];
                    }
                    (
                        "adt".into(),
                        vec![
                            ("adt".into(), J::Str(tcx.def_path_str(*did))),
                            ("variant".into(), J::Str(v.name.to_string())),
                            ("is_enum".into(), J::Bool(def.is_enum())),
                            ("fields".into(), J::Arr(fields)),
                            ("args".into(), generic_args_j(args)),
                        ],
                    )
                }
                AggregateKind::Closure(did, args) => (
                    "closure".into(),
                    vec![
                        ("closure".into(), J::Str(tcx.def_path_str(*did))),
                        ("args".into(), generic_args_j(args)),
                    ],
                ),
                other => ("other".into(), vec![("s".into(), J::Str(format!("{:?}", other)))]),
            };
            o.push(("ak".into(), J::Str(kind)));
            o.extend(extra);
            o.push(("ops".into(), J::Arr(ops.iter().map(|x| op(x)).collect())));
        }
        Rvalue::CopyForDeref(p) => {
            o.push(("k".into(), J::Str("copyderef".into())));
            o.push(("place".into(), place_j(tcx, body, p.as_ref())));
        }
        Rvalue::ThreadLocalRef(did) => {
            o.push(("k".into(), J::Str("tlref".into())));
            o.push(("def".into(), J::Str(tcx.def_path_str(*did))));
        }
        other => {
            o.push(("k".into(), J::Str("other".into())));
            o.push(("s".into(), J::Str(format!("{:?}", other))));
        }
    }
    o.push(("ty".into(), J::Str(ty_s(rv.ty(&body.local_decls, tcx)))));
    J::Obj(o)
}

fn bb_n(b: BasicBlock) -> J {
    J::Num(b.as_usize() as i128)
}

fn unwind_j(u: &UnwindAction) -> J {
    match u {
        UnwindAction::Cleanup(b) => bb_n(*b),
        _ => J::Null,
    }
}

fn dump_body<'tcx>(tcx: TyCtxt<'tcx>, did: LocalDefId) -> J {
    let owner = did.to_def_id();
    let body: &Body<'tcx> = tcx.optimized_mir(owner);
    let mut j = dump_body_of(tcx, owner, body);
    let promoted = tcx.promoted_mir(owner);
    let ps: Vec<J> = promoted.iter().map(|b| dump_body_of(tcx, owner, b)).collect();
    if let J::Obj(o) = &mut j {
        o.push(("promoted".into(), J::Arr(ps)));
    }
    j
}

fn dump_body_of<'tcx>(tcx: TyCtxt<'tcx>, owner: DefId, body: &Body<'tcx>) -> J {
    let mut o: Vec<(String, J)> = Vec::new();
    o.push(("arg_count".into(), J::Num(body.arg_count as i128)));
    // locals
    let mut names: Vec<Option<String>> = vec![None; body.local_decls.len()];
    let mut dbg = Vec::new();
    for v in body.var_debug_info.iter() {
        if let VarDebugInfoContents::Place(p) = &v.value {
            if p.projection.is_empty() {
                names[p.local.as_usize()] = Some(v.name.to_string());
            }
            dbg.push(J::Obj(vec![
                ("name".into(), J::Str(v.name.to_string())),
                ("place".into(), place_j(tcx, body, p.as_ref())),
                ("arg".into(), match v.argument_index { Some(i) => J::Num(i as i128), None => J::Null }),
            ]));
        }
    }
    o.push(("debug".into(), J::Arr(dbg)));
    let mut locals = Vec::new();
    for (i, ld) in body.local_decls.iter_enumerated() {
        locals.push(J::Obj(vec![
            ("i".into(), J::Num(i.as_usize() as i128)),
            ("ty".into(), J::Str(ty_s(ld.ty))),
            ("name".into(), match &names[i.as_usize()] { Some(n) => J::Str(n.clone()), None => J::Null }),
            ("mut".into(), J::Bool(ld.mutability.is_mut())),
        ]));
    }
    o.push(("locals".into(), J::Arr(locals)));
    // blocks
    let mut blocks = Vec::new();
    for (bb, data) in body.basic_blocks.iter_enumerated() {
        let mut stmts = Vec::new();
        for st in data.statements.iter() {
            match &st.kind {
                StatementKind::Assign(b) => {
                    let (p, rv) = &**b;
                    stmts.push(J::Obj(vec![
                        ("k".into(), J::Str("assign".into())),
                        ("lhs".into(), place_j(tcx, body, p.as_ref())),
                        ("rv".into(), rvalue_j(tcx, owner, body, rv)),
                        ("span".into(), span_j(tcx, st.source_info.span)),
                    ]));
                }
                StatementKind::SetDiscriminant { place, variant_index } => {
                    stmts.push(J::Obj(vec![
                        ("k".into(), J::Str("setdiscr".into())),
                        ("lhs".into(), place_j(tcx, body, (**place).as_ref())),
                        ("variant".into(), J::Num(variant_index.as_usize() as i128)),
                        ("span".into(), span_j(tcx, st.source_info.span)),
                    ]));
                }
                StatementKind::Intrinsic(i) => {
                    stmts.push(J::Obj(vec![
                        ("k".into(), J::Str("intrinsic".into())),
                        ("s".into(), J::Str(format!("{:?}", i))),
                        ("span".into(), span_j(tcx, st.source_info.span)),
                    ]));
                }
                _ => {}
            }
        }
        let term = data.terminator();
        let mut t: Vec<(String, J)> = Vec::new();
        match &term.kind {
            TerminatorKind::Goto { target } => {
                t.push(("k".into(), J::Str("goto".into())));
                t.push(("target".into(), bb_n(*target)));
            }
            TerminatorKind::SwitchInt { discr, targets } => {
                t.push(("k".into(), J::Str("switch".into())));
                t.push(("discr".into(), operand_j(tcx, owner, body, discr)));
                t.push(("discr_ty".into(), J::Str(ty_s(discr.ty(&body.local_decls, tcx)))));
                let mut ts = Vec::new();
                for (v, b) in targets.iter() {
                    ts.push(J::Arr(vec![J::Str(format!("{}", v)), bb_n(b)]));
                }
                t.push(("targets".into(), J::Arr(ts)));
                t.push(("otherwise".into(), bb_n(targets.otherwise())));
            }
            TerminatorKind::Return => t.push(("k".into(), J::Str("return".into()))),
            TerminatorKind::Unreachable => t.push(("k".into(), J::Str("unreachable".into()))),
            TerminatorKind::UnwindResume => t.push(("k".into(), J::Str("resume".into()))),
            TerminatorKind::UnwindTerminate(_) => t.push(("k".into(), J::Str("terminate".into()))),
            TerminatorKind::Drop { place, target, unwind, .. } => {
                t.push(("k".into(), J::Str("drop".into())));
                t.push(("place".into(), place_j(tcx, body, place.as_ref())));
                t.push(("target".into(), bb_n(*target)));
                t.push(("unwind".into(), unwind_j(unwind)));
            }
            TerminatorKind::Call { func, args, destination, target, unwind, .. } => {
                t.push(("k".into(), J::Str("call".into())));
                t.push(("func".into(), operand_j(tcx, owner, body, func)));
                t.push((
                    "args".into(),
                    J::Arr(args.iter().map(|a| operand_j(tcx, owner, body, &a.node)).collect()),
                ));
                t.push(("dest".into(), place_j(tcx, body, destination.as_ref())));
                t.push(("target".into(), match target { Some(b) => bb_n(*b), None => J::Null }));
                t.push(("unwind".into(), unwind_j(unwind)));
            }
            TerminatorKind::Assert { cond, expected, msg, target, unwind } => {
                t.push(("k".into(), J::Str("assert".into())));
                t.push(("cond".into(), operand_j(tcx, owner, body, cond)));
                t.push(("expected".into(), J::Bool(*expected)));
                let m = format!("{:?}", msg);
                let kind = m.split('(').next().unwrap_or("").to_string();
                t.push(("msg".into(), J::Str(m)));
                t.push(("msg_kind".into(), J::Str(kind)));
                t.push(("target".into(), bb_n(*target)));
                t.push(("unwind".into(), unwind_j(unwind)));
            }
            other => {
                t.push(("k".into(), J::Str("other".into())));
                t.push(("s".into(), J::Str(format!("{:?}", other))));
                let succ: Vec<J> = other.successors().map(bb_n).collect();
                t.push(("succ".into(), J::Arr(succ)));
            }
        }
        t.push(("span".into(), span_j(tcx, term.source_info.span)));
        blocks.push(J::Obj(vec![
            ("i".into(), bb_n(bb)),
            ("cleanup".into(), J::Bool(data.is_cleanup)),
            ("stmts".into(), J::Arr(stmts)),
            ("term".into(), J::Obj(t)),
        ]));
    }
    o.push(("blocks".into(), J::Arr(blocks)));
    J::Obj(o)
}

// ---------------------------------------------------------------------------------------
// typed HIR facts: match arms with their patterns, literal call arguments, method calls

struct HirV<'tcx> {
    tcx: TyCtxt<'tcx>,
    owner: LocalDefId,
    matches: Vec<J>,
    calls: Vec<J>,
    loops: Vec<J>,
    unsafe_blocks: Vec<J>,
}

fn pat_s<'tcx>(tcx: TyCtxt<'tcx>, p: &rustc_hir::Pat<'tcx>) -> J {
    use rustc_hir::PatKind;
    match &p.kind {
        PatKind::Wild => J::Str("_".into()),
        PatKind::Missing => J::Str("_".into()),
        PatKind::Binding(_, _, id, sub) => match sub {
            Some(s) => J::Obj(vec![("bind".into(), J::Str(id.to_string())), ("sub".into(), pat_s(tcx, s))]),
            None => J::Obj(vec![("bind".into(), J::Str(id.to_string()))]),
        },
        PatKind::Expr(e) => match &e.kind {
            rustc_hir::PatExprKind::Lit { lit, negated } => {
                let v = lit_j(&lit.node);
                if *negated {
                    J::Obj(vec![("neg".into(), v)])
                } else {
                    J::Obj(vec![("lit".into(), v)])
                }
            }
            rustc_hir::PatExprKind::Path(qp) => {
                let res = tcx.typeck(p.hir_id.owner.def_id).qpath_res(qp, e.hir_id);
                J::Obj(vec![("path".into(), J::Str(res_s(tcx, res)))])
            }
            #[allow(unreachable_patterns)]
            _ => J::Obj(vec![("other".into(), J::Str("patexpr".into()))]),
        },
        PatKind::TupleStruct(qp, subs, _) => {
            let res = tcx.typeck(p.hir_id.owner.def_id).qpath_res(qp, p.hir_id);
            J::Obj(vec![
                ("ts".into(), J::Str(res_s(tcx, res))),
                ("subs".into(), J::Arr(subs.iter().map(|s| pat_s(tcx, s)).collect())),
            ])
        }
        PatKind::Struct(qp, fields, _) => {
            let res = tcx.typeck(p.hir_id.owner.def_id).qpath_res(qp, p.hir_id);
            J::Obj(vec![
                ("st".into(), J::Str(res_s(tcx, res))),
                (
                    "fields".into(),
                    J::Arr(
                        fields
                            .iter()
                            .map(|f| J::Arr(vec![J::Str(f.ident.to_string()), pat_s(tcx, f.pat)]))
                            .collect(),
                    ),
                ),
            ])
        }
        PatKind::Tuple(subs, _) => J::Obj(vec![(
            "tuple".into(),
            J::Arr(subs.iter().map(|s| pat_s(tcx, s)).collect()),
        )]),
        PatKind::Or(subs) => J::Obj(vec![(
            "or".into(),
            J::Arr(subs.iter().map(|s| pat_s(tcx, s)).collect()),
        )]),
        PatKind::Ref(s, ..) => J::Obj(vec![("ref".into(), pat_s(tcx, s))]),
        PatKind::Box(s) => J::Obj(vec![("box".into(), pat_s(tcx, s))]),
        PatKind::Deref(s) => J::Obj(vec![("deref".into(), pat_s(tcx, s))]),
        _ => J::Obj(vec![("other".into(), J::Str("pat".into()))]),
    }
}

fn res_s<'tcx>(tcx: TyCtxt<'tcx>, res: rustc_hir::def::Res) -> String {
    match res {
        rustc_hir::def::Res::Def(_, did) => tcx.def_path_str(did),
        other => format!("{:?}", other),
    }
}

fn lit_j(l: &rustc_ast::LitKind) -> J {
    use rustc_ast::LitKind;
    match l {
        LitKind::Str(s, _) => J::Obj(vec![("str".into(), J::Str(s.to_string()))]),
        LitKind::ByteStr(b, _) => J::Obj(vec![(
            "bytes".into(),
            J::Str(String::from_utf8_lossy(b.as_byte_str()).to_string()),
        )]),
        LitKind::Int(i, _) => J::Obj(vec![("int".into(), J::Str(format!("{}", i)))]),
        LitKind::Bool(b) => J::Obj(vec![("bool".into(), J::Bool(*b))]),
        LitKind::Float(s, _) => J::Obj(vec![("float".into(), J::Str(s.to_string()))]),
        LitKind::Char(c) => J::Obj(vec![("char".into(), J::Str(c.to_string()))]),
        LitKind::Byte(b) => J::Obj(vec![("byte".into(), J::Num(*b as i128))]),
        _ => J::Obj(vec![("otherlit".into(), J::Null)]),
    }
}

fn expr_lit<'tcx>(e: &rustc_hir::Expr<'tcx>) -> J {
    use rustc_hir::ExprKind;
    match &e.kind {
        ExprKind::Lit(l) => lit_j(&l.node),
        ExprKind::AddrOf(_, _, inner) => expr_lit(inner),
        ExprKind::Tup(es) => J::Obj(vec![("tuple".into(), J::Arr(es.iter().map(|x| expr_lit(x)).collect()))]),
        ExprKind::Array(es) => J::Obj(vec![("array".into(), J::Arr(es.iter().map(|x| expr_lit(x)).collect()))]),
        ExprKind::Unary(rustc_hir::UnOp::Neg, inner) => J::Obj(vec![("neg".into(), expr_lit(inner))]),
        ExprKind::Path(rustc_hir::QPath::Resolved(_, p)) => {
            let s: Vec<String> = p.segments.iter().map(|s| s.ident.to_string()).collect();
            J::Obj(vec![("pathexpr".into(), J::Str(s.join("::")))])
        }
        ExprKind::MethodCall(seg, recv, _, _) => J::Obj(vec![
            ("mcall".into(), J::Str(seg.ident.to_string())),
            ("recv".into(), expr_lit(recv)),
        ]),
        ExprKind::Field(b, id) => J::Obj(vec![
            ("field".into(), J::Str(id.to_string())),
            ("base".into(), expr_lit(b)),
        ]),
        _ => J::Null,
    }
}

impl<'tcx> Visitor<'tcx> for HirV<'tcx> {
    fn visit_expr(&mut self, e: &'tcx rustc_hir::Expr<'tcx>) {
        use rustc_hir::ExprKind;
        match &e.kind {
            ExprKind::Match(scrut, arms, src) => {
                let tc = self.tcx.typeck(self.owner);
                let sty = tc.expr_ty(scrut);
                let arms_j: Vec<J> = arms
                    .iter()
                    .map(|a| {
                        J::Obj(vec![
                            ("pat".into(), pat_s(self.tcx, a.pat)),
                            ("guard".into(), J::Bool(a.guard.is_some())),
                            ("span".into(), span_j(self.tcx, a.span)),
                            ("body_span".into(), span_j(self.tcx, a.body.span)),
                        ])
                    })
                    .collect();
                self.matches.push(J::Obj(vec![
                    ("scrut_ty".into(), J::Str(ty_s(sty))),
                    ("scrut".into(), expr_lit(scrut)),
                    ("src".into(), J::Str(format!("{:?}", src))),
                    ("span".into(), span_j(self.tcx, e.span)),
                    ("arms".into(), J::Arr(arms_j)),
                ]));
            }
            ExprKind::If(cond, then, _els) => {
                // `if let PAT = EXPR { .. }` is a one-arm match (recorded like a match so that rules over
                // the reader's vocabulary do not depend on which of the two forms is written)
                let mut c: &rustc_hir::Expr<'tcx> = cond;
                while let ExprKind::DropTemps(inner) = &c.kind {
                    c = inner;
                }
                if let ExprKind::Let(le) = &c.kind {
                    let tc = self.tcx.typeck(self.owner);
                    let sty = tc.expr_ty(le.init);
                    let arm = J::Obj(vec![
                        ("pat".into(), pat_s(self.tcx, le.pat)),
                        ("guard".into(), J::Bool(false)),
                        ("span".into(), span_j(self.tcx, e.span)),
                        ("body_span".into(), span_j(self.tcx, then.span)),
                    ]);
                    self.matches.push(J::Obj(vec![
                        ("scrut_ty".into(), J::Str(ty_s(sty))),
                        ("scrut".into(), expr_lit(le.init)),
                        ("src".into(), J::Str("IfLet".into())),
                        ("span".into(), span_j(self.tcx, e.span)),
                        ("arms".into(), J::Arr(vec![arm])),
                    ]));
                }
            }
            ExprKind::MethodCall(seg, recv, args, _) => {
                let tc = self.tcx.typeck(self.owner);
                let callee = tc.type_dependent_def_id(e.hir_id).map(|d| self.tcx.def_path_str(d));
                let gargs = tc.node_args(e.hir_id);
                self.calls.push(J::Obj(vec![
                    ("method".into(), J::Str(seg.ident.to_string())),
                    ("callee".into(), match callee { Some(c) => J::Str(c), None => J::Null }),
                    ("gargs".into(), generic_args_j(gargs)),
                    ("recv_ty".into(), J::Str(ty_s(tc.expr_ty(recv)))),
                    ("recv".into(), expr_lit(recv)),
                    ("args".into(), J::Arr(args.iter().map(|a| expr_lit(a)).collect())),
                    ("arg_tys".into(), J::Arr(args.iter().map(|a| J::Str(ty_s(tc.expr_ty(a)))).collect())),
                    ("span".into(), span_j(self.tcx, e.span)),
                ]));
            }
            ExprKind::Call(f, args) => {
                let tc = self.tcx.typeck(self.owner);
                let callee = match &f.kind {
                    ExprKind::Path(qp) => Some(res_s(self.tcx, tc.qpath_res(qp, f.hir_id))),
                    _ => None,
                };
                self.calls.push(J::Obj(vec![
                    ("method".into(), J::Null),
                    ("callee".into(), match callee { Some(c) => J::Str(c), None => J::Null }),
                    ("gargs".into(), generic_args_j(tc.node_args(f.hir_id))),
                    ("args".into(), J::Arr(args.iter().map(|a| expr_lit(a)).collect())),
                    ("arg_tys".into(), J::Arr(args.iter().map(|a| J::Str(ty_s(tc.expr_ty(a)))).collect())),
                    ("span".into(), span_j(self.tcx, e.span)),
                ]));
            }
            ExprKind::Block(blk, _) => {
                if let rustc_hir::BlockCheckMode::UnsafeBlock(src) = blk.rules {
                    self.unsafe_blocks.push(J::Obj(vec![
                        ("src".into(), J::Str(format!("{:?}", src))),
                        ("span".into(), span_j(self.tcx, e.span)),
                    ]));
                }
            }
            ExprKind::Loop(_, _, src, _) => {
                self.loops.push(J::Obj(vec![
                    ("src".into(), J::Str(format!("{:?}", src))),
                    ("span".into(), span_j(self.tcx, e.span)),
                ]));
            }
            _ => {}
        }
        intravisit::walk_expr(self, e);
    }

    fn visit_block(&mut self, b: &'tcx rustc_hir::Block<'tcx>) {
        // `let PAT = EXPR else { .. };` is a one-arm match whose body is the rest of the block
        for st in b.stmts {
            if let rustc_hir::StmtKind::Let(l) = &st.kind {
                if let (Some(init), Some(_els)) = (l.init, l.els) {
                    let tc = self.tcx.typeck(self.owner);
                    let sty = tc.expr_ty(init);
                    let rest = st.span.shrink_to_hi().to(b.span.shrink_to_hi());
                    let arm = J::Obj(vec![
                        ("pat".into(), pat_s(self.tcx, l.pat)),
                        ("guard".into(), J::Bool(false)),
                        ("span".into(), span_j(self.tcx, st.span)),
                        ("body_span".into(), span_j(self.tcx, rest)),
                    ]);
                    self.matches.push(J::Obj(vec![
                        ("scrut_ty".into(), J::Str(ty_s(sty))),
                        ("scrut".into(), expr_lit(init)),
                        ("src".into(), J::Str("LetElse".into())),
                        ("span".into(), span_j(self.tcx, st.span)),
                        ("arms".into(), J::Arr(vec![arm])),
                    ]));
                }
            }
        }
        intravisit::walk_block(self, b);
    }
}

fn dump_hir<'tcx>(tcx: TyCtxt<'tcx>, did: LocalDefId) -> J {
    // closures are visited as part of their parent body; only typeck roots get HIR facts
    if tcx.typeck_root_def_id(did.to_def_id()) != did.to_def_id() {
        return J::Null;
    }
    let body = tcx.hir_body_owned_by(did);
    let mut v = HirV { tcx, owner: did, matches: vec![], calls: vec![], loops: vec![], unsafe_blocks: vec![] };
    v.visit_expr(body.value);
    J::Obj(vec![
        ("matches".into(), J::Arr(v.matches)),
        ("calls".into(), J::Arr(v.calls)),
        ("loops".into(), J::Arr(v.loops)),
        ("unsafe_blocks".into(), J::Arr(v.unsafe_blocks)),
    ])
}

// ---------------------------------------------------------------------------------------

fn dump_crate<'tcx>(tcx: TyCtxt<'tcx>) -> J {
    let mut items = Vec::new();
    let ev = tcx.effective_visibilities(());
    for did in tcx.hir_body_owners() {
        let kind = tcx.def_kind(did);
        let ks = match kind {
            DefKind::Fn => "fn",
            DefKind::AssocFn => "assoc_fn",
            DefKind::Closure => "closure",
            DefKind::Const { .. } | DefKind::AssocConst { .. } => "const",
            DefKind::Static { .. } => "static",
            DefKind::AnonConst | DefKind::InlineConst => "anon_const",
            _ => "other",
        };
        let mut o: Vec<(String, J)> = vec![
            ("path".into(), J::Str(tcx.def_path_str(did))),
            ("kind".into(), J::Str(ks.into())),
            ("span".into(), span_j(tcx, tcx.def_span(did))),
        ];
        let root = tcx.typeck_root_def_id(did.to_def_id());
        if root != did.to_def_id() {
            o.push(("root".into(), J::Str(tcx.def_path_str(root))));
            o.push(("parent".into(), J::Str(tcx.def_path_str(tcx.local_parent(did)))));
        }
        match kind {
            DefKind::Fn | DefKind::AssocFn => {
                o.push(("reachable".into(), J::Bool(ev.is_reachable(did))));
                o.push(("pub".into(), J::Bool(tcx.visibility(did).is_public())));
                let sig = tcx.fn_sig(did).instantiate_identity().skip_norm_wip().skip_binder();
                o.push((
                    "inputs".into(),
                    J::Arr(sig.inputs().iter().map(|t| J::Str(ty_s(*t))).collect()),
                ));
                o.push(("output".into(), J::Str(ty_s(sig.output()))));
                o.push(("unsafe".into(), J::Bool(!sig.safety().is_safe())));
                if kind == DefKind::AssocFn {
                    if let Some(imp) = tcx.impl_of_assoc(did.to_def_id()) {
                        let st = tcx.type_of(imp).instantiate_identity().skip_norm_wip();
                        o.push(("impl_self".into(), J::Str(ty_s(st))));
                        o.push(("impl_trait".into(), match tcx.impl_opt_trait_ref(imp) {
                            Some(tr) => J::Str(tcx.def_path_str(tr.skip_binder().def_id)),
                            None => J::Null,
                        }));
                    }
                }
                let names: Vec<J> = tcx
                    .fn_arg_idents(did)
                    .iter()
                    .map(|i| match i { Some(i) => J::Str(i.to_string()), None => J::Null })
                    .collect();
                o.push(("param_names".into(), J::Arr(names)));
                // automatically-derived?
                o.push(("derived".into(), J::Bool(tcx.def_span(did).from_expansion())));
            }
            DefKind::Closure => {
                let caps: Vec<J> = tcx
                    .closure_captures(did)
                    .iter()
                    .map(|c| {
                        J::Obj(vec![
                            ("name".into(), J::Str(c.to_string(tcx))),
                            ("ty".into(), J::Str(ty_s(c.place.ty()))),
                            ("kind".into(), J::Str(format!("{:?}", c.info.capture_kind))),
                        ])
                    })
                    .collect();
                o.push(("captures".into(), J::Arr(caps)));
            }
            _ => {}
        }
        match kind {
            DefKind::Fn | DefKind::AssocFn | DefKind::Closure => {
                o.push(("mir".into(), dump_body(tcx, did)));
                o.push(("hir".into(), dump_hir(tcx, did)));
            }
            DefKind::Const { .. } | DefKind::Static { .. } => {
                // the initialiser when it is a literal: a named constant used where a literal stood
                // (`const KEY: &str = "weight"`) is resolved to that literal by the rules
                if let Some(body) = tcx.hir_maybe_body_owned_by(did) {
                    o.push(("init".into(), expr_lit(body.value)));
                }
            }
            _ => {}
        }
        items.push(J::Obj(o));
    }
    // ADTs, statics
    let mut adts = Vec::new();
    let mut statics = Vec::new();
    let mut unsafe_items = Vec::new();
    for id in tcx.hir_free_items() {
        let did = id.owner_id.def_id;
        match tcx.def_kind(did) {
            DefKind::Struct | DefKind::Enum | DefKind::Union => {
                let def = tcx.adt_def(did.to_def_id());
                let env = ty::TypingEnv::post_analysis(tcx, did.to_def_id());
                let mut variants = Vec::new();
                for v in def.variants().iter() {
                    let mut fields = Vec::new();
                    for f in v.fields.iter() {
                        let t = tcx.type_of(f.did).instantiate_identity().skip_norm_wip();
                        fields.push(J::Obj(vec![
                            ("name".into(), J::Str(f.name.to_string())),
                            ("ty".into(), J::Str(ty_s(t))),
                            ("pub".into(), J::Bool(f.vis.is_public())),
                            ("vis".into(), J::Str(format!("{:?}", f.vis))),
                            ("freeze".into(), J::Bool(t.is_freeze(tcx, env))),
                            ("adts".into(), J::Arr(ty_adts(tcx, t).into_iter().map(J::Str).collect())),
                        ]));
                    }
                    variants.push(J::Obj(vec![
                        ("name".into(), J::Str(v.name.to_string())),
                        ("fields".into(), J::Arr(fields)),
                    ]));
                }
                adts.push(J::Obj(vec![
                    ("path".into(), J::Str(tcx.def_path_str(did))),
                    ("kind".into(), J::Str(format!("{:?}", tcx.def_kind(did)))),
                    ("reachable".into(), J::Bool(ev.is_reachable(did))),
                    ("variants".into(), J::Arr(variants)),
                    ("span".into(), span_j(tcx, tcx.def_span(did))),
                ]));
            }
            DefKind::Static { mutability, nested, .. } => {
                let t = tcx.type_of(did).instantiate_identity().skip_norm_wip();
                let env = ty::TypingEnv::post_analysis(tcx, did.to_def_id());
                statics.push(J::Obj(vec![
                    ("path".into(), J::Str(tcx.def_path_str(did))),
                    ("ty".into(), J::Str(ty_s(t))),
                    ("mut".into(), J::Bool(mutability.is_mut())),
                    ("nested".into(), J::Bool(nested)),
                    ("freeze".into(), J::Bool(t.is_freeze(tcx, env))),
                    ("span".into(), span_j(tcx, tcx.def_span(did))),
                ]));
            }
            DefKind::Impl { .. } => {
                let item = tcx.hir_item(id);
                if let rustc_hir::ItemKind::Impl(imp) = &item.kind {
                    if let Some(tr) = &imp.of_trait {
                        if !tr.safety.is_safe() && !item.span.from_expansion() {
                            unsafe_items.push(J::Obj(vec![
                                ("what".into(), J::Str("unsafe impl".into())),
                                ("span".into(), span_j(tcx, item.span)),
                            ]));
                        }
                    }
                }
            }
            _ => {}
        }
    }
    J::Obj(vec![
        ("crate".into(), J::Str(tcx.crate_name(LOCAL_CRATE).to_string())),
        ("nonce".into(), J::Str(std::env::var("VERIF_NONCE").unwrap_or_default())),
        (
            "features".into(),
            J::Arr(
                std::env::args().filter(|a| a.starts_with("feature=")).map(J::Str).collect(),
            ),
        ),
        ("items".into(), J::Arr(items)),
        ("adts".into(), J::Arr(adts)),
        ("statics".into(), J::Arr(statics)),
        ("unsafe_items".into(), J::Arr(unsafe_items)),
    ])
}

/// def-paths of all ADTs mentioned anywhere inside a type (through generic arguments)
fn ty_adts<'tcx>(tcx: TyCtxt<'tcx>, t: Ty<'tcx>) -> Vec<String> {
    let mut out = Vec::new();
    for ga in t.walk() {
        if let Some(t) = ga.as_type() {
            match t.kind() {
                ty::Adt(def, _) => {
                    let s = tcx.def_path_str(def.did());
                    if !out.contains(&s) {
                        out.push(s);
                    }
                }
                ty::RawPtr(..) => out.push("<rawptr>".into()),
                ty::Dynamic(..) => out.push("<dyn>".into()),
                ty::FnPtr(..) => out.push("<fnptr>".into()),
                _ => {}
            }
        }
    }
    out
}
