#!/usr/bin/env python3
"""python3 sa/check.py <ID> [--tier quick|thorough]   |   python3 sa/check.py --replay <file>

Decides one property for /repo's current working tree by static analysis of the facts
extracted by the rustc_private driver.  Exit 0: all rule instances hold (known findings are
printed as KNOWN-FINDING lines); exit 1: a `VIOLATION property=<id> replay=<path>` line was
printed; exit 2: the machinery itself failed (driver missing, /repo does not compile).
"""
import importlib
import json
import os
import sys
import time

sys.path.insert(0, os.path.dirname(os.path.abspath(__file__)))
import facts as facts_mod
import mir
from core import Ctx, finish


def main(argv):
    # reproducible set/dict iteration: re-exec once with a fixed hash seed
    if os.environ.get("PYTHONHASHSEED") != "0":
        env = dict(os.environ)
        env["PYTHONHASHSEED"] = "0"
        os.execve(sys.executable, [sys.executable, os.path.abspath(__file__)] + argv, env)
    replay = None
    if len(argv) >= 2 and argv[0] == "--replay":
        with open(argv[1]) as f:
            replay = json.load(f)
        print("replaying property %s rule %s instance %s" % (replay["property"], replay["rule"], replay["key"]))
        argv = [replay["property"]]
    if not argv:
        print(__doc__)
        return 2
    prop = argv[0]
    tier = os.environ.get("VERIF_TIER", "quick")
    if "--tier" in argv:
        tier = argv[argv.index("--tier") + 1]
    seed = int(os.environ.get("VERIF_SEED", "0") or 0)
    t0 = time.time()
    try:
        fs = facts_mod.load()
    except facts_mod.FactsError as e:
        print("FACTS ERROR: %s" % e)
        return 2
    import inline

    progs = {c: mir.Program(inline.normalise(d)) for c, d in fs.items()}
    mod = importlib.import_module("props." + prop.lower())
    ctx = Ctx(prop, progs, tier)
    # what the normalisation passes did to this tree before the rules ran (sa/inline.py, sa/lower.py)
    ctx.counters["normalisation"] = {
        c: {
            "bodies": len(progs[c].bodies),
            "helpers_inlined": [list(x) for x in (progs[c].facts.get("inlined") or [])][:40],
            "adaptor_calls_lowered": len(progs[c].facts.get("lowered") or []),
        }
        for c in sorted(progs)
    }
    for cfg in sorted(progs):
        ctx.config = cfg
        ctx.prog = progs[cfg]
        try:
            mod.run(ctx)
        except mir.AnchorError as e:
            ctx.anchor_lost("ANCHOR", str(e))
    ctx.config = None
    if hasattr(mod, "run_once"):
        mod.run_once(ctx)
    if tier == "thorough" and not os.environ.get("VERIF_IN_FIXTURE"):
        import thorough

        thorough.run_fixtures(ctx, prop)
    if replay is not None:
        # re-evaluate that single rule instance on the current tree and show the construct
        hits = [f for f in ctx.findings if f.rule == replay["rule"] and f.key == replay["key"]]
        if not hits:
            print("the instance no longer exists on the current tree (rule %s, key %s)" % (replay["rule"], replay["key"]))
            return 0
        rc = 0
        for f in hits:
            print("%s  %s  at %s\n   %s" % (f.status.upper(), f.full_key(), f.site or "?", f.what))
            if f.status == "violation":
                rc = 1
        return rc
    cmd = "python3 sa/check.py %s --tier %s" % (prop, tier)
    return finish(ctx, mod.LEVEL, t0, mod.EXPLANATION, mod.TRUSTED, cmd, seed=seed)


if __name__ == "__main__":
    sys.exit(main(sys.argv[1:]))
