"""TYPE + LINT engines of the thorough tier: compile-fail doctest witnesses, rustc's own
`unsafe_code` lint as a cross-check, clippy restriction lints as an inventory cross-reference.
Nothing here runs graphrs code: doctests are `compile_fail` or `no_run`."""
import os
import re
import shutil
import subprocess

from facts import VERIF, REPO, WORK, nightly_sysroot

WITNESS_OF = {
    # property -> witness name prefixes it relies on
    "C07": ["W1", "W2", "W2b"],
    "C02": ["W3", "W6"],
    "C15": ["W2", "W2b", "W5"],
}


def run_doctests():
    """returns {test name: 'ok'|'FAILED'} and the raw tail"""
    wdir = os.path.join(VERIF, "witness")
    try:
        shutil.copyfile(os.path.join(REPO, "Cargo.lock"), os.path.join(wdir, "Cargo.lock"))
    except OSError:
        pass
    env = dict(os.environ)
    env["CARGO_TARGET_DIR"] = os.path.join(WORK, "target-witness")
    env["CARGO_NET_OFFLINE"] = "true"
    r = subprocess.run(["cargo", "+nightly", "test", "--doc", "--offline"], cwd=wdir, env=env, capture_output=True, text=True)
    out = r.stdout + r.stderr
    res = {}
    for m in re.finditer(r"^test src/lib\.rs - (\S+) \(line \d+\)( - compile fail| - compile)? \.\.\. (\w+)", out, re.M):
        res.setdefault(m.group(1), []).append((m.group(2) or "").strip(" -"), ) if False else None
        res.setdefault(m.group(1), []).append(((m.group(2) or "").strip(" -"), m.group(3)))
    return res, out[-3000:], r.returncode


_CACHE = {}


def run_witnesses(ctx, rule, props):
    if REPO != "/repo":
        ctx.note("witness doctests are tied to /repo (path dependency); skipped for a scratch tree")
        return
    if "res" not in _CACHE:
        _CACHE["res"] = run_doctests()
    res, tail, rc = _CACHE["res"]
    ctx.rule(rule, "compile-fail witnesses (each paired with a compiling twin) under cargo +nightly test --doc")
    prefixes = set()
    for p in props:
        prefixes |= set(WITNESS_OF.get(p.upper(), []))
    n = 0
    for name, runs in sorted(res.items()):
        if not any(name == pre or name.startswith(pre + "Private") or re.match(pre + r"[A-Z]", name) for pre in prefixes):
            continue
        for (kind, status) in runs:
            n += 1
            what = "%s (%s)" % (name, kind or "compile")
            ctx.require(status == "ok", rule, "witness|%s|%s" % (name, kind), "witness %s holds" % what, "type-level witness %s no longer holds: the code that must not compile compiles, or its twin broke" % what)
    if n == 0:
        ctx.violation(rule, "witness|none", "no witness doctest result found (cargo exit %d): %s" % (rc, tail[-400:]))
    ctx.counters["witness_doctests"] = n


def unsafe_lint_crosscheck(ctx, rule):
    """rustc's own lint as a second opinion on P1"""
    env = dict(os.environ)
    env.update({"RUSTFLAGS": "-F unsafe_code -Awarnings", "CARGO_TARGET_DIR": os.path.join(WORK, "target-lint"), "CARGO_NET_OFFLINE": "true"})
    ok = True
    for feats in ([], ["--features", "adjacency_matrix"]):
        r = subprocess.run(["cargo", "+nightly", "check", "--offline", "--lib"] + feats, cwd=REPO, env=env, capture_output=True, text=True)
        if r.returncode != 0:
            ok = False
            ctx.violation(rule, "rustc-unsafe_code|" + ("+".join(feats) or "default"), "rustc -F unsafe_code rejects the crate: %s" % r.stderr[-600:])
    if ok:
        ctx.ok(rule, "rustc-unsafe_code", "the crate compiles with -F unsafe_code in both feature configurations (rustc's own lint agrees with the HIR scan)")


def clippy_counts():
    """counts of clippy restriction lints in the lib target (cross-reference only)"""
    env = dict(os.environ)
    env.update({"CARGO_TARGET_DIR": os.path.join(WORK, "target-clippy"), "CARGO_NET_OFFLINE": "true"})
    lints = ["unwrap_used", "expect_used", "indexing_slicing", "arithmetic_side_effects", "panic", "unreachable"]
    cmd = ["cargo", "+nightly", "clippy", "--offline", "--lib", "--message-format=short", "--"] + sum((["-W", "clippy::" + l] for l in lints), [])
    r = subprocess.run(cmd, cwd=REPO, env=env, capture_output=True, text=True)
    out = r.stderr + r.stdout
    counts = {}
    for l in lints:
        counts[l] = 0
    seen = set()
    for line in out.splitlines():
        m = re.match(r"^(src/\S+?:\d+:\d+): warning: (.*)$", line)
        if not m or m.group(1) in seen and False:
            continue
        msg = m.group(2)
        key = (m.group(1), msg)
        if key in seen:
            continue
        seen.add(key)
        if "used `unwrap()`" in msg:
            counts["unwrap_used"] += 1
        elif "used `expect()`" in msg:
            counts["expect_used"] += 1
        elif "indexing may panic" in msg or "slicing may panic" in msg:
            counts["indexing_slicing"] += 1
        elif "arithmetic operation that can potentially result in unexpected side-effects" in msg:
            counts["arithmetic_side_effects"] += 1
        elif "`panic` should not be present" in msg:
            counts["panic"] += 1
    return counts, r.returncode
