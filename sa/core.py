"""Check plumbing: rule results, known findings, replay files, evidence."""
import hashlib
import json
import os
import sys
import time

from mir import loc_str, AnchorError

VERIF = os.path.dirname(os.path.dirname(os.path.abspath(__file__)))
# evidence/ and replay/ live under /verif unless a mutant run redirects them
OUT = os.environ.get("VERIF_OUT", VERIF)

ASSUME_AT = (
    "A-T: trait methods of the caller's node-name/attribute types (Eq, Ord, Hash, Clone, Display) "
    "are pure, total and consistent"
)
ASSUME_RUSTC = "rustc's front end, type checker, borrow checker and MIR construction are correct; the driver reads the MIR the compiler built for /repo's real build flags"
ASSUME_PATHS = "every CFG path is treated as feasible; dependence is may-dependence (over-approximated)"


class Finding:
    def __init__(self, rule, key, status, what, site=None, detail=None, config=None):
        self.rule = rule
        self.key = key  # stable, no line numbers
        self.status = status  # ok | violation | undecided | info
        self.what = what
        self.site = site  # "file:line" (diagnostic only)
        self.detail = detail
        self.config = config

    def full_key(self):
        return "%s|%s" % (self.rule, self.key)

    def to_json(self):
        d = {"rule": self.rule, "key": self.key, "status": self.status, "what": self.what}
        if self.site:
            d["site"] = self.site
        if self.detail:
            d["detail"] = self.detail
        if self.config:
            d["config"] = self.config
        return d


class Ctx:
    def __init__(self, prop, progs, tier="quick"):
        self.prop = prop
        self.progs = progs  # {config: Program}
        self.prog = progs.get("default") or next(iter(progs.values()))
        self.tier = tier
        self.findings = []
        self._seen = set()
        self.counters = {}
        self.rules = {}  # rule id -> description
        self.assumptions = []
        self.notes = []
        self.config = None

    # ---- reporting
    def rule(self, rid, text):
        self.rules[rid] = text

    def _add(self, f):
        k = (f.full_key(), f.status)
        if k in self._seen:
            return
        # the same instance evaluated on both feature configurations counts once
        self._seen.add(k)
        self.findings.append(f)

    def ok(self, rule, key, what, site=None, detail=None):
        self._add(Finding(rule, key, "ok", what, site, detail, self.config))

    def violation(self, rule, key, what, site=None, detail=None):
        self._add(Finding(rule, key, "violation", what, site, detail, self.config))

    def undecided(self, rule, key, what, site=None, detail=None):
        self._add(Finding(rule, key, "undecided", what, site, detail, self.config))

    def info(self, rule, key, what, site=None, detail=None):
        self._add(Finding(rule, key, "info", what, site, detail, self.config))

    def require(self, cond, rule, key, what_ok, what_bad=None, site=None, detail=None):
        if cond:
            self.ok(rule, key, what_ok, site, detail)
        else:
            self.violation(rule, key, what_bad or ("NOT: " + what_ok), site, detail)
        return bool(cond)

    def anchor_lost(self, rule, what):
        """fail closed: something the rule needs to find is not there"""
        self.violation(rule, "anchor:" + what, "anchor lost (fail closed): " + what)

    def floor(self, rule, name, count, minimum):
        self.counters[name] = count
        if count < minimum:
            self.violation(
                rule,
                "floor:" + name,
                "instance count for `%s` is %d, below the confirmed floor %d (fail closed)" % (name, count, minimum),
            )
            return False
        return True

    def count(self, name, n=1):
        self.counters[name] = self.counters.get(name, 0) + n

    def assume(self, text):
        if text not in self.assumptions:
            self.assumptions.append(text)

    def note(self, text):
        self.notes.append(text)


def load_known():
    p = os.path.join(VERIF, "known_findings.json")
    if not os.path.exists(p):
        return {"known": [], "fixed": []}
    with open(p) as f:
        return json.load(f)


def site_of(body, term_or_stmt=None):
    sp = term_or_stmt.span if term_or_stmt is not None else body.span
    return loc_str(sp)


def finish(ctx, level, t0, explanation, trusted_base, checker_cmd, seed=0, extra_cov=None):
    """print the report, write evidence + replay files, return the exit code"""
    prop = ctx.prop
    known = load_known()
    known_keys = {(k["property"], k["key"]): k for k in known.get("known", [])}
    viol = [f for f in ctx.findings if f.status == "violation"]
    oks = [f for f in ctx.findings if f.status == "ok"]
    und = [f for f in ctx.findings if f.status == "undecided"]
    new_viol = []
    known_hit = []
    for f in viol:
        k = known_keys.get((prop, f.full_key()))
        if k is not None:
            known_hit.append((f, k))
        else:
            new_viol.append(f)
    for f, k in known_hit:
        print("KNOWN-FINDING: property=%s %s [%s] %s" % (prop, k.get("what", f.what), f.full_key(), f.site or ""))
    rdir = os.path.join(OUT, "replay", prop)
    for f in new_viol:
        os.makedirs(rdir, exist_ok=True)
        h = hashlib.sha256(f.full_key().encode()).hexdigest()[:12]
        rp = os.path.join(rdir, "%s-%s.json" % (f.rule.replace("/", "_"), h))
        with open(rp, "w") as fh:
            json.dump({"property": prop, **f.to_json()}, fh, indent=1)
        print("  rule %s violated at %s: %s" % (f.rule, f.site or "?", f.what))
        if f.detail:
            print("    " + str(f.detail)[:600])
        print("VIOLATION property=%s replay=%s" % (prop, rp))
    per_rule = {}
    for f in ctx.findings:
        r = per_rule.setdefault(f.rule, {"ok": 0, "violation": 0, "undecided": 0, "info": 0})
        r[f.status] += 1
    obligations = len(oks) + len(viol)
    samples = []
    seen_rules = set()
    for f in ctx.findings:
        if f.status in ("ok", "violation") and f.rule not in seen_rules:
            seen_rules.add(f.rule)
            samples.append(f.to_json())
    for f in ctx.findings:
        if len(samples) >= 40:
            break
        if f.status in ("violation", "undecided") and f.to_json() not in samples:
            samples.append(f.to_json())
    cov = {
        "obligations": obligations,
        "discharged": len(oks),
        "known_findings": len(known_hit),
        "undecided": len(und),
        "evaluations": len(ctx.findings),
        "distinct_nontrivial": len({f.full_key() for f in ctx.findings if f.status in ("ok", "violation")}),
        "rule": "one obligation per rule instance that matched a real construct in /repo's MIR/HIR; "
        "distinct = distinct (rule, function, construct) keys",
        "samples": samples,
        "explanation": explanation,
        "checker_cmd": checker_cmd,
        "trusted_base": trusted_base,
        "rules": ctx.rules,
        "per_rule": per_rule,
        "counters": ctx.counters,
        "configs": sorted(ctx.progs.keys()),
        "bodies_analysed": {c: len(p.bodies) for c, p in ctx.progs.items()},
        "notes": ctx.notes,
        "exhaustive": False,
    }
    if extra_cov:
        cov.update(extra_cov)
    ev = {
        "property_id": prop,
        "tier": ctx.tier,
        "seed": seed,
        "level": level,
        "coverage": cov,
        "assumptions": ctx.assumptions,
        "wall_s": round(time.time() - t0, 2),
        "violations": len(new_viol),
    }
    os.makedirs(os.path.join(OUT, "evidence"), exist_ok=True)
    with open(os.path.join(OUT, "evidence", prop + ".json"), "w") as fh:
        json.dump(ev, fh, indent=1)
    print(
        "[%s] %s tier: %d obligations, %d discharged, %d known findings, %d new violations, %d undecided (%.1fs)"
        % (prop, ctx.tier, obligations, len(oks), len(known_hit), len(new_viol), len(und), time.time() - t0)
    )
    for r in sorted(per_rule):
        c = per_rule[r]
        print("   %-10s ok=%-3d viol=%-3d undecided=%-3d info=%-3d  %s" % (r, c["ok"], c["violation"], c["undecided"], c["info"], ctx.rules.get(r, "")[:90]))
    return 1 if new_viol else 0
