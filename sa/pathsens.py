"""Path-sensitive dataflow over a finite predicate abstraction (no solver, no execution).

The abstract state at a program point is (valuation of a finite set of *atoms*, symbolic bindings of
boolean/discriminant temporaries to atoms, set of *markers* passed so far).  Atoms are the pure,
stable predicates the code itself branches on: boolean parameters and spec fields, enum-typed spec
fields (valued by variant), `contains_key`/`eq`/`is_ok`-style calls and comparisons, identified by
their normalised description.  A branch is followed only if it is consistent with the valuation
established by earlier branches on the same atom, which removes the infeasible paths a plain CFG
walk would report.  The result is, per function exit, the set of (partial valuation, markers)
pairs -- a decision table that rules compare with the table the property dictates, for *every*
completion of each partial valuation.
"""
import itertools

from flow import fmt_desc
from panic import norm


class Explorer:
    def __init__(self, body, fl, prog, markers=None, kills=None, keep=None, max_states=200000, pure_calls=None, stable=None):
        self.b = body
        self.fl = fl
        self.prog = prog
        self.markers = markers or {}  # bb -> set of marker names
        self.kills = kills or (lambda bb: [])
        self.keep = keep or (lambda key: True)
        self.max_states = max_states
        self.enum_variants = {}
        for p, a in prog.adts.items():
            if a["kind"] == "Enum":
                self.enum_variants[p] = [v["name"] for v in a["variants"]]
        self.pure = pure_calls or ("contains_key", "has_node", "eq", "ne", "is_ok", "is_err", "is_some", "is_none", "is_nan", "is_empty", "gt", "lt", "ge", "le")
        self.truncated = False
        # `stable(key)`: facts that survive a loop iteration (tests of parameters); all other facts are forgotten when a
        # loop header is entered, because the values they speak about change from one iteration to the next
        self.stable = stable
        self.headers = set()
        if stable is not None:
            for blk in body.normal_blocks():
                for s_ in body.succ(blk.i):
                    if body.dominates(s_, blk.i):
                        self.headers.add(s_)
        self.exit_vals = []
        self._field_enum = {}

    # ---- atoms
    def enum_of_ty(self, ty):
        t = ty.lstrip("&").strip()
        for p in self.enum_variants:
            if t == p or t.endswith("::" + p) or p.endswith(t) and t:
                if t == p:
                    return p
        return t if t in self.enum_variants else None

    def atom_of_rvalue(self, s):
        """symbolic value of an assignment's rvalue: ('atom', key, neg) | ('enum', key) | ('const', v) | None"""
        fl = self.fl
        rv = s.rv
        if rv.k == "use":
            o = rv.ops[0]
            if o.is_const():
                v = o.const_int()
                if v is not None:
                    return ("const", v)
                return None
            return ("copy", o.place)
        if rv.k == "unop" and rv.j["op"] == "Not":
            o = rv.ops[0]
            if o.place is not None:
                return ("not", o.place)
            return None
        if rv.k == "binop" and rv.j["op"] in ("Lt", "Le", "Gt", "Ge", "Eq", "Ne"):
            # one key per comparison however it is written: operands in a fixed order (`a > b` is `b < a`),
            # `!=` as the negation of `==`, `<=` as the negation of `>`
            op = rv.j["op"]
            x, y = norm(fl.describe(rv.ops[0], depth=8)), norm(fl.describe(rv.ops[1], depth=8))
            neg = False
            if op == "Ne":
                op, neg = "Eq", True
            elif op == "Le":
                op, neg = "Gt", True
            elif op == "Ge":
                op, neg = "Lt", True
            if op == "Eq":
                # `flag == false` is `!flag`
                for (a_, c_) in ((x, y), (y, x)):
                    if isinstance(c_, tuple) and c_[0] == "const" and c_[1].split()[-1] in ("true", "false") and isinstance(a_, tuple) and a_[0] in ("place", "call"):
                        return ("atom", fmt_desc(a_), neg != (c_[1].split()[-1] == "false"))
            if fmt_desc(x) > fmt_desc(y):
                x, y = y, x
                op = {"Lt": "Gt", "Gt": "Lt"}.get(op, op)
            if op == "Lt":
                # canonical form uses Gt with swapped operands
                x, y, op = y, x, "Gt"
            d = ("binop", op, x, y)
            return ("atom", fmt_desc(d), neg)
        if rv.k == "discr":
            pty = str(rv.place.ty).lstrip("&").replace("mut ", "").strip()
            if pty.startswith("std::option::Option<") or pty.startswith("std::result::Result<"):
                # `match o { Some(..) / None }` tests what `o.is_some()` tests: one key for both spellings
                from flow import _LocalOperand
                from mir import Operand

                d = norm(fl.describe(Operand({"k": "copy", "place": {"l": rv.place.local, "p": rv.place.proj, "ty": rv.place.ty}}), depth=8))
                nm = "is_some" if pty.startswith("std::option::Option<") else "is_ok"
                return ("optdiscr", "%s(%s)" % (nm, fmt_desc(d)), nm == "is_some")
            fp = fl.field_path(rv.place)
            ep = self._enum_path(rv.place.ty)
            if ep:
                self._field_enum[fp] = ep
            return ("enum", fp, rv.place.ty)
        if rv.k in ("copyderef",):
            return ("copy", rv.place)
        return None

    def place_atom(self, place):
        """a boolean place read as an atom (parameter or field)"""
        if place.ty != "bool":
            return None
        if not place.proj and self.b.local_name(place.local) is None:
            return None
        if place.proj and self.b.local_name(place.local) is None:
            # a component of a tuple built just before (`match (a, b) { .. }`): the component's own description
            from mir import Operand

            d = norm(self.fl.describe(Operand({"k": "copy", "place": {"l": place.local, "p": place.proj, "ty": place.ty}}), depth=8))
            if isinstance(d, tuple) and d[0] in ("place", "call"):
                return ("atom", fmt_desc(d), False)
        return ("atom", self.fl.field_path(place), False)

    # ---- exploration
    def run(self, entry_facts=()):
        b = self.b
        start = (0, frozenset(entry_facts), frozenset(), frozenset())
        seen = {start}
        work = [start]
        exits = []
        at_block = {}
        n = 0
        while work:
            n += 1
            if n > self.max_states:
                self.truncated = True
                break
            bb, facts, binds, marks = work.pop()
            if bb in self.headers:
                facts = frozenset((k, v) for (k, v) in facts if self.stable(k))
            at_block.setdefault(bb, set()).add((facts, marks))
            fd = dict(facts)
            bd = dict(binds)
            blk = b.blocks[bb]
            marks2 = marks | frozenset(self.markers.get(bb, ()))
            for s in blk.stmts:
                if s.k != "assign":
                    continue
                if s.lhs.proj:
                    continue
                l = s.lhs.local
                val = self.atom_of_rvalue(s)
                if val is None:
                    bd.pop(l, None)
                    continue
                if val[0] == "copy":
                    pl = val[1]
                    if not pl.proj and pl.local in bd:
                        bd[l] = bd[pl.local]
                    else:
                        a = self.place_atom(pl)
                        if a is not None:
                            bd[l] = a
                        else:
                            bd.pop(l, None)
                elif val[0] == "not":
                    pl = val[1]
                    src = bd.get(pl.local) if not pl.proj else self.place_atom(pl)
                    if src is None and not pl.proj:
                        src = self.place_atom(pl)
                    if src is not None and src[0] == "atom":
                        bd[l] = ("atom", src[1], not src[2])
                    elif src is not None and src[0] == "const":
                        bd[l] = ("const", 0 if src[1] else 1)
                    else:
                        bd.pop(l, None)
                else:
                    bd[l] = val
            t = blk.term
            ks = list(self.kills(bb))
            if ks:
                fd = {k: v for k, v in fd.items() if not any(x in str(k) for x in ks)}
            if t.k == "call" and not t.dest.proj:
                l = t.dest.local
                nm = t.callee.short.split("::")[-1] if t.callee else ""
                if t.callee and nm in self.pure and t.dest.ty == "bool":
                    d = norm(self.fl.describe_call(t)) if hasattr(self.fl, "describe_call") else ("call", t.callee.short, tuple(norm(self.fl.describe(a, depth=8)) for a in t.args))
                    ek = self._enum_eq(d)
                    if ek is not None:
                        bd[l] = ("enumeq", ek[0], ek[1], nm == "ne")
                    else:
                        # is_err(x) is !is_ok(x), is_none(x) is !is_some(x), ne is !eq: one key for both spellings
                        neg = False
                        flip = {"is_err": "is_ok", "is_none": "is_some", "ne": "eq"}
                        if d[0] == "call" and nm in flip:
                            d = ("call", d[1][: -len(nm)] + flip[nm], d[2])
                            neg = True
                        bd[l] = ("atom", fmt_desc(d), neg)
                else:
                    bd.pop(l, None)
            succs = b.succ(bb)
            if t.k == "switch":
                x = t.discr.place
                val = None
                if x is not None:
                    if not x.proj and x.local in bd:
                        val = bd[x.local]
                    else:
                        val = self.place_atom(x)
                tg = dict(t.targets)

                def target_of(v):
                    return tg.get(v, t.otherwise)

                for s_ in succs:
                    nf = dict(fd)
                    feasible = True
                    if val is not None:
                        if val[0] == "const":
                            feasible = target_of(val[1]) == s_
                        elif val[0] == "atom":
                            key = val[1]
                            if self.keep(key):
                                vals = {v for v in (0, 1) if target_of(v) == s_}
                                if not vals:
                                    feasible = False
                                elif len(vals) == 1:
                                    tv = (1 in vals) != val[2]
                                    if key in nf and nf[key] != tv:
                                        feasible = False
                                    else:
                                        nf[key] = tv
                                        if tv and not self._order_consistent(key, nf):
                                            feasible = False
                        elif val[0] == "optdiscr":
                            key = val[1]
                            if self.keep(key):
                                vals = {v for v in (0, 1) if target_of(v) == s_}
                                if not vals:
                                    feasible = False
                                elif len(vals) == 1:
                                    # Option: Some = 1 is "true"; Result: Ok = 0 is "true"
                                    tv = (1 in vals) if val[2] else (0 in vals)
                                    if key in nf and nf[key] != tv:
                                        feasible = False
                                    else:
                                        nf[key] = tv
                        elif val[0] == "enumeq":
                            key = ("enum", val[1])
                            if self.keep(val[1]):
                                vals = {v for v in (0, 1) if target_of(v) == s_}
                                names = self._variants_for(val[1], val[2])
                                if not vals:
                                    feasible = False
                                elif len(vals) == 1 and names:
                                    is_true = (1 in vals) != val[3]
                                    allowed = nf.get(key, frozenset(names))
                                    na = (allowed & {val[2]}) if is_true else (allowed - {val[2]})
                                    if not na:
                                        feasible = False
                                    else:
                                        nf[key] = frozenset(na)
                        elif val[0] == "enum":
                            key = ("enum", val[1])
                            if self.keep(val[1]):
                                names = self.enum_variants.get(self._enum_path(val[2]))
                                if names:
                                    allowed = nf.get(key, frozenset(names))
                                    here = {names[v] for v in range(len(names)) if target_of(v) == s_}
                                    na = allowed & here
                                    if not na:
                                        feasible = False
                                    else:
                                        nf[key] = frozenset(na)
                    if not feasible:
                        continue
                    st = (s_, frozenset(nf.items()), frozenset(bd.items()), marks2)
                    if st not in seen:
                        seen.add(st)
                        work.append(st)
            else:
                if not succs:
                    exits.append((bb, frozenset(fd.items()), marks2))
                    # symbolic value of the return place on this path (const / atom), for truth tables
                    self.exit_vals.append((bb, frozenset(fd.items()), bd.get(0)))
                for s_ in succs:
                    st = (s_, frozenset(fd.items()), frozenset(bd.items()), marks2)
                    if st not in seen:
                        seen.add(st)
                        work.append(st)
        self.at_block = at_block
        return exits

    @staticmethod
    def _order_consistent(key, facts):
        """at most one of a > b, b > a, a == b holds: a state that claims two of them is infeasible"""
        import re as _re

        m = _re.match(r"^(Gt|Eq)\((.*)\)$", key)
        if not m:
            return True
        body = m.group(2)
        # split the two operands at the top-level comma
        depth = 0
        cut = None
        for i, ch in enumerate(body):
            if ch in "([":
                depth += 1
            elif ch in ")]":
                depth -= 1
            elif ch == "," and depth == 0:
                cut = i
                break
        if cut is None:
            return True
        a, b = body[:cut].strip(), body[cut + 1:].strip()
        rivals = {"Gt(%s, %s)" % (a, b), "Gt(%s, %s)" % (b, a), "Eq(%s, %s)" % (a, b), "Eq(%s, %s)" % (b, a)} - {key}
        return not any(facts.get(r) is True for r in rivals)

    def _enum_path(self, ty):
        t = ty.lstrip("&").strip()
        return t if t in self.enum_variants else None

    def _variants_for(self, field, variant):
        p = self._field_enum.get(field)
        return self.enum_variants.get(p) if p else None

    def _enum_eq(self, d):
        """eq(place <field>, const Enum::Variant) -> (field path, variant)"""
        if d[0] != "call" or d[1].split("::")[-1] not in ("eq", "ne") or len(d[2]) != 2:
            return None
        a, c = d[2]
        if a[0] == "const":
            a, c = c, a
        if a[0] == "place" and c[0] == "const" and "::" in c[1]:
            path = c[1].replace("const ", "")
            enum_p = "::".join(path.split("::")[:-1])
            for p in self.enum_variants:
                if p == enum_p or p.endswith(enum_p) or enum_p.endswith(p.split("::", 0)[0]) and p.split("::")[-1] == enum_p.split("::")[-1]:
                    if path.split("::")[-1] in self.enum_variants[p]:
                        self._field_enum[a[1]] = p
                        return (a[1], path.split("::")[-1])
        return None


def completions(facts, universe):
    """all total valuations over `universe` ({key: domain list}) that extend the partial valuation"""
    fd = dict(facts)
    keys = sorted(universe, key=str)
    doms = []
    for k in keys:
        if k in fd:
            v = fd[k]
            doms.append(sorted(v) if isinstance(v, frozenset) else [v])
        else:
            doms.append(list(universe[k]))
    for combo in itertools.product(*doms):
        yield dict(zip(keys, combo))
