"""Shared vocabulary for the rules about the Graph struct's redundant indexes (C01, C02, C03, C15)."""
from collections import defaultdict

from flow import fmt_desc
from mir import loc_str, short

GRAPH_ADT = "graph::Graph"
INDEX_FIELDS = [
    "nodes_map",
    "nodes_map_rev",
    "nodes_vec",
    "edges",
    "edges_map",
    "successors",
    "successors_map",
    "successors_vec",
    "predecessors",
    "predecessors_map",
    "predecessors_vec",
]
NODE = {"nodes_map", "nodes_map_rev", "nodes_vec", "successors_map", "predecessors_map", "successors_vec", "predecessors_vec"}
EDGE = {"edges", "edges_map"}
SUCC = {"successors", "successors_map", "successors_vec"}
PRED = {"predecessors", "predecessors_map", "predecessors_vec"}

# write kinds that only obtain a slot / entry (the write proper is the operation that follows)
SLOT_KINDS = {"IndexMut::index_mut", "HashMap::entry", "Entry::or_default", "Entry::or_insert", "Entry::or_insert_with", "HashMap::get_mut", "DerefMut::deref_mut", "slice::iter_mut", "Vec::iter_mut", "Iterator::position", "Option::unwrap", "Index::index", "Deref::deref", "slice::iter"}


def graph_fields(prog):
    a = prog.adts.get(GRAPH_ADT)
    if not a:
        return None
    return [f["name"] for f in a["variants"][0]["fields"]]


def field_of(obj):
    """first real field name of a ("P", param, fields) object, or None"""
    if obj[0] != "P":
        return None
    for f in obj[2]:
        if f != "*" and not f.startswith("^"):
            return f
    return None


def self_param(body):
    for i in range(1, body.arg_count + 1):
        if "graph::Graph<" in body.local_ty(i):
            return i
    return None


def index_events(effects, body):
    """write events of `body` on Graph index fields through its Graph parameter:
    [(bb, site, field, kind)]"""
    sp = self_param(body)
    out = []
    for (bb, site, obj, kind) in effects.events(body.path):
        if obj[0] == "P" and obj[1] == sp:
            f = field_of(obj)
            if f in INDEX_FIELDS:
                out.append((bb, site, f, kind))
    return out


def direct_index_access(prog):
    """bodies that take `&mut <Graph>.field` or assign to it directly (not through a callee):
    {body path: {field: [site]}}"""
    out = defaultdict(lambda: defaultdict(list))
    for p, b in prog.bodies.items():
        for s in b.stmts():
            if s.k != "assign":
                continue
            places = []
            if s.rv.k == "ref" and s.rv.j.get("bk") == "mut":
                places.append(s.rv.place)
            if s.lhs.proj:
                places.append(s.lhs)
            for pl in places:
                for e in pl.proj:
                    if isinstance(e, dict) and "f" in e and e["f"] in INDEX_FIELDS and e.get("of", "").startswith("graph::Graph<"):
                        out[p][e["f"]].append(s)
    return out


def adjacency_entries_only_for_new_nodes(ctx, prog, flows, rid, consequence):
    """shared by C10 (searches walk these maps) and C02 (they are redundant indexes of `edges`): a whole-entry insert
    into successors/predecessors(_map) happens only for a key that is not present yet"""
    from effects import Effects
    from engines import canon_exists
    from props.c01 import controlling_atoms
    from flow import fmt_desc
    from mir import loc_str

    ctx.rule(rid, "the adjacency maps are only ever extended: a whole-entry insert into them happens only for a node that is new")
    effects = Effects(prog, flows)
    n_ins = 0
    for p in sorted(direct_index_access(prog)):
        b = prog.bodies[p]
        fl = flows.of(b)
        for (bb, site, f, k) in index_events(effects, b):
            if f not in (SUCC | PRED) or f.endswith("_vec") or k != "HashMap::insert":
                continue
            if getattr(site, "k", None) != "call" or not site.callee or not site.callee.short.endswith("HashMap::insert"):
                continue
            n_ins += 1
            fresh = False
            for (t, v, a) in controlling_atoms(fl, bb):
                ce = canon_exists(fl, t, v, a)
                if ce is not None and ce[2] is False and (fmt_desc(ce[0]).endswith("nodes_map") or fmt_desc(ce[0]).endswith(f)):
                    fresh = True
            ctx.require(fresh, rid, "insert|%s|%s" % (b.short, f), "the entry of `%s` is (re)created in %s only for a key that is not present yet" % (f, b.short.split("::")[-1]), ("`%s`.insert in %s is not limited to new nodes: re-adding an existing node replaces its adjacency entry with a fresh one, " % (f, b.short)) + (consequence % f), loc_str(site.span))
    ctx.floor(rid, "adjacency_entry_inserts", n_ins, 2)


KEYED_READS = ("get", "contains_key", "index", "get_key_value", "contains")
ADJ_MAP_ACCESSORS = ("get_successors_map", "get_predecessors_map")


def adjacency_name_maps_only_keyed(ctx, prog, flows, rid, prefixes, consequence, floor=0):
    """The name-keyed adjacency maps (`successors` / `predecessors`, also handed out by get_successors_map /
    get_predecessors_map) get an entry for a node when its first edge is added, not when the node is added: their KEY
    SET is "the nodes that have an edge", not the node list.  Looking a name up in them (with a default) is fine;
    enumerating, counting or copying them as if they listed the nodes is not.  Checked for the bodies whose path
    starts with one of `prefixes` (and the closures inside them)."""
    ctx.rule(rid, "the name-keyed adjacency maps are read only through keyed lookups (get / contains_key): their key set is not the node list")
    n = 0
    for p in sorted(prog.bodies):
        b = prog.bodies[p]
        root = b
        while root.kind == "closure":
            root = prog.bodies[root.item["parent"]]
        if not any(root.short.startswith(x) for x in prefixes):
            continue
        fl = flows.of(b)
        for t in b.calls():
            if not t.callee or not t.args or t.args[0].place is None:
                continue
            rty = t.args[0].place.ty
            if "HashMap<" not in rty or "HashSet<" not in rty:
                continue
            sl = flows.slice(b.path, fl._op_reads(t.args[0]), up=True, down=False, data_only=True, roots=(root.path,))
            from_adj = None
            for (bp, nd) in sl:
                bb_ = prog.bodies[bp]
                if nd[0] == "CALL":
                    tt = bb_.blocks[nd[1]].term
                    if tt.callee and tt.callee.short.split("::")[-1] in ADJ_MAP_ACCESSORS:
                        from_adj = tt.callee.short.split("::")[-1]
                elif nd[0] == "SRC":
                    f = field_of(("P", nd[1], nd[2]))
                    if f in ("successors", "predecessors"):
                        from_adj = f
            if from_adj is None:
                continue
            nm = t.callee.short.split("::")[-1]
            if nm in ADJ_MAP_ACCESSORS or nm in ("deref", "as_ref", "borrow"):
                continue
            n += 1
            ctx.require(nm in KEYED_READS, rid, "use|%s|%s" % (b.short, nm), "`%s` is read by a keyed lookup (%s) in %s" % (from_adj, nm, b.short.split("::")[-1]),
                        "%s applies `%s` to the whole `%s` map: its keys are the nodes that have an edge, " % (b.short, nm, from_adj) + consequence, loc_str(t.span))
    if floor:
        ctx.floor(rid, "adjacency_name_map_reads", n, floor)
    return n


# ---------------------------------------------------------------------------------------------------------------
# enumerate counters that are used as node positions

ORDER_KEEPING_CALLS = ("iter", "map", "cloned", "copied", "collect", "into_iter", "clone", "to_vec", "as_slice", "deref", "as_ref", "from_iter", "to_owned", "into", "borrow", "iter_mut", "by_ref", "inspect")
POSITION_ACCESSORS = ("get_node_by_index", "get_successor_nodes_by_index", "get_predecessor_nodes_by_index", "get_successors_or_neighbors_by_index")


def _node_list_order(prog, flows):
    from props.c02 import node_list_accessors_in_store_order

    return {k: v[0] for k, v in node_list_accessors_in_store_order(prog, flows).items()}


def _classify_base(prog, flows, fl, d, acc_ok, depth=0):
    """('ok' | 'bad' | 'unknown', why) for the description of what is being enumerated"""
    import panic

    if not isinstance(d, tuple) or depth > 8:
        return ("unknown", fmt_desc(d))
    if d[0] == "call":
        nm = d[1].split("::")[-1]
        if nm in ("get_all_nodes", "get_all_node_names"):
            return ("ok", nm) if acc_ok.get(nm) else ("bad", "%s, which does not list the nodes in position order" % nm)
        if nm in ORDER_KEEPING_CALLS and d[2]:
            return _classify_base(prog, flows, fl, d[2][0], acc_ok, depth + 1)
        return ("bad" if nm in ("sorted", "sorted_by", "sorted_by_key", "rev", "keys", "values", "sorted_unstable", "unique") else "unknown", "%s(..)" % nm)
    if d[0] == "place":
        last = d[1].split(".")[-1]
        if last in ("nodes_vec", "successors_vec", "predecessors_vec"):
            return ("ok", last)
        if "." not in d[1]:
            # a named local: node-sized if every definition allocates `n` elements, n taken from the node count
            b = fl.b
            ls = b.locals_named(d[1])
            if ls:
                ok = True
                seen_def = False
                for (dbb, dd) in b.assigns_to(ls[0]):
                    seen_def = True
                    desc = panic.norm(fl.describe_def(dd, depth=8))
                    if not (desc[0] == "call" and desc[1].endswith("from_elem") and len(desc[2]) > 1 and _is_node_count(desc[2][1])):
                        ok = False
                if seen_def and ok:
                    return ("ok", "a vector with one slot per node")
        return ("unknown", d[1])
    if d[0] == "adt" and d[1].endswith("Range") and len(d[2]) == 2 and _is_node_count(d[2][1]):
        return ("ok", "0..number_of_nodes")
    return ("unknown", fmt_desc(d))


def _is_node_count(d):
    from flow import desc_mentions

    return desc_mentions(d, lambda x: x[0] == "call" and x[1].split("::")[-1] in ("number_of_nodes",)) or (isinstance(d, tuple) and d[0] == "call" and d[1].split("::")[-1] == "len" and desc_mentions(d, lambda x: x[0] == "call" and x[1].split("::")[-1] in ("get_all_nodes", "get_all_node_names")))


def enumerate_counters_as_positions(ctx, prog, flows, rid, prefixes, consequence):
    """`for (i, x) in xs.enumerate()`: when the counter i is used as a NODE POSITION -- handed to a *_by_index accessor, or
    used as the index into a vector that the same function also indexes by a looked-up position (get_node_index,
    `.node_index`) -- then xs must list the nodes in position order: the node store itself, one of the accessors that
    return it in store order, a vector with one slot per node, or 0..number_of_nodes; through one-to-one adaptors only."""
    import panic

    ctx.rule(rid, "an enumerate() counter that is used as a node position enumerates the nodes in position order")
    acc_ok = _node_list_order(prog, flows)
    n = 0
    for p in sorted(prog.bodies):
        b = prog.bodies[p]
        root = b
        while root.kind == "closure":
            root = prog.bodies[root.item["parent"]]
        if not any(root.short.startswith(x) for x in prefixes):
            continue
        fl = flows.of(b)
        sites = []  # (counter reads: set of dep nodes, body in which they are used, base description, span)
        # loop form
        for t in b.calls():
            if t.callee and t.callee.short == "std::iter::Iterator::next" and t.args and t.args[0].place is not None and "std::iter::Enumerate<" in t.args[0].place.ty and not t.dest.proj:
                cs = {s.lhs.local for s in b.stmts() if s.k == "assign" and s.rv.k == "use" and s.rv.ops[0].place is not None and s.rv.ops[0].place.local == t.dest.local and s.rv.ops[0].place.fields() == ["0", "0"] and not s.lhs.proj}
                sl = fl.slice_local(fl._op_reads(t.args[0]), data_only=True)
                en = [b.blocks[x[1]].term for x in sl if x[0] == "CALL" and b.blocks[x[1]].term.callee and b.blocks[x[1]].term.callee.short.endswith("Iterator::enumerate")]
                if cs and en:
                    sites.append(({("L", c) for c in cs}, b, fl, panic.norm(fl.describe(en[0].args[0], depth=10)), fl, en[0].span))
        # closure form: the closure's item parameter is (usize, _) and the adaptor's receiver is an Enumerate
        if b.kind == "closure" and b.arg_count >= 2 and b.local_ty(2).startswith("(usize,"):
            for (pp, s_) in flows.closure_sites(b.path):
                pf = flows.of(pp)
                pb = prog.bodies[pp]
                cls = pf.copies_of(s_.lhs.local)
                for t in pb.calls():
                    if t.args and t.args[0].place is not None and "Enumerate<" in t.args[0].place.ty and any(a.place is not None and a.place.local in cls for a in t.args[1:]):
                        d = panic.norm(pf.describe(t.args[0], depth=12))
                        # strip what comes after enumerate (filter, ..): the counter is fixed by then
                        for _ in range(6):
                            if isinstance(d, tuple) and d[0] == "call" and not d[1].endswith("Iterator::enumerate") and d[2]:
                                d = d[2][0]
                            else:
                                break
                        if isinstance(d, tuple) and d[0] == "call" and d[1].endswith("Iterator::enumerate"):
                            cs = {s.lhs.local for s in b.stmts() if s.k == "assign" and s.rv.k == "use" and s.rv.ops[0].place is not None and s.rv.ops[0].place.local == 2 and s.rv.ops[0].place.fields()[:1] == ["0"] and not s.lhs.proj}
                            sites.append(({("L", c) for c in cs} | {("LF", 2, 0)}, b, fl, d[2][0], pf, t.span))
        for (cnodes, ub, ufl, base, bfl, span) in sites:
            # is the counter used as a node position?
            used = None
            idx_vecs = {}
            for u in ub.calls():
                if not u.callee:
                    continue
                nm = u.callee.short.split("::")[-1]
                for ai, a in enumerate(u.args):
                    if a.place is None or a.place.ty not in ("usize", "&usize"):
                        continue
                    sl = ufl.slice_local(ufl._op_reads(a), data_only=True)
                    from_counter = bool(sl & cnodes)
                    looked_up = any(x[0] == "CALL" and ub.blocks[x[1]].term.callee and ub.blocks[x[1]].term.callee.short.split("::")[-1] == "get_node_index" for x in sl) or any(x[0] == "SRC" and "node_index" in x[2] for x in sl)
                    if nm in POSITION_ACCESSORS and from_counter:
                        used = "%s(counter)" % nm
                    if nm in ("index", "index_mut") and ai == 1:
                        for o in ufl._operand_pts(u.args[0]):
                            e = idx_vecs.setdefault(o, [False, False])
                            e[0] = e[0] or from_counter
                            e[1] = e[1] or looked_up
            for o, (c_, l_) in idx_vecs.items():
                if c_ and l_:
                    used = "a vector indexed both by the counter and by a looked-up node position"
            if used is None:
                continue
            n += 1
            cls_, why = _classify_base(prog, flows, bfl, base, acc_ok)
            ctx.require(cls_ == "ok", rid, "counter|%s" % ub.short, "the counter used as %s in %s enumerates %s" % (used, ub.short.split("::", 1)[-1], why),
                        "%s uses an enumerate() counter as a node position (%s) but enumerates %s: " % (ub.short, used, why) + consequence, loc_str(span))
    return n


def node_append_behind_fresh_absence_test(ctx, prog, flows, effects, rid, consequence):
    """Every push onto `nodes_vec` (one more stored node) is decided by a lookup of the name in `nodes_map` that is
    still CURRENT when the push runs: between that lookup and the push no other group of statements may have written
    nodes_map.  (`let u_new = !has(u); let v_new = !has(v); if u_new { append(u) } if v_new { append(v) }` appends the
    same name twice for a self-loop on a new node: the second test was made before the first append.)"""
    ctx.rule(rid, "a node is appended to the node store only behind a lookup of its name that no other append separates from it")
    n = 0
    for p in sorted(prog.bodies):
        b = prog.bodies[p]
        if b.kind == "closure":
            continue
        evs = index_events(effects, b)
        pushes = [(bb, site) for (bb, site, f, kind) in evs if f == "nodes_vec" and kind.endswith("Vec::push") and getattr(site, "k", None) == "call" and site.callee and site.callee.short.endswith("Vec::push")]
        if not pushes:
            continue
        fl = flows.of(b)
        map_writes = sorted({bb for (bb, site, f, kind) in evs if f == "nodes_map" and getattr(site, "k", None) == "call" and site.callee and site.callee.short.split("::")[-1] in ("insert", "entry", "or_insert", "or_insert_with", "remove", "clear")})
        tests = [t for t in b.calls() if t.callee and t.callee.short.split("::")[-1] in ("contains_key", "get") and t.args and t.args[0].place is not None and fl.field_path(t.args[0].place).endswith("nodes_map")]
        if not tests:
            # the receiver may be a re-borrow: go by what it points to
            tests = [t for t in b.calls() if t.callee and t.callee.short.split("::")[-1] in ("contains_key", "get") and t.args and any(o[0] == "P" and field_of(o) == "nodes_map" for o in fl._operand_pts(t.args[0]))]
        for (pbb, site) in pushes:
            n += 1
            deps = b.transitive_control_deps(pbb)
            pdeps = {a for (a, s) in deps}
            controlling = []
            for (a, s) in deps:
                sl = fl.slice_local(fl.atom_reads(a), data_only=True)
                for t in tests:
                    if ("CALL", t.bb) in sl and t not in controlling:
                        controlling.append(t)
            fresh = []
            stale_why = []
            for t in controlling:
                after_t = b.reachable_from(t.bb)
                foreign = []
                for w in map_writes:
                    if w == pbb or w == t.bb or w not in after_t or pbb not in b.reachable_from(w):
                        continue
                    if b.dominates(pbb, w):
                        continue
                    wdeps = {a for (a, s) in b.transitive_control_deps(w)}
                    if pdeps <= wdeps:
                        continue  # the nodes_map insert that belongs to this very append (same guard, possibly one more)
                    foreign.append(w)
                if foreign:
                    stale_why.append("lookup at %s is followed by the nodes_map write at %s before the append" % (loc_str(t.span), ", ".join(loc_str(b.blocks[w].term.span) for w in foreign[:2])))
                else:
                    fresh.append(t)
            ctx.require(bool(fresh), rid, "append|%s" % b.short, "the append in %s is decided by a lookup in nodes_map that is still current" % b.short.split("::")[-1],
                        "%s appends to nodes_vec %s: " % (b.short, ("without a lookup of the name in nodes_map" if not controlling else "; ".join(stale_why))) + consequence, loc_str(site.span))
    ctx.floor(rid, "node_appends", n, 1)
    return n


def no_edge_identity_collections(ctx, prog, rid, prefixes, consequence):
    """`Edge`'s Eq / Ord / Hash look at the two endpoints only (they are sort and lookup keys), so any container that
    uses an edge AS ITS OWN KEY -- HashSet / BTreeSet of edges, a map keyed by an edge, dedup / unique over edges --
    silently merges parallel edges and edges that differ in weight.  No such container may appear in the bodies under
    `prefixes` (None = whole crate)."""
    import re

    ctx.rule(rid, "no set, map key, dedup or unique uses an Edge as its own identity (Edge equality ignores weight: parallel edges would merge)")
    # the premise, from the code: Edge's eq / cmp / hash do not read `weight`
    reads_weight = False
    n_impl = 0
    for p_, b_ in prog.bodies.items():
        if p_.startswith("<edge::Edge<") and p_.split(">::")[-1] in ("eq", "cmp", "hash", "partial_cmp"):
            n_impl += 1
            for s_ in b_.stmts():
                if s_.k == "assign":
                    for pl_ in [s_.rv.place] + [o_.place for o_ in s_.rv.ops]:
                        if pl_ is not None and "weight" in pl_.fields():
                            reads_weight = True
    if n_impl and reads_weight:
        ctx.ok(rid, "edge-identity", "Edge's equality takes the weight into account: edges can be their own keys")
        return 0
    n = 0
    set_re = re.compile(r"(?:HashSet|BTreeSet|IndexSet|BinaryHeap)<&*(?:mut )?&*(?:std::sync::Arc<|std::rc::Rc<|std::boxed::Box<)?&*edge::Edge<")
    map_re = re.compile(r"(?:HashMap|BTreeMap|IndexMap)<&*(?:mut )?&*(?:std::sync::Arc<|std::rc::Rc<|std::boxed::Box<)?&*edge::Edge<")
    for p in sorted(prog.bodies):
        b = prog.bodies[p]
        root = b
        while root.kind == "closure":
            root = prog.bodies[root.item["parent"]]
        if prefixes is not None and not any(root.short.startswith(x) for x in prefixes):
            continue
        n += 1
        bad = []
        for l in b.locals:
            ty = str(l["ty"])
            if set_re.search(ty) or map_re.search(ty):
                bad.append("a local of type %s" % ty[:90])
                break
        for t in b.calls():
            if t.callee and t.callee.short.split("::")[-1] in ("dedup", "dedup_by_key", "unique", "unique_by", "dedup_by") and t.args and t.args[0].place is not None and "edge::Edge<" in t.args[0].place.ty and "AdjacentNode" not in t.args[0].place.ty:
                bad.append("%s over edges" % t.callee.short.split("::")[-1])
        if bad:
            ctx.violation(rid, "edge-identity|%s" % b.short, "%s uses %s: " % (b.short, bad[0]) + consequence, loc_str(b.span))
    if n:
        ctx.ok(rid, "edge-identity", "%d bodies: no container keyed by an Edge, no dedup/unique over edges" % n)
    return n


def adjacency_entry_targets_agree(ctx, prog, flows, rid, consequence):
    """add_to_adjacency_vec keeps, in the row of one endpoint, an entry that points to the OTHER endpoint.  It builds such
    entries at several places (push for a new pair, replacement of the cached weight) and searches the row by the same
    target; all of these sites must name the target through the same parameter(s) -- a site that uses another one
    stores an entry pointing elsewhere (for the mirrored update of an undirected edge: at the node itself)."""
    ctx.rule(rid, "every entry built and every search made by add_to_adjacency_vec names its target position through the same parameter(s)")
    h = prog.one("creation::add_to_adjacency_vec")
    bodies = [h] + list(prog.closures_of(h.path))
    provs = []
    for b in bodies:
        fl = flows.of(b)
        for t in b.calls():
            if t.callee and t.callee.short.endswith("AdjacentNode::new") and t.args:
                sl = flows.slice(b.path, fl._op_reads(t.args[0]), up=True, down=False, data_only=True, roots=(h.path,))
                ps = frozenset(h.local_name(n[1]) or "arg%d" % n[1] for (bp, n) in sl if bp == h.path and n[0] in ("L", "LF") and isinstance(n[1], int) and 1 <= n[1] <= h.arg_count)
                provs.append((ps, "AdjacentNode::new", t))
        # comparisons of an entry's node_index with the target (the search)
        for s in b.stmts():
            if s.k == "assign" and s.rv.k == "binop" and s.rv.j["op"] in ("Eq", "Ne"):
                descs = [fl.describe(o, depth=6) for o in s.rv.ops]
                if any(isinstance(d, tuple) and d[0] == "place" and d[1].endswith("node_index") and "." in d[1] for d in descs):
                    other = [o for o, d in zip(s.rv.ops, descs) if not (isinstance(d, tuple) and d[0] == "place" and d[1].endswith(".node_index"))]
                    for o in other:
                        sl = flows.slice(b.path, fl._op_reads(o), up=True, down=False, data_only=True, roots=(h.path,))
                        ps = frozenset(h.local_name(n[1]) or "arg%d" % n[1] for (bp, n) in sl if bp == h.path and n[0] in ("L", "LF") and isinstance(n[1], int) and 1 <= n[1] <= h.arg_count)
                        provs.append((ps, "search", s))
    if not ctx.floor(rid, "target_sites", len(provs), 2):
        return
    sets = {p for (p, _, _) in provs}
    ctx.require(len(sets) == 1, rid, "targets-agree", "all %d sites name the target through %s" % (len(provs), sorted(next(iter(sets))) if len(sets) == 1 else "?"),
                "the sites of add_to_adjacency_vec disagree about the target position: %s -- " % sorted((k, sorted(p)) for (p, k, _) in provs) + consequence, loc_str(h.span))


def value_roots(b, place_local, proj, depth=0, seen=None):
    """Field- and variant-sensitive walk from a (local, projection) back through plain copies, references, tuple /
    struct / enum constructions and `as Variant` downcasts to where the value is produced: yields ("call", term),
    ("place", local, proj) for parameters / unresolved places, ("stmt", stmt) for other rvalues.  A definition that
    builds another variant than the one the projection asks for is skipped (`(_r as Ok).0` does not come from `Err(..)`)."""
    if seen is None:
        seen = set()
    key = (place_local, tuple(str(e) for e in proj))
    if key in seen or depth > 24:
        return []
    seen.add(key)
    out = []
    defs = b.assigns_to(place_local)
    if not defs:
        return [("place", place_local, list(proj))]
    for (_bb, d) in defs:
        if getattr(d, "k", None) == "call":
            out.append(("call", d, list(proj)))
            continue
        rv = d.rv
        lp = list(d.lhs.proj)
        pr = list(proj)
        # a partial write `x.0 = ..` defines only that field
        if lp:
            if pr[: len(lp)] != lp:
                if any(isinstance(e, dict) and "f" in e for e in lp) and pr and isinstance(pr[0], dict) and "f" in pr[0] and isinstance(lp[0], dict) and lp[0].get("f") != pr[0].get("f"):
                    continue
                pr = pr
            else:
                pr = pr[len(lp):]
        if rv.k in ("use", "cast") and rv.ops:
            o = rv.ops[0]
            if o.place is not None:
                out += value_roots(b, o.place.local, list(o.place.proj) + pr, depth + 1, seen)
            else:
                out.append(("stmt", d))
        elif rv.k == "ref" and rv.place is not None:
            pr2 = pr[1:] if pr and pr[0] == "*" else pr
            out += value_roots(b, rv.place.local, list(rv.place.proj) + pr2, depth + 1, seen)
        elif rv.k == "aggr":
            variant = rv.j.get("variant")
            pr2 = pr
            if pr2 and isinstance(pr2[0], dict) and "as" in pr2[0]:
                if variant is not None and pr2[0]["as"] != variant:
                    continue
                pr2 = pr2[1:]
            if pr2 and isinstance(pr2[0], dict) and "f" in pr2[0] and "i" in pr2[0] and pr2[0]["i"] < len(rv.ops):
                o = rv.ops[pr2[0]["i"]]
                if o.place is not None:
                    out += value_roots(b, o.place.local, list(o.place.proj) + pr2[1:], depth + 1, seen)
                else:
                    out.append(("stmt", d))
            else:
                for o in rv.ops:
                    if o.place is not None:
                        out += value_roots(b, o.place.local, list(o.place.proj), depth + 1, seen)
        else:
            out.append(("stmt", d))
    return out


class _PlaceAsOp:
    def __init__(self, place):
        self.place = place
        self.j = None


THROUGH_FIRST = ("unwrap", "expect", "copied", "cloned", "clone", "deref", "deref_mut", "branch", "into", "borrow", "as_ref", "unwrap_or_default", "to_owned", "unwrap_unchecked")
KEYED_LOOKUPS = ("get", "index", "get_mut", "get_key_value", "get_node_index")


def adjacency_set_updates_agree(ctx, prog, flows, rid, consequence):
    """add_edge records every edge twice in set form: in the name-keyed maps (`successors` / `predecessors`) and in the
    position-keyed ones (`successors_map` / `predecessors_map`).  The two are siblings: for every update of one there is,
    under the same test of specs.directed, the update of the other with the same endpoint as key and the same endpoint as
    member.  Each key and each member must come from ONE endpoint of the new edge (an ordered position, which is one or
    the other endpoint depending on a comparison, turns the mirrored update of an undirected edge into a repetition of
    the first one whenever the endpoints arrive in descending order)."""
    from props.c01 import controlling_atoms
    from mir import loc_str

    ctx.rule(rid, "the position-keyed adjacency sets get, under the same test of specs.directed, the update the name-keyed ones get: same endpoint as key, same endpoint as member")
    b = prog.one("creation::Graph::add_edge")
    fl = flows.of(b)
    pn = b.param_names()

    def endpoints(op):
        """the endpoint fields (`u` / `v` of an Edge) read by the computation of this operand: a field- and
        variant-sensitive walk to the producing calls, then the data slice of those calls' arguments"""
        out = set()

        def scan(local, proj):
            fs = [e["f"] for e in proj if isinstance(e, dict) and "f" in e]
            if fs and fs[-1] in ("u", "v") and "Edge<" in (b.local_ty(local) if len(fs) == 1 else "Edge<"):
                out.add(fs[-1])
                return True
            return False

        def from_reads(reads):
            for n_ in fl.slice_local(reads, data_only=True):
                if n_[0] == "L" and isinstance(n_[1], int):
                    for (_bb, st) in b.assigns_to(n_[1]):
                        rv = getattr(st, "rv", None)
                        if rv is None:
                            continue
                        if rv.place is not None:
                            scan(rv.place.local, rv.place.proj)
                        for o_ in rv.ops:
                            if o_.place is not None:
                                scan(o_.place.local, o_.place.proj)
                elif n_[0] == "CALL":
                    for a_ in b.blocks[n_[1]].term.args:
                        if a_.place is not None:
                            scan(a_.place.local, a_.place.proj)

        if op.place is None:
            return frozenset()
        if scan(op.place.local, op.place.proj):
            return frozenset(out)
        work = list(value_roots(b, op.place.local, list(op.place.proj)))
        done = 0
        while work and done < 200:
            done += 1
            r = work.pop()
            if r[0] == "place":
                scan(r[1], r[2])
            elif r[0] == "call" and scan(r[1].dest.local, r[2]):
                pass
            elif r[0] == "call" and r[1].callee and r[1].callee.short.split("::")[-1] in THROUGH_FIRST and r[1].args and r[1].args[0].place is not None:
                a0 = r[1].args[0].place
                if not scan(a0.local, a0.proj):
                    work += value_roots(b, a0.local, [e for e in a0.proj])
            elif r[0] == "call" and r[1].callee and r[1].callee.short.split("::")[-1] in KEYED_LOOKUPS and len(r[1].args) >= 2 and r[1].args[1].place is not None:
                # the value found under a key stands for the key (position of a NAME in nodes_map)
                a1 = r[1].args[1].place
                if not scan(a1.local, a1.proj):
                    work += value_roots(b, a1.local, [e for e in a1.proj if e != "*"])
            elif r[0] == "call":
                reads = set()
                for a_ in r[1].args:
                    if a_.place is not None and scan(a_.place.local, a_.place.proj):
                        continue
                    reads |= set(fl._op_reads(a_))
                if reads:
                    from_reads(reads)
            else:
                st = r[1]
                reads = set()
                for o_ in st.rv.ops:
                    reads |= set(fl._op_reads(o_))
                if st.rv.place is not None:
                    reads |= set(fl._place_reads(st.rv.place))
                if reads:
                    from_reads(reads)
        return frozenset(out)

    feats = {"name": set(), "pos": set()}
    sites = {}
    for t in b.calls():
        if not t.callee or t.callee.short.split("::")[-1] != "insert" or len(t.args) != 2 or t.args[0].place is None or "HashSet<" not in t.args[0].place.ty:
            continue
        # the receiver is [or_default | or_insert_with | unwrap | ...]*(STORE.entry(KEY) | STORE.get_mut(KEY))
        store, entry = None, None
        op = t.args[0]
        for _ in range(6):
            if op is None or op.place is None:
                break
            d_ = fl.single_def(op.place.local)
            if d_ is None:
                break
            if getattr(d_, "k", None) == "call":
                if d_.callee and d_.callee.short.split("::")[-1] in ("entry", "get_mut") and len(d_.args) >= 2:
                    entry = d_
                    break
                op = d_.args[0] if d_.args else None
            elif getattr(d_, "rv", None) is not None and d_.rv.k in ("use", "ref") and (d_.rv.place is not None or d_.rv.ops):
                op = d_.rv.ops[0] if d_.rv.ops else _PlaceAsOp(d_.rv.place)
            else:
                break
        if entry is not None:
            for o in fl._operand_pts(entry.args[0]):
                if o[0] == "P" and field_of(o) in ("successors", "predecessors", "successors_map", "predecessors_map"):
                    store = field_of(o)
        if store is None or entry is None:
            continue
        dirv = tuple(sorted({v for (te, v, x) in controlling_atoms(fl, t.bb) if isinstance(te, tuple) and te[0] == "place" and te[1].endswith("specs.directed")}))
        fam = "pos" if store.endswith("_map") else "name"
        feat = (store.replace("_map", ""), dirv, tuple(sorted(endpoints(entry.args[1]))), tuple(sorted(endpoints(t.args[1]))))
        feats[fam].add(feat)
        sites[(fam, feat)] = t
    n = len(sites)
    if not ctx.floor(rid, "adjacency_set_updates", n, 6):
        return n

    def show(f):
        return "%s[%s] <- %s%s" % (f[0], "/".join(f[2]) or "?", "/".join(f[3]) or "?", "" if not f[1] else " when directed=%s" % "/".join(str(x) for x in f[1]))

    for (fam, feat), t in sorted(sites.items(), key=lambda kv: (kv[0][0], str(kv[0][1]))):
        single = len(feat[2]) == 1 and len(feat[3]) == 1 and feat[2] != feat[3]
        other = feats["pos" if fam == "name" else "name"]
        ctx.require(single and feat in other, rid, "update|%s|%s|%s" % (fam, feat[0], "/".join(str(x) for x in feat[1]) or "always"),
                    "%s-keyed update %s has its sibling" % ("position" if fam == "pos" else "name", show(feat)),
                    "add_edge updates %s%s as %s, but the %s-keyed sibling updates are %s: " % (feat[0], "_map" if fam == "pos" else "", show(feat), "name" if fam == "pos" else "position", sorted(show(x) for x in other if x[0] == feat[0])) + consequence, loc_str(t.span))
    return n
