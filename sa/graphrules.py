"""Shared vocabulary for the rules about the Graph struct's redundant indexes (C01, C02, C03, C15)."""
from collections import defaultdict

from flow import fmt_desc
from mir import loc_str, short

GRAPH_ADT = "graph::Graph"
INDEX_FIELDS = [
    "nodes_map",
    "nodes_map_rev",
    "nodes_vec",
    "edges",
    "edges_map",
    "successors",
    "successors_map",
    "successors_vec",
    "predecessors",
    "predecessors_map",
    "predecessors_vec",
]
NODE = {"nodes_map", "nodes_map_rev", "nodes_vec", "successors_map", "predecessors_map", "successors_vec", "predecessors_vec"}
EDGE = {"edges", "edges_map"}
SUCC = {"successors", "successors_map", "successors_vec"}
PRED = {"predecessors", "predecessors_map", "predecessors_vec"}

# write kinds that only obtain a slot / entry (the write proper is the operation that follows)
SLOT_KINDS = {"IndexMut::index_mut", "HashMap::entry", "Entry::or_default", "Entry::or_insert", "Entry::or_insert_with", "HashMap::get_mut", "DerefMut::deref_mut", "slice::iter_mut", "Vec::iter_mut", "Iterator::position", "Option::unwrap", "Index::index", "Deref::deref", "slice::iter"}


def graph_fields(prog):
    a = prog.adts.get(GRAPH_ADT)
    if not a:
        return None
    return [f["name"] for f in a["variants"][0]["fields"]]


def field_of(obj):
    """first real field name of a ("P", param, fields) object, or None"""
    if obj[0] != "P":
        return None
    for f in obj[2]:
        if f != "*" and not f.startswith("^"):
            return f
    return None


def self_param(body):
    for i in range(1, body.arg_count + 1):
        if "graph::Graph<" in body.local_ty(i):
            return i
    return None


def index_events(effects, body):
    """write events of `body` on Graph index fields through its Graph parameter:
    [(bb, site, field, kind)]"""
    sp = self_param(body)
    out = []
    for (bb, site, obj, kind) in effects.events(body.path):
        if obj[0] == "P" and obj[1] == sp:
            f = field_of(obj)
            if f in INDEX_FIELDS:
                out.append((bb, site, f, kind))
    return out


def direct_index_access(prog):
    """bodies that take `&mut <Graph>.field` or assign to it directly (not through a callee):
    {body path: {field: [site]}}"""
    out = defaultdict(lambda: defaultdict(list))
    for p, b in prog.bodies.items():
        for s in b.stmts():
            if s.k != "assign":
                continue
            places = []
            if s.rv.k == "ref" and s.rv.j.get("bk") == "mut":
                places.append(s.rv.place)
            if s.lhs.proj:
                places.append(s.lhs)
            for pl in places:
                for e in pl.proj:
                    if isinstance(e, dict) and "f" in e and e["f"] in INDEX_FIELDS and e.get("of", "").startswith("graph::Graph<"):
                        out[p][e["f"]].append(s)
    return out


def adjacency_entries_only_for_new_nodes(ctx, prog, flows, rid, consequence):
    """shared by C10 (searches walk these maps) and C02 (they are redundant indexes of `edges`): a whole-entry insert
    into successors/predecessors(_map) happens only for a key that is not present yet"""
    from effects import Effects
    from engines import canon_exists
    from props.c01 import controlling_atoms
    from flow import fmt_desc
    from mir import loc_str

    ctx.rule(rid, "the adjacency maps are only ever extended: a whole-entry insert into them happens only for a node that is new")
    effects = Effects(prog, flows)
    n_ins = 0
    for p in sorted(direct_index_access(prog)):
        b = prog.bodies[p]
        fl = flows.of(b)
        for (bb, site, f, k) in index_events(effects, b):
            if f not in (SUCC | PRED) or f.endswith("_vec") or k != "HashMap::insert":
                continue
            if getattr(site, "k", None) != "call" or not site.callee or not site.callee.short.endswith("HashMap::insert"):
                continue
            n_ins += 1
            fresh = False
            for (t, v, a) in controlling_atoms(fl, bb):
                ce = canon_exists(fl, t, v, a)
                if ce is not None and ce[2] is False and (fmt_desc(ce[0]).endswith("nodes_map") or fmt_desc(ce[0]).endswith(f)):
                    fresh = True
            ctx.require(fresh, rid, "insert|%s|%s" % (b.short, f), "the entry of `%s` is (re)created in %s only for a key that is not present yet" % (f, b.short.split("::")[-1]), ("`%s`.insert in %s is not limited to new nodes: re-adding an existing node replaces its adjacency entry with a fresh one, " % (f, b.short)) + (consequence % f), loc_str(site.span))
    ctx.floor(rid, "adjacency_entry_inserts", n_ins, 2)
