"""C17 -- a seed makes randomised functions reproducible (structural clauses)."""
import json
import os

from core import ASSUME_RUSTC, ASSUME_PATHS, VERIF
from effects import Effects
from engines import all_calls
from flow import Flows, L, fmt_desc
import hashord
import panic
from props.c01 import controlling_atoms
from mir import loc_str, short

LEVEL = "other"
EXPLANATION = (
    "Decides structural clauses of C17 on the bodies reachable from louvain_partitions, louvain_communities and "
    "fast_gnp_random_graph.  S1: every entropy source (thread_rng, random, OsRng, from_entropy, clocks) is control-dependent on "
    "seed == None; on the Some arm the generator is seed_from_u64(payload); every other use of rand takes its generator from one of "
    "the two factories.  S2: no hash-order-sensitive selection or sequence over a randomly-seeded std container: each iteration site "
    "is classified from its resolved consumer (collect into unordered container / integer fold / sorted-before-use = SAFE; float "
    "accumulation = FLOAT; first-wins, collect-into-Vec, push = ORDER) and an ORDER site must be in the reviewed table with a reason; "
    "consumers of functions that return hash-ordered sequences are frozen.  S4: no rayon, no pointer-to-integer cast, no pointer "
    "formatting, no environment/clock input in scope.  S5: Louvain's node ids come from the SORTED node names.  S3 (float sums whose "
    "operand order follows hash order) is listed as an assumption: order-independent up to rounding, exact for unweighted graphs.  "
    "S8 (second sentence, one necessary condition): outside the seeded paths no unreviewed order-sensitive use -- positional adaptors included -- of a hash container created inside the call.  NOT decided: the non-randomised algorithms' run-to-run equality beyond this inventory."
)
TRUSTED = ["StdRng / ChaCha20Rng are deterministic functions of the seed for a fixed build", "slice::shuffle consumes the generator deterministically", "rustc MIR construction"]

ROOTS = ["louvain::louvain_partitions", "louvain::louvain_communities", "random::fast_gnp_random_graph"]
ENTROPY = ("rand::thread_rng", "rand::random", "rand::rngs::OsRng", "rand::SeedableRng::from_entropy", "rand::SeedableRng::from_os_rng", "std::time::SystemTime::now", "std::time::Instant::now", "getrandom::", "std::hash::RandomState::new", "rand::rngs::ThreadRng")
HIDDEN = ("std::env::", "std::process::id", "std::thread::current", "rayon::", "std::fs::", "std::net::")


def load_review():
    p = os.path.join(VERIF, "rules", "hashord_review.json")
    with open(p) as f:
        return {e["key"]: e for e in json.load(f)["entries"]}


def run(ctx):
    prog = ctx.prog
    flows = Flows(prog)
    effects = Effects(prog, flows)
    ctx.assume(ASSUME_RUSTC)
    ctx.assume(ASSUME_PATHS)
    roots = [prog.one(r) for r in ROOTS]
    scope = prog.reachable_bodies([r.path for r in roots])
    ctx.counters["bodies_in_scope"] = len(scope)
    ctx.floor("S1", "bodies_in_scope", len(scope), 30)

    # ------------------------------------------------------------------ S1
    ctx.rule("S1", "entropy only when no seed is given; seeded generator = seed_from_u64(payload); all rand use goes through the factories")
    factories = []
    seeded_sites = set()
    n_entropy = 0
    for b, t in all_calls(prog, scope):
        nm = t.callee.short
        fl = flows.of(b)
        if any(nm.startswith(e) for e in ENTROPY):
            n_entropy += 1
            atoms = controlling_atoms(fl, t.bb)
            sp = b.param_local("seed")
            ok = False
            for (te, v, a) in atoms:
                if isinstance(te, tuple) and te[0] == "discr" and sp is not None and te[1] == b.local_name(sp) and isinstance(v, tuple) and v == (0,):
                    ok = True
            ctx.require(ok, "S1", "entropy|%s|%s" % (b.short, nm.split("::")[-1]), "%s in %s is reached only when seed is None" % (nm, b.short.split("::")[-1]), "%s in %s can run although a seed was supplied: the result is not a function of the arguments" % (nm, b.short), loc_str(t.span))
        if nm.endswith("SeedableRng::seed_from_u64"):
            sp = b.param_local("seed")
            if sp is None:
                continue
            # the value handed to seed_from_u64: every definition of it that is made while seed is Some (or that is
            # not under a test of seed at all) must be the payload of the seed and nothing else; what is assigned
            # while seed is None is the entropy branch and is free.  This covers `match seed {Some(s) => from(s), None
            # => from(entropy)}`, `from(seed.unwrap_or_else(entropy))`, `let s = if let Some(s) = seed {s} else {..}`.
            roots = set()
            work = [o.place.local for o in t.args[:1] if o.place is not None and not o.place.proj]
            while work:
                l = work.pop()
                if l in roots:
                    continue
                roots.add(l)
                for (dbb, d) in b.assigns_to(l):
                    rv = getattr(d, "rv", None)
                    if rv is not None and rv.k == "use" and rv.ops[0].place is not None and not rv.ops[0].place.proj and not (1 <= rv.ops[0].place.local <= b.arg_count):
                        work.append(rv.ops[0].place.local)
            good = True
            some_def = False
            why = ""
            for l in sorted(roots):
                for (dbb, d) in b.assigns_to(l):
                    rv = getattr(d, "rv", None)
                    if rv is not None and rv.k == "use" and rv.ops[0].place is not None and not rv.ops[0].place.proj and rv.ops[0].place.local in roots:
                        continue  # a copy between the roots
                    pol = None
                    for (te, v, a) in controlling_atoms(fl, dbb):
                        if isinstance(te, tuple) and te[0] == "discr" and te[1] == b.local_name(sp) and isinstance(v, tuple) and len(v) == 1:
                            pol = v[0]
                    if pol == 0:
                        continue  # seed is None here
                    reads = fl._op_reads(rv.ops[0]) if rv is not None and rv.ops else {("CALL", dbb)}
                    sl = fl.slice_local(reads, data_only=True)
                    calls = [n for n in sl if n[0] == "CALL"]
                    if L(sp) in sl and not calls:
                        some_def = True
                    else:
                        good = False
                        why = "a value that is not the seed's payload can reach seed_from_u64 while a seed is given (%s)" % loc_str(d.span)
            # the call itself must not be limited to the None branch
            pol_call = None
            for (te, v, a) in controlling_atoms(fl, t.bb):
                if isinstance(te, tuple) and te[0] == "discr" and te[1] == b.local_name(sp) and isinstance(v, tuple) and len(v) == 1:
                    pol_call = v[0]
            if pol_call == 0:
                continue  # the entropy-seeded generator
            ctx.require(good and some_def, "S1", "seeded|" + b.short, "with Some(seed) the generator of %s is seed_from_u64(seed)" % b.short.split("::")[-1], "the seeded generator of %s is not built from the seed alone%s" % (b.short, (": " + why) if why else ""), loc_str(t.span))
            if good and some_def:
                seeded_sites.add((b.path, t.bb))
                if b.path not in factories:
                    factories.append(b.path)
    ctx.floor("S1", "generator_factories", len(factories), 1)
    ctx.floor("S1", "entropy_sites", n_entropy, 2)
    # every other rand call: its generator argument derives from a factory
    n_use = 0
    for b, t in all_calls(prog, scope):
        nm = t.callee.short
        if not (nm.startswith("rand::") or nm.startswith("rand_core::") or nm.startswith("rand_chacha::")):
            continue
        if any(nm.startswith(e) for e in ENTROPY) or nm.endswith("seed_from_u64"):
            continue
        if b.path in factories and (nm.endswith("next_u64") or nm.endswith("RngCore::next_u32") or "thread_rng" in nm):
            continue  # drawing the entropy seed inside a factory, already covered by the entropy rule
        n_use += 1
        fl = flows.of(b)
        gen_args = [a for a in t.args if a.place is not None and ("Rng" in a.place.ty or "rng" in a.place.ty.lower())]
        ok = False
        for a in gen_args:
            sl = flows.slice(b.path, fl._op_reads(a), up=True, down=False, data_only=True)
            for (bp, n) in sl:
                if n[0] == "CALL":
                    tt = prog.bodies[bp].blocks[n[1]].term
                    if tt.callee and tt.callee.target_path(prog) in factories:
                        ok = True
                    # ... or is made on the spot by a validated seed_from_u64(seed) (a factory written inline)
                    if (bp, n[1]) in seeded_sites:
                        ok = True
        ctx.require(ok, "S1", "use|%s|%s" % (b.short, nm.split("::")[-1]), "%s in %s draws from a factory-made generator" % (nm.split("::")[-1], b.short.split("::")[-1]), "%s in %s draws from a generator that does not come from get_rng / get_random_number_generator" % (nm, b.short), loc_str(t.span))
    ctx.floor("S1", "rand_uses", n_use, 2)

    # ------------------------------------------------------------------ S2 / S3
    ctx.rule("S2", "no hash-order-sensitive selection or sequence on the seeded paths (ORDER sites must be reviewed)")
    ctx.rule("S3", "float accumulations in hash order are listed (assumption: order-independent up to rounding)")
    review = load_review()
    sites = hashord.find_sites(prog, flows, effects, bodies=scope)
    n_random = 0
    floats = []
    for s in sites:
        if not s.random:
            continue
        n_random += 1
        w = s.worst()
        key = s.key()
        if w == "SAFE" or w == "NONE":
            ctx.ok("S2", key, "%s: %s" % (s.body.short.split("::", 2)[-1], "; ".join(x[2] for x in s.consumers)[:160]), loc_str(s.create.span))
        elif w == "FLOAT":
            floats.append("%s at %s" % (s.body.short.split("::", 2)[-1], loc_str(s.create.span)))
            ctx.info("S3", key, "float accumulation in hash order: %s" % "; ".join(x[2] for x in s.consumers)[:160], loc_str(s.create.span))
        else:
            r = review.get(key)
            if r is not None and r.get("verdict") == "safe":
                ctx.ok("S2", key, "reviewed -- " + r["reason"], loc_str(s.create.span))
            else:
                ctx.violation("S2", key, "hash-order-sensitive use of a RandomState container on a seeded path in %s: %s -- two runs with the same seed can differ" % (s.body.short, "; ".join(x[2] for x in s.consumers)[:300]), loc_str(s.create.span))
    ctx.counters["random_hash_sites_in_scope"] = n_random
    ctx.counters["float_sites"] = floats
    ctx.floor("S2", "random_hash_sites_in_scope", n_random, 5)
    if floats:
        ctx.assume("S3: %d float accumulations iterate hash-ordered operands (%s ...): sums are order-independent up to rounding and exact for unweighted graphs (integers < 2^53); a rounding flip of a comparison is conceivable for irrational weight ratios" % (len(floats), "; ".join(floats[:4])))
    # consumers of functions returning hash-ordered sequences
    for key, r in review.items():
        fn = key.split("|")[0]
        cands = [b for b in prog.bodies.values() if b.short == fn]
        if len(cands) != 1:
            continue
        fpath = cands[0].path
        cons = set()
        for b, t in all_calls(prog, scope):
            if t.callee.target_path(prog) == fpath:
                root = b
                while root.kind == "closure":
                    root = prog.bodies[root.item["parent"]]
                cons.add(root.short)
        extra = sorted(cons - set(r.get("consumers", [])))
        ctx.require(not extra, "S2", "consumers|" + fn, "consumers of %s on the seeded paths are the reviewed ones (%d)" % (fn.split("::")[-1], len(cons)), "unreviewed consumer(s) of the hash-ordered sequence returned by %s on a seeded path: %s" % (fn, extra))

    nonrandomised_order(ctx, prog, flows, effects, set(scope))
    stored_order(ctx, prog, flows, effects)

    # ------------------------------------------------------------------ S4
    ctx.rule("S4", "no thread/time/address/environment input on the seeded paths")
    bad = []
    for b, t in all_calls(prog, scope):
        nm = t.callee.short
        if any(nm.startswith(h) for h in HIDDEN) or nm.endswith("fmt::Pointer::fmt") or "new_pointer" in nm:
            bad.append((b, t))
    for b, t in bad:
        ctx.violation("S4", "hidden|%s|%s" % (b.short, t.callee.short), "%s is called on a seeded path (in %s)" % (t.callee.short, b.short), loc_str(t.span))
    casts = []
    for p in scope:
        b = prog.bodies[p]
        for s in b.stmts():
            if s.k == "assign" and s.rv.k == "cast" and ("Pointer" in s.rv.j["ck"] and ("Expose" in s.rv.j["ck"] or "Address" in s.rv.j["ck"])):
                casts.append((b, s))
    for b, s in casts:
        ctx.violation("S4", "ptrcast|" + b.short, "pointer-to-integer cast in %s" % b.short, loc_str(s.span))
    if not bad and not casts:
        ctx.ok("S4", "none", "no rayon/env/process/thread/clock call and no pointer exposure in %d bodies" % len(scope))

    # ------------------------------------------------------------------ S5
    ctx.rule("S5", "Louvain's node ids are assigned from the sorted node names")
    lp = prog.one("louvain::louvain_partitions")
    fl = flows.of(lp)
    cg = [t for t in lp.calls() if t.callee and t.callee.short.endswith("louvain::convert_graph")]
    if len(cg) != 1:
        ctx.anchor_lost("S5", "convert_graph call in louvain_partitions")
    else:
        sl = fl.slice_local(fl._op_reads(cg[0].args[2]), data_only=True)
        cal = {lp.blocks[n[1]].term.callee.short.split("::")[-1] for n in sl if n[0] == "CALL" and lp.blocks[n[1]].term.callee}
        ctx.require("sorted" in cal and "enumerate" in cal, "S5", "node_map", "node_map = names.sorted().enumerate()", "node ids are not assigned from sorted names (calls: %s)" % sorted(cal), loc_str(cg[0].span))
    rule_s6(ctx, prog, flows)
    # S7: "calls under different thread counts return the same ..." -- the only way the thread count enters a result is a
    # branch on rayon::current_num_threads(); both arms of every such branch must be siblings (same crate functions,
    # same-provenance arguments, same option tests).  Same engine as C07's P5/P6.
    from props.c07 import thread_count_arms

    ctx.rule("S7t", "rayon::current_num_threads() flows only into branch conditions")
    thread_count_arms(ctx, prog, flows, "S7t", "S7")


def rule_s6(ctx, prog, flows):
    """generate_graph condenses a level: for every member edge (visited in the hash order of get_all_edges) it reads the
    community edge's current weight with get_edge and stores weight + w with add_edge.  The total is independent of the
    visiting order only if each add_edge REPLACES the stored edge, i.e. the graph of communities is a single-edge
    KeepLast graph whatever the caller's specs say; under KeepFirst the first member edge visited wins."""
    import panic
    from flow import fmt_desc

    ctx.rule("S6", "Louvain's graph of communities is built with edge_dedupe_strategy = KeepLast on every path (its read-add-replace accumulation over hash-ordered edges is order-independent only then)")
    gg = prog.one("louvain::generate_graph")
    gf = flows.of(gg)
    news = [t for t in gg.calls() if t.callee and t.callee.short.endswith("Graph::new") and t.args]
    adds = [t for t in gg.calls() if t.callee and t.callee.short.endswith("Graph::add_edge")]
    if not news or not adds:
        ctx.anchor_lost("S6", "Graph::new / add_edge in generate_graph")
        return
    n = 0
    for t in news:
        # the GraphSpecs aggregate(s) behind the argument
        sl = gf.slice_local(gf._op_reads(t.args[0]), data_only=True)
        aggs = [s for s in gg.stmts() if s.k == "assign" and s.rv.k == "aggr" and s.rv.j.get("adt", "").endswith("GraphSpecs") and ("L", s.lhs.local) in sl]
        if not aggs:
            ctx.violation("S6", "specs|generate_graph", "the specs of the graph of communities are not built in generate_graph (cannot see their dedupe strategy; fail closed)", loc_str(t.span))
            continue
        for a in aggs:
            n += 1
            fields = a.rv.j.get("fields") or []
            if "edge_dedupe_strategy" not in fields:
                ctx.violation("S6", "specs|generate_graph", "GraphSpecs aggregate without an edge_dedupe_strategy field?", loc_str(a.span))
                continue
            op = a.rv.ops[fields.index("edge_dedupe_strategy")]
            vals = set()
            if op.place is not None and not op.place.proj:
                for (dbb, d) in gg.assigns_to(op.place.local):
                    vals.add(fmt_desc(panic.norm(gf.describe_def(d, depth=6))))
            if not vals:
                vals.add(fmt_desc(panic.norm(gf.describe(op, depth=6))))
            ok = all(v.rstrip("{}() ").endswith("EdgeDedupeStrategy::KeepLast") for v in vals)
            ctx.require(ok, "S6", "specs|generate_graph", "the graph of communities is a KeepLast graph", "the graph of communities gets edge_dedupe_strategy from %s: when it is KeepFirst, the weight of a community edge is that of the member edge that get_all_edges() happens to yield first -- hash order, different from call to call although a seed is given" % sorted(vals), loc_str(a.span))
    ctx.floor("S6", "community_graph_specs", n, 1)


def _fresh_container(fl, site):
    """True when the iterated hash container is created inside the call (an owned local, not a parameter, not a field
    of the graph, not a reference handed out by an accessor): such a container gets new random hash keys on every
    call, so its iteration order differs from call to call on the same graph.  A container that belongs to the graph
    keeps its order for the lifetime of that graph object."""
    b = fl.b
    t = site.create
    if not t.args or t.args[0].place is None:
        return None
    pl = t.args[0].place
    if any(isinstance(e, dict) and "f" in e for e in pl.proj):
        return False
    l = pl.local
    for _ in range(10):
        if l <= b.arg_count:
            return False
        ty = b.local_ty(l)
        d = fl.single_def(l)
        if d is None:
            return not ty.startswith("&")
        rv = getattr(d, "rv", None)
        if rv is not None and rv.k in ("ref", "copyderef"):
            if any(isinstance(e, dict) and "f" in e for e in rv.place.proj):
                return False
            l = rv.place.local
            continue
        if rv is not None and rv.k in ("use", "cast") and rv.ops and rv.ops[0].place is not None:
            if rv.ops[0].place.proj:
                return False
            l = rv.ops[0].place.local
            continue
        if getattr(d, "k", None) == "call":
            nm = d.callee.short.split("::")[-1] if d.callee else ""
            if nm in ("deref", "as_ref", "borrow", "unwrap", "expect", "get", "index", "unwrap_or") and d.args and d.args[0].place is not None:
                l = d.args[0].place.local
                continue
            return not b.local_ty(l).startswith("&")
        return not ty.startswith("&")
    return None


def nonrandomised_order(ctx, prog, flows, effects, seeded_scope):
    """S8 -- the second sentence of the property: "all non-randomised algorithms return the same answer for the same
    graph on every call, up to floating-point rounding of sums".  The one thing that differs between two calls on the
    same graph is the keying of the hash containers CREATED IN THE CALL.  Every order-sensitive use (a positional
    adaptor such as combinations / enumerate / take, a first-match, a push into a sequence, a loop exit) of such a fresh
    container in the query and algorithm modules must be a reviewed one."""
    ctx.rule("S8", "outside the seeded paths, no order-sensitive use of a hash container created inside the call, unless reviewed (fresh containers are keyed anew on every call)")
    review = {}
    try:
        with open(os.path.join(VERIF, "rules", "hashord_review.json")) as f:
            review = {e["key"]: e for e in json.load(f).get("entries_nonrandomised", [])}
    except OSError:
        pass
    bodies = []
    for p, b in prog.bodies.items():
        root = b
        while root.kind == "closure":
            root = prog.bodies[root.item["parent"]]
        if root.short.startswith("algorithms::") or root.short.startswith("graph::"):
            bodies.append(p)
    sites = hashord.find_sites(prog, flows, effects, bodies=bodies)
    n_fresh = 0
    per_key = {}
    for s in sites:
        if not s.random or s.worst() != "ORDER":
            continue
        fr = _fresh_container(flows.of(s.body), s)
        if not fr:
            continue
        n_fresh += 1
        key = "%s|%s" % (s.body.short, s.container[0] + "<" + ",".join(s.container[1]) + ">")
        per_key.setdefault(key, []).append(s)
    for key, ss in sorted(per_key.items()):
        r = review.get(key)
        s = ss[0]
        what = "; ".join(x[2] for s_ in ss for x in s_.consumers if x[1] == "ORDER")[:260]
        if r is not None and r.get("verdict") == "safe" and len(ss) <= int(r.get("count", 1)):
            ctx.ok("S8", key, "reviewed -- " + r["reason"], loc_str(s.create.span))
        else:
            ctx.violation("S8", key, "%s iterates a hash container created inside the call in an order-sensitive way (%s)%s: the container is keyed anew on every call, so two calls on the same graph can return different answers" % (s.body.short, what, "" if r is None else " -- %d such uses, %d reviewed" % (len(ss), int(r.get("count", 1)))), loc_str(s.create.span))
    ctx.counters["fresh_order_sites_outside_seeded_paths"] = n_fresh
    for k in review:
        if k not in per_key:
            ctx.note("S8: reviewed entry `%s` no longer matches a site" % k)


def stored_order(ctx, prog, flows, effects):
    """S9 -- the same sentence, for the containers that live IN the graph object (`successors`, `predecessors`, `edges`:
    std hash containers keyed per object): their order is the same on every call on one object, but differs between
    two copies of the same graph and between processes, which the statement includes ("calls in different processes").
    The traversal stores (`*_map`, `*_vec`) are position-keyed for that reason.  Every order-sensitive use of a stored
    std-hash container that an algorithm can reach must be one of the reviewed ones, whose consumers only count, key
    by name or sum; a new one -- a neighbour list taken from the name-keyed set, say -- makes breadth_first_search and
    whatever else walks that list answer differently for the same graph."""
    ctx.rule("S9", "no order-sensitive use of a std-hash container stored in the graph is reachable from the algorithms, unless reviewed (stored containers are keyed per object and per process)")
    review = {}
    try:
        with open(os.path.join(VERIF, "rules", "hashord_review.json")) as f:
            review = {e["key"]: e for e in json.load(f).get("entries_stored", [])}
    except OSError:
        pass
    roots = [p for p, b in prog.bodies.items() if b.kind != "closure" and b.short.startswith("algorithms::")]
    reach = set(prog.reachable_bodies(roots))

    def rootof(p):
        r = prog.bodies[p]
        while r.kind == "closure":
            r = prog.bodies[r.item["parent"]]
        return r.path

    bodies = sorted(p for p in prog.bodies if rootof(p) in reach)
    sites = hashord.find_sites(prog, flows, effects, bodies=bodies)
    per_key = {}
    for s in sites:
        if not s.random or s.worst() != "ORDER":
            continue
        if _fresh_container(flows.of(s.body), s):
            continue
        gf = _graph_fields_of(flows.of(s.body), s)
        if not gf:
            continue  # a callee's result (the all-pairs map ..), the caller's argument: not a store of the graph
        key = "%s|%s|%s" % (s.body.short, "+".join(sorted(gf)), s.container[0] + "<" + ",".join(s.container[1]) + ">")
        per_key.setdefault(key, []).append(s)
    for key, ss in sorted(per_key.items()):
        r = review.get(key)
        s = ss[0]
        what = "; ".join(x[2] for s_ in ss for x in s_.consumers if x[1] == "ORDER")[:200]
        if r is not None and r.get("verdict") == "safe" and len(ss) <= int(r.get("count", 1)):
            ctx.ok("S9", key, "reviewed -- " + r["reason"][:300], loc_str(s.create.span))
        else:
            ctx.violation("S9", key, "%s lists the items of a std-hash container stored in the graph in an order-sensitive way (%s)%s: that order differs between two copies of the same graph and between processes, and it is reachable from the algorithms (a traversal that walks this list visits, and reports, the nodes in a different order for the same graph)" % (s.body.short, what, "" if r is None else " -- %d such uses, %d reviewed" % (len(ss), int(r.get("count", 1)))), loc_str(s.create.span))
    ctx.floor("S9", "stored_order_sites", sum(len(v) for v in per_key.values()), 4)


GRAPH_HASH_STORES = {"successors", "predecessors", "edges", "nodes_map"}


def _graph_fields_of(fl, s):
    """the std-hashed stores of Graph the iterated container of site `s` is (part of): points-to of the receiver of the
    iteration call, and the Graph fields in its description"""
    from graphrules import field_of

    out = set()
    t = s.create
    if not getattr(t, "args", None):
        return out
    a = t.args[0]
    try:
        for o in fl._operand_pts(a):
            f = field_of(o) if o[0] == "P" else None
            if f in GRAPH_HASH_STORES:
                out.add(f)
    except Exception:
        pass
    try:
        d = fmt_desc(panic.norm(fl.describe(a, depth=10)))
        for f in GRAPH_HASH_STORES:
            import re as _re

            if _re.search(r"\.%s\b" % f, d):
                out.add(f)
    except Exception:
        pass
    return out
