"""C10 -- component functions: the kind-refusal clause only (R-C10-1)."""
from core import ASSUME_RUSTC, ASSUME_PATHS
from flow import Flows
from guard import Guards, check_refusal

LEVEL = "other"
EXPLANATION = (
    "Decides ONE clause of C10: each component function returns an error (never an answer) on the wrong kind of graph. "
    "Rule R-C10-1 (GUARD): in the MIR of connected_components, number_of_connected_components, node_connected_component "
    "(refuse directed) and weakly_/strongly_connected_components (refuse undirected), every block that can produce a non-error "
    "return value is reachable from the entry only through the continue edge of a guard -- a test of specs.directed, or the "
    "Ok/Continue outcome of a call (on the same graph) to a crate function that itself refuses; decided by deleting the edge and "
    "testing CFG reachability, recursively through callees.  NOT decided: that the returned sets are the equivalence classes of "
    "the reachability relation, BFS order/completeness, partition sizes (run-time graph properties)."
)
TRUSTED = ["rustc MIR construction", "CFG paths over-approximate executions"]

TABLE = [
    ("connectivity::connected_components", "directed", True, "directed graphs"),
    ("connectivity::number_of_connected_components", "directed", True, "directed graphs"),
    ("connectivity::node_connected_component", "directed", True, "directed graphs"),
    ("weak_connectivity::weakly_connected_components", "directed", False, "undirected graphs"),
    ("strong_connectivity::strongly_connected_components", "directed", False, "undirected graphs"),
]


def run(ctx):
    prog = ctx.prog
    flows = Flows(prog)
    g = Guards(prog, flows)
    ctx.assume(ASSUME_RUSTC)
    ctx.assume(ASSUME_PATHS)
    ctx.rule("R-C10-1", "every non-error return of a component function is behind the kind guard (edge-deletion reachability)")
    n = 0
    for sfx, field, value, what in TABLE:
        b = prog.one(sfx)
        check_refusal(ctx, g, "R-C10-1", b, field, value, what)
        n += 1
    # the ensure_* helpers themselves
    for sfx, field, value, what in (("Graph::ensure_directed", "directed", False, "undirected graphs"), ("Graph::ensure_undirected", "directed", True, "directed graphs")):
        check_refusal(ctx, g, "R-C10-1", prog.one(sfx), field, value, what)
    ctx.floor("R-C10-1", "component_functions", n, 5)
    ctx.note("bfs_equal_size_partitions and breadth_first_search have no error channel; they cannot refuse and are handled under C20")
