"""C10 -- component functions: the kind-refusal clause only (R-C10-1)."""
from core import ASSUME_RUSTC, ASSUME_PATHS
from flow import Flows
from guard import Guards, check_refusal
from panic import norm as panic_norm
from mir import loc_str

LEVEL = "other"
EXPLANATION = (
    "Decides FOUR clauses of C10 (R-C10-4: in strongly_connected_components every emission of a component is dominated by an operation on each visited-structure that guards a search step, so no node can be emitted where one of them is unaware of it; kind refusal; start nodes enumerated from the node store -- R-C10-2; R-C10-3: the adjacency maps the searches walk are only extended -- an entry is created only for a node that is new, never replaced for an existing one): each component function returns an error (never an answer) on the wrong kind of graph. "
    "Rule R-C10-1 (GUARD): in the MIR of connected_components, number_of_connected_components, node_connected_component "
    "(refuse directed) and weakly_/strongly_connected_components (refuse undirected), every block that can produce a non-error "
    "return value is reachable from the entry only through the continue edge of a guard -- a test of specs.directed, or the "
    "Ok/Continue outcome of a call (on the same graph) to a crate function that itself refuses; decided by deleting the edge and "
    "testing CFG reachability, recursively through callees.  R-C10-8: the position-keyed adjacency sets a search may expand through get the same updates as the name-keyed ones.  R-C10-9: a visited structure assigned as a whole inside a loop derives from its own previous value.  R-C10-12: bfs_equal_size_partitions allocates its list of parts with num_partitions entries, never changes that list's own length and answers entry for entry (the 'k parts' clause).  NOT decided: that the returned sets are the equivalence classes of "
    "the reachability relation, BFS order/completeness, partition sizes (run-time graph properties)."
)
TRUSTED = ["rustc MIR construction", "CFG paths over-approximate executions"]

TABLE = [
    ("connectivity::connected_components", "directed", True, "directed graphs"),
    ("connectivity::number_of_connected_components", "directed", True, "directed graphs"),
    ("connectivity::node_connected_component", "directed", True, "directed graphs"),
    ("weak_connectivity::weakly_connected_components", "directed", False, "undirected graphs"),
    ("strong_connectivity::strongly_connected_components", "directed", False, "undirected graphs"),
]


def run(ctx):
    prog = ctx.prog
    flows = Flows(prog)
    g = Guards(prog, flows)
    ctx.assume(ASSUME_RUSTC)
    ctx.assume(ASSUME_PATHS)
    ctx.rule("R-C10-1", "every non-error return of a component function is behind the kind guard (edge-deletion reachability)")
    n = 0
    for sfx, field, value, what in TABLE:
        b = prog.one(sfx)
        check_refusal(ctx, g, "R-C10-1", b, field, value, what)
        n += 1
    # the ensure_* helpers themselves
    for sfx, field, value, what in (("Graph::ensure_directed", "directed", False, "undirected graphs"), ("Graph::ensure_undirected", "directed", True, "directed graphs")):
        check_refusal(ctx, g, "R-C10-1", prog.one(sfx), field, value, what)
    ctx.floor("R-C10-1", "component_functions", n, 5)
    # ... and the refusal carries ErrorKind::WrongMethod ("each function returns WrongMethod on the other kind of graph")
    from guard import refusal_kinds

    ctx.rule("R-C10-11", "the kind guards reachable from the component functions refuse with ErrorKind::WrongMethod")
    refusal_kinds(ctx, g, "R-C10-11", prog, roots=[prog.one(sfx).path for sfx, _f, _v, _w in TABLE], floor=2)
    # ------------------------------------------------------------------ R-C10-2
    ctx.rule("R-C10-2", "component functions enumerate their start nodes from the node store (every node is a candidate), not from an adjacency map's keys")
    from hashord import natural_loop_blocks
    from mir import loc_str

    for sfx in ("connectivity::connected_components", "weak_connectivity::weakly_connected_components", "strong_connectivity::strongly_connected_components"):
        b = prog.one(sfx)
        fl = flows.of(b)
        pushes = [t for t in b.calls() if t.callee and t.callee.short.endswith("Vec::push") and t.args and t.args[0].place is not None]
        # the vector that is returned
        ret = fl.slice_local([("L", 0)], data_only=True)
        res_pushes = [t for t in pushes if any(o in ret for o in [("L", x[1]) for x in fl._operand_pts(t.args[0]) if x[0] == "L"])]
        outer = None
        loops = []
        for t in b.calls():
            if t.callee and t.callee.short == "std::iter::Iterator::next":
                lb = natural_loop_blocks(b, t.bb)
                if len(lb) > 1 and res_pushes and all(p.bb in lb for p in res_pushes):
                    loops.append((t, lb))
        loops.sort(key=lambda x: -len(x[1]))
        if not loops:
            # the same enumeration written as an adaptor chain: `names.into_iter().filter_map(|v| ..).collect()` -- the
            # collect whose value is returned; its receiver, with the adaptors stripped, is what is enumerated
            import panic as _panic

            base_nm = None
            for t in b.calls():
                if t.callee and t.callee.short.split("::")[-1] in ("collect", "from_iter") and ("L", t.dest.local) in ret and t.args:
                    d = _panic.norm(fl.describe(t.args[0], depth=12))
                    for _ in range(8):
                        if isinstance(d, tuple) and d[0] == "call" and d[1].split("::")[-1] in ("filter_map", "map", "filter", "flat_map", "inspect", "enumerate", "cloned", "copied", "into_iter", "iter") and d[2]:
                            d = d[2][0]
                        else:
                            break
                    if isinstance(d, tuple) and d[0] == "call":
                        base_nm = d[1].split("::")[-1]
            if base_nm is not None:
                ctx.require(base_nm in ("get_all_node_names", "get_all_nodes"), "R-C10-2", "outer-loop|" + b.short, "%s starts a search from every node of the node store" % sfx.split("::")[-1], "%s enumerates its start nodes from %s: a node without an entry there (e.g. an isolated node) ends up in no component" % (sfx.split("::")[-1], base_nm), loc_str(b.span))
                continue
            ctx.violation("R-C10-2", "outer-loop|" + b.short, "%s has no loop around the pushes into its result" % sfx.split("::")[-1], loc_str(b.span))
            continue
        t, lb = loops[0]
        sl = fl.slice_local(fl._op_reads(t.args[0]), data_only=True)
        cal = {b.blocks[n_[1]].term.callee.short.split("::")[-1] for n_ in sl if n_[0] == "CALL" and b.blocks[n_[1]].term.callee}
        ok = bool(cal & {"get_all_node_names", "get_all_nodes"}) and not (cal & {"get_successors_map", "get_predecessors_map", "keys", "get_all_edges"})
        ctx.require(ok, "R-C10-2", "outer-loop|" + b.short, "%s starts a search from every node of the node store" % sfx.split("::")[-1], "%s enumerates its start nodes from %s: a node without an entry there (e.g. an isolated node) ends up in no component" % (sfx.split("::")[-1], sorted(cal)), loc_str(t.span))
    # ------------------------------------------------------------------ R-C10-7
    bfs_expansion(ctx, prog, flows, "R-C10-7", "on a directed graph it then also walks edges backwards and reports the weakly connected component instead of the nodes reachable from x")
    # ------------------------------------------------------------------ R-C10-6
    from graphrules import adjacency_entry_targets_agree

    adjacency_entry_targets_agree(ctx, prog, flows, "R-C10-6", "a node then lists a wrong neighbour (itself) in the traversal list the searches walk, loses the real one, and a component is split or reported twice")
    # ------------------------------------------------------------------ R-C10-5
    from graphrules import enumerate_counters_as_positions

    enumerate_counters_as_positions(ctx, prog, flows, "R-C10-5", ("algorithms::components", "graph::"), "the visited flags are read for one node and set for another, so a component is emitted twice and another one never")
    # ------------------------------------------------------------------ R-C10-4
    # A search that keeps more than one "visited" structure (Tarjan-style: preorder numbers decide whether the
    # descent enters a node, the set of finished nodes decides where a new search starts) emits each node once only
    # if every emission happens where ALL of them have been consulted for the emitted root: an emission reached
    # without touching one of them leaves that structure unaware of the node, and a later search enters and emits it
    # again.
    ctx.rule("R-C10-4", "strongly_connected_components: every emission of a component is dominated by a test of / an insertion into each visited-structure that guards a search step")
    scc = prog.one("strong_connectivity::strongly_connected_components")
    sf = flows.of(scc)
    from props.c01 import controlling_atoms as _ca
    from flow import fmt_desc as _fd

    ret = sf.slice_local([("L", 0)], data_only=True)

    def recv_locals(t):
        return {o[1] for o in sf._operand_pts(t.args[0]) if o[0] == "L"} if t.args and t.args[0].place is not None else set()

    pushes = [t for t in scc.calls() if t.callee and t.callee.short.endswith("Vec::push")]
    emits = [t for t in pushes if any(("L", l) in ret and scc.local_ty(l).startswith("std::vec::Vec<std::collections::HashSet<") for l in recv_locals(t))]
    work_pushes = [t for t in pushes if t not in emits]
    guards = {}  # local of the visited-structure -> blocks that operate on it

    def struct_local(te):
        """the local behind the receiver of a contains / contains_key test (found through the test's call)"""
        return None

    # visited-structures: receivers of contains / contains_key calls whose outcome controls a push onto a work list,
    # or controls the creation of the work list (the decision to start a new search)
    tests = [t for t in scc.calls() if t.callee and t.callee.short.split("::")[-1] in ("contains_key", "contains") and t.args]
    controlled = set()
    for t in work_pushes:
        controlled |= {a for (a, s_) in scc.transitive_control_deps(t.bb) if not isinstance(a, tuple)}
    for blk in scc.normal_blocks():
        if blk.term.k == "call" and blk.term.callee and ("from_elem" in blk.term.callee.short or blk.term.callee.short.endswith("into_vec") or blk.term.callee.short.endswith("Vec::new")) and "Vec<&" in blk.term.dest.ty:
            controlled |= {a for (a, s_) in scc.transitive_control_deps(blk.i) if not isinstance(a, tuple)}
    for t in tests:
        # does this test's result feed one of the controlling switches?
        for a in controlled:
            sl = sf.slice_local(sf._op_reads(scc.blocks[a].term.discr), data_only=True)
            if ("CALL", t.bb) in sl:
                for l in recv_locals(t):
                    if "HashMap<" in scc.local_ty(l) or "HashSet<" in scc.local_ty(l):
                        guards.setdefault(l, set())
    for t in scc.calls():
        if t.callee and t.callee.short.split("::")[-1] in ("contains_key", "contains", "insert", "get", "entry", "union", "extend"):
            for l in recv_locals(t):
                if l in guards:
                    guards[l].add(t.bb)
    # a structure that is replaced wholesale (`found = found.union(..).collect()`) is also updated where it is assigned
    for l in guards:
        for (dbb, d) in scc.assigns_to(l):
            guards[l].add(dbb)
    # only operations inside the loop over the start nodes count (the creation of the structure before the loop
    # dominates everything and says nothing)
    outer_blocks = set()
    for t in scc.calls():
        if t.callee and t.callee.short == "std::iter::Iterator::next":
            lb = natural_loop_blocks(scc, t.bb)
            if emits and all(e.bb in lb for e in emits) and len(lb) > len(outer_blocks):
                outer_blocks = set(lb)
    if outer_blocks:
        guards = {l: {x for x in v if x in outer_blocks} for l, v in guards.items()}
    guards = {(scc.local_name(l) or "_%d" % l): v for l, v in guards.items()}
    ctx.counters["scc_visited_structures"] = sorted(guards)
    n_em = 0
    for t in emits:
        n_em += 1
        missing = [g for g, bbs in sorted(guards.items()) if not any(scc.dominates(x, t.bb) for x in bbs)]
        ctx.require(not missing, "R-C10-4", "emission|%d" % n_em, "the emission is dominated by an operation on each of %s" % sorted(guards), "a component is emitted on a path that never consults %s: the search later enters that node again and emits it a second time (the components are then not disjoint)" % missing, loc_str(t.span))
    ctx.floor("R-C10-4", "emissions", n_em, 1)
    ctx.floor("R-C10-4", "visited_structures", len(guards), 1)

    visited_sets_only_grow(ctx, prog, flows)
    lowlink_only_decreases(ctx, prog, flows)
    parts_count(ctx, prog, flows)

    # ------------------------------------------------------------------ R-C10-3
    from graphrules import adjacency_entries_only_for_new_nodes

    adjacency_entries_only_for_new_nodes(ctx, prog, flows, "R-C10-3", "so searches that walk `%s` stop at that node")
    from graphrules import adjacency_set_updates_agree

    adjacency_set_updates_agree(ctx, prog, flows, "R-C10-8", "a search that expands a node through the position-keyed sets then misses an undirected edge whose endpoints were given in descending order, while the component algorithms that read the name-keyed maps still see it: the same graph gets different components / reachable sets from different entry points")
    ctx.note("bfs_equal_size_partitions and breadth_first_search have no error channel; they cannot refuse and are handled under C20")


def visited_sets_only_grow(ctx, prog, flows):
    """R-C10-9.  Every component enumeration keeps a structure of the nodes it has already assigned and asks it
    (`contains`) before it starts a new search.  "The components are pairwise disjoint" needs that structure to be
    MONOTONE over the enumeration loop: inside a loop it may be extended in place (insert / extend) or replaced by a value
    computed from itself (`seen = seen.union(&found).cloned().collect()`), never by a value that forgets it
    (`seen = found.clone()`: a node of an earlier component that comes later in the node order is then searched and
    emitted again)."""
    from hashord import natural_loop_blocks

    ctx.rule("R-C10-9", "inside the enumeration loops a visited structure is only extended: a whole assignment to it derives from its own previous value")
    n = 0
    for p in sorted(prog.bodies):
        b = prog.bodies[p]
        root = b
        while root.kind == "closure":
            root = prog.bodies[root.item["parent"]]
        if not root.short.startswith("algorithms::components::") and not root.short.endswith("breadth_first_search"):
            continue
        fl = flows.of(b)
        visited = set()
        for t in b.calls():
            if t.callee and t.callee.short.split("::")[-1] in ("contains", "contains_key") and t.args and t.args[0].place is not None:
                for o in fl._operand_pts(t.args[0]):
                    if o[0] == "L" and b.local_name(o[1]) and any(k in b.local_ty(o[1]) for k in ("HashSet<", "HashMap<", "BTreeSet<", "BTreeMap<")) and not b.local_ty(o[1]).startswith("&"):
                        visited.add(o[1])
        if not visited:
            continue
        loops = []
        for t in b.calls():
            if t.callee and t.callee.short == "std::iter::Iterator::next":
                lb = natural_loop_blocks(b, t.bb)
                if len(lb) > 1:
                    loops.append(lb)
        for blk in b.normal_blocks():
            for s_ in b.succ(blk.i):
                if b.dominates(s_, blk.i):
                    lb = natural_loop_blocks(b, s_)
                    if len(lb) > 1 and lb not in loops:
                        loops.append(lb)
        for l in sorted(visited):
            for (bb, d) in b.assigns_to(l):
                if getattr(d, "k", None) != "call" and d.lhs.proj:
                    continue
                if not any(bb in lb for lb in loops):
                    continue
                n += 1
                ops = d.args if getattr(d, "k", None) == "call" else ([_o for _o in d.rv.ops] if d.rv is not None else [])
                reads = set()
                for o in ops:
                    reads |= set(fl._op_reads(o))
                if getattr(d, "k", None) != "call" and d.rv.place is not None:
                    reads |= set(fl._place_reads(d.rv.place))
                sl = fl.slice_local(reads, data_only=True)
                ctx.require(("L", l) in sl, "R-C10-9", "visited|%s|%s" % (b.short, b.local_name(l)), "`%s` is replaced in %s by a value computed from itself" % (b.local_name(l), b.short.split("::")[-1]),
                            "in %s the visited structure `%s` is replaced inside the loop by a value that does not derive from its previous contents: nodes assigned earlier are forgotten, a later start node that belongs to an earlier component is searched again and that component is emitted twice (the components are no longer disjoint, their sizes add up to more than the node count)" % (b.short, b.local_name(l)), loc_str(d.span))
    ctx.note("R-C10-9 found %d whole assignments to visited structures inside loops" % n)


def bfs_expansion(ctx, prog, flows, rid, consequence):
    """shared by C10 (reachable set) and C02 (breadth_first_search agrees with the successor queries)"""
    # "breadth_first_search(x) lists every node reachable from x": on a directed graph reachability follows the edges'
    # direction, so the search expands a node through its successors (all neighbours only when undirected)
    ctx.rule(rid, "breadth_first_search expands a node through get_successors_or_neighbors (successors on directed graphs), never through predecessors or the undirected neighbour query")
    from props.c01 import controlling_atoms as _ca

    bfs = prog.one("query::Graph::breadth_first_search")
    own7 = [bfs] + list(prog.closures_of(bfs.path))
    cal7 = set()
    und_ok7 = set()
    for b7 in own7:
        f7 = flows.of(b7)
        for t7 in b7.calls():
            tp7 = t7.callee.target_path(prog) if t7.callee else None
            if tp7:
                nm7 = prog.bodies[tp7].short.split("::")[-1]
                if nm7 == "get_neighbor_nodes" and any(isinstance(te, tuple) and te[0] == "place" and te[1].endswith("specs.directed") and v is False for (te, v, a) in _ca(f7, t7.bb)):
                    und_ok7.add(nm7)  # explicitly the undirected arm
                    continue
                if nm7 in ("get_successor_nodes", "get_successor_nodes_by_index") and any(isinstance(te, tuple) and te[0] == "place" and te[1].endswith("specs.directed") and v is True for (te, v, a) in _ca(f7, t7.bb)):
                    nm7 = "get_successors_or_neighbors"
                cal7.add(nm7)
    from graphrules import field_of as _fo

    fs7 = set()
    for (bp7, nd7) in flows.slice(bfs.path, [("L", 0)], up=False, down="clos", data_only=True):
        if nd7[0] == "SRC":
            fs7.add(_fo(("P", nd7[1], nd7[2])))
    good7 = cal7 & {"get_successors_or_neighbors", "get_successors_or_neighbors_by_index"}
    bad7 = sorted((cal7 & {"get_neighbor_nodes", "get_predecessor_nodes", "get_predecessor_nodes_by_index", "get_predecessor_node_names", "get_predecessors_map", "get_in_edges_for_node", "get_edges_for_node"}) | (fs7 & {"predecessors", "predecessors_map", "predecessors_vec"}))
    ctx.require(bool(good7) and not bad7, rid, "expansion", "breadth_first_search expands through %s" % sorted(good7), "breadth_first_search expands a node through %s: " % (bad7 or sorted(cal7)) + consequence, loc_str(bfs.span))


def lowlink_only_decreases(ctx, prog, flows):
    """R-C10-10 (sibling arms).  Tarjan's lowlink of v is lowered, neighbour by neighbour, to min(lowlink[v], ..): it never
    goes up.  In strongly_connected_components the new value is chosen by a match on how the neighbour's preorder
    compares with v's; where one arm computes a minimum that includes the entry's own previous value, every arm must --
    an arm that stores a plain value (say preorder[v] for a self-loop) can RAISE the lowlink again and forget what an
    earlier neighbour contributed: a node in the middle of a cycle is then taken for the root of a component of its own."""
    ctx.rule("R-C10-10", "in strongly_connected_components every arm that chooses the new lowlink of v computes a minimum that includes lowlink[v]")
    b = prog.find("strong_connectivity::strongly_connected_components")
    if not b:
        return
    b = b[0]
    fl = flows.of(b)
    n = 0
    for t in b.calls():
        if not (t.callee and t.callee.short.endswith("HashMap::insert") and len(t.args) >= 3 and t.args[2].place is not None and not t.args[2].place.proj):
            continue
        recv = {o[1] for o in fl._operand_pts(t.args[0]) if o[0] == "L"}
        vl = t.args[2].place.local
        # the value: a local with one definition per arm (follow one plain copy)
        for _ in range(6):
            ds = b.assigns_to(vl)
            if len(ds) != 1:
                break
            d1 = ds[0][1]
            rv1 = getattr(d1, "rv", None)
            if rv1 is not None and rv1.k == "use" and rv1.ops[0].place is not None and not rv1.ops[0].place.proj:
                vl = rv1.ops[0].place.local
            elif rv1 is not None and rv1.k in ("ref", "copyderef") and rv1.place is not None and all(e == "*" for e in rv1.place.proj):
                vl = rv1.place.local
            elif getattr(d1, "k", None) == "call" and d1.callee and d1.callee.short.split("::")[-1] in ("clone", "copied", "cloned", "deref", "to_owned") and d1.args and d1.args[0].place is not None:
                vl = d1.args[0].place.local
            else:
                break
        ds = b.assigns_to(vl)
        if len(ds) < 2:
            continue
        arms = []
        for (bb, d) in ds:
            rd = set()
            if getattr(d, "k", None) == "call":
                for a in d.args:
                    rd |= set(fl._op_reads(a))
                names0 = {d.callee.short.split("::")[-1]} if d.callee else set()
            else:
                for o in d.rv.ops:
                    rd |= set(fl._op_reads(o))
                if d.rv.place is not None:
                    rd |= set(fl._place_reads(d.rv.place))
                names0 = set()
            # only what THIS arm computes: the calls between the arm's entry and its definition (same basic-block chain)
            # what THIS arm computes: the calls of the straight-line region between the arm's entry and the definition
            ent_ = _arm_entries(b, bb)
            dom_ = [c for c in b.calls() if c.callee and any(b.dominates(x, c.bb) for x in ent_) and (c.bb == bb or bb in b.reachable_from(c.bb))]
            names = names0 | {c.callee.short.split("::")[-1] for c in dom_}
            own_prev = any(c.callee.short.split("::")[-1] == "get" and c.args and any(o[0] == "L" and o[1] in recv for o in fl._operand_pts(c.args[0])) for c in dom_)
            arms.append((bb, d, "min" in names, own_prev))
        if not any(a[2] for a in arms):
            continue
        n += 1
        bad = [a for a in arms if not (a[2] and a[3])]
        ctx.require(not bad, "R-C10-10", "lowlink-arms|%d" % n, "all %d arms store min(previous value, ..)" % len(arms),
                    "an arm of strongly_connected_components stores a new lowlink that is not a minimum including the entry's previous value (%d of %d arms are): the lowlink of a node can go up again, a node inside a cycle is taken for a component root and one strong component is reported as several" % (len(arms) - len(bad), len(arms)), loc_str(bad[0][1].span) if bad else loc_str(t.span))
    ctx.counters["lowlink_updates"] = n


def _arm_entries(b, bb):
    """the block that starts the arm ending in bb: walk back until the predecessor is a switch (or there are several)"""
    x = bb
    seen = set()
    while x not in seen:
        seen.add(x)
        ps = [p for p in b.pred(x)]
        if len(ps) != 1 or b.blocks[ps[0]].term.k == "switch":
            break
        x = ps[0]
    return {x}


LEN_CHANGING = ("push", "pop", "truncate", "remove", "swap_remove", "retain", "retain_mut", "clear", "insert", "drain", "dedup", "dedup_by", "dedup_by_key",
                "resize", "resize_with", "extend", "extend_from_slice", "append", "split_off")
ONE_TO_ONE = ("map", "collect", "next", "into_iter", "enumerate", "cloned", "copied", "for_each", "iter", "iter_mut", "rev", "len", "size_hint", "inspect")


def parts_count(ctx, prog, flows):
    """R-C10-12.  "bfs_equal_size_partitions(k) places every node in exactly one of k parts": the number of parts is a
    run-time quantity, but that it equals k is visible in the shape of the code -- the list of parts is allocated with k
    (empty) parts, its own length is never changed afterwards (only the parts are pushed to) and the answer is made from
    it one part for one part.  Parts opened lazily, or empty parts filtered from the answer, give fewer than k parts
    whenever the nodes run out before the last part is reached (n=10, k=5: parts of 3, 3, 3, 1)."""
    ctx.rule("R-C10-12", "bfs_equal_size_partitions allocates its list of parts with num_partitions entries, never changes that list's own length, and answers with one part per entry")
    b = prog.find("weak_connectivity::bfs_equal_size_partitions")
    if not b:
        ctx.floor("R-C10-12", "partition_functions", 0, 1)
        return
    b = b[0]
    fl = flows.of(b)
    pn = b.param_names()
    kname = pn[1] if len(pn) > 1 else None
    allocs = []
    for t in b.calls():
        ga = (t.callee.args or []) if t.callee else []
        if t.callee and t.callee.short.endswith("vec::from_elem") and ga and ga[0].startswith("std::vec::Vec<"):
            d = panic_norm(fl.describe(t.args[1], depth=4)) if len(t.args) > 1 else None
            allocs.append((t, d == ("place", kname)))
    ok_alloc = len(allocs) == 1 and allocs[0][1]
    ctx.require(ok_alloc, "R-C10-12", "allocated-with-k", "the list of parts is vec![<empty part>; %s]" % kname,
                "bfs_equal_size_partitions does not allocate its list of parts with `%s` entries (%d list(s) of lists made by vec![..; n], %d with that count): the number of parts returned is then decided by the search, not by the caller" % (kname, len(allocs), sum(1 for a in allocs if a[1])), loc_str((allocs[0][0] if allocs else b).span))
    names = {b.local_name(t.dest.local) for t, _ok in allocs if getattr(t.dest, "local", None) is not None} - {None}
    bad = []
    n_inner = 0
    for t in b.calls():
        if not t.callee or not t.args:
            continue
        sh = t.callee.short
        ga = t.callee.args or []
        last = sh.split("::")[-1]
        if "vec::Vec::" in sh and last in LEN_CHANGING:
            d = panic_norm(fl.describe(t.args[0], depth=3))
            if d[0] == "place" and d[1] in names:
                bad.append((t, "%s on the list of parts" % last))
            elif d[0] == "call" and d[1].endswith("index_mut") and d[2] and d[2][0][0] == "place" and d[2][0][1] in names:
                n_inner += 1
        elif "iter::Iterator::" in sh and last not in ONE_TO_ONE and ga and ("Iter<'_, std::vec::Vec<usize>>" in ga[0] or "IntoIter<std::vec::Vec<usize>" in ga[0]):
            bad.append((t, "the adaptor %s over the list of parts" % last))
    ctx.require(not bad, "R-C10-12", "length-fixed", "the list of parts keeps its %s entries: only the parts themselves grow (%d pushes into a part) and the answer maps it entry for entry" % (kname, n_inner),
                "bfs_equal_size_partitions changes the number of parts after allocating them (%s): when the nodes run out before the last part is reached (n=10, k=5) -- or a part stays empty -- the answer does not have `%s` parts" % ("; ".join(sorted({w for _t, w in bad})), kname), loc_str(bad[0][0].span) if bad else loc_str(b.span))
    ctx.counters["pushes_into_a_part"] = n_inner
