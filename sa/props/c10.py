"""C10 -- component functions: the kind-refusal clause only (R-C10-1)."""
from core import ASSUME_RUSTC, ASSUME_PATHS
from flow import Flows
from guard import Guards, check_refusal

LEVEL = "other"
EXPLANATION = (
    "Decides THREE clauses of C10 (kind refusal; start nodes enumerated from the node store -- R-C10-2; R-C10-3: the adjacency maps the searches walk are only extended -- an entry is created only for a node that is new, never replaced for an existing one): each component function returns an error (never an answer) on the wrong kind of graph. "
    "Rule R-C10-1 (GUARD): in the MIR of connected_components, number_of_connected_components, node_connected_component "
    "(refuse directed) and weakly_/strongly_connected_components (refuse undirected), every block that can produce a non-error "
    "return value is reachable from the entry only through the continue edge of a guard -- a test of specs.directed, or the "
    "Ok/Continue outcome of a call (on the same graph) to a crate function that itself refuses; decided by deleting the edge and "
    "testing CFG reachability, recursively through callees.  NOT decided: that the returned sets are the equivalence classes of "
    "the reachability relation, BFS order/completeness, partition sizes (run-time graph properties)."
)
TRUSTED = ["rustc MIR construction", "CFG paths over-approximate executions"]

TABLE = [
    ("connectivity::connected_components", "directed", True, "directed graphs"),
    ("connectivity::number_of_connected_components", "directed", True, "directed graphs"),
    ("connectivity::node_connected_component", "directed", True, "directed graphs"),
    ("weak_connectivity::weakly_connected_components", "directed", False, "undirected graphs"),
    ("strong_connectivity::strongly_connected_components", "directed", False, "undirected graphs"),
]


def run(ctx):
    prog = ctx.prog
    flows = Flows(prog)
    g = Guards(prog, flows)
    ctx.assume(ASSUME_RUSTC)
    ctx.assume(ASSUME_PATHS)
    ctx.rule("R-C10-1", "every non-error return of a component function is behind the kind guard (edge-deletion reachability)")
    n = 0
    for sfx, field, value, what in TABLE:
        b = prog.one(sfx)
        check_refusal(ctx, g, "R-C10-1", b, field, value, what)
        n += 1
    # the ensure_* helpers themselves
    for sfx, field, value, what in (("Graph::ensure_directed", "directed", False, "undirected graphs"), ("Graph::ensure_undirected", "directed", True, "directed graphs")):
        check_refusal(ctx, g, "R-C10-1", prog.one(sfx), field, value, what)
    ctx.floor("R-C10-1", "component_functions", n, 5)
    # ------------------------------------------------------------------ R-C10-2
    ctx.rule("R-C10-2", "component functions enumerate their start nodes from the node store (every node is a candidate), not from an adjacency map's keys")
    from hashord import natural_loop_blocks
    from mir import loc_str

    for sfx in ("connectivity::connected_components", "weak_connectivity::weakly_connected_components", "strong_connectivity::strongly_connected_components"):
        b = prog.one(sfx)
        fl = flows.of(b)
        pushes = [t for t in b.calls() if t.callee and t.callee.short.endswith("Vec::push") and t.args and t.args[0].place is not None]
        # the vector that is returned
        ret = fl.slice_local([("L", 0)], data_only=True)
        res_pushes = [t for t in pushes if any(o in ret for o in [("L", x[1]) for x in fl._operand_pts(t.args[0]) if x[0] == "L"])]
        outer = None
        loops = []
        for t in b.calls():
            if t.callee and t.callee.short == "std::iter::Iterator::next":
                lb = natural_loop_blocks(b, t.bb)
                if len(lb) > 1 and res_pushes and all(p.bb in lb for p in res_pushes):
                    loops.append((t, lb))
        loops.sort(key=lambda x: -len(x[1]))
        if not loops:
            ctx.violation("R-C10-2", "outer-loop|" + b.short, "%s has no loop around the pushes into its result" % sfx.split("::")[-1], loc_str(b.span))
            continue
        t, lb = loops[0]
        sl = fl.slice_local(fl._op_reads(t.args[0]), data_only=True)
        cal = {b.blocks[n_[1]].term.callee.short.split("::")[-1] for n_ in sl if n_[0] == "CALL" and b.blocks[n_[1]].term.callee}
        ok = bool(cal & {"get_all_node_names", "get_all_nodes"}) and not (cal & {"get_successors_map", "get_predecessors_map", "keys", "get_all_edges"})
        ctx.require(ok, "R-C10-2", "outer-loop|" + b.short, "%s starts a search from every node of the node store" % sfx.split("::")[-1], "%s enumerates its start nodes from %s: a node without an entry there (e.g. an isolated node) ends up in no component" % (sfx.split("::")[-1], sorted(cal)), loc_str(t.span))
    # ------------------------------------------------------------------ R-C10-3
    ctx.rule("R-C10-3", "the adjacency maps the searches walk are only ever extended: a whole-entry insert into them happens only for a node that is new")
    from effects import Effects
    from engines import canon_exists
    from graphrules import index_events, direct_index_access, SUCC, PRED
    from props.c01 import controlling_atoms
    from flow import fmt_desc

    effects = Effects(prog, flows)
    n_ins = 0
    for p in sorted(direct_index_access(prog)):
        b = prog.bodies[p]
        fl = flows.of(b)
        for (bb, site, f, k) in index_events(effects, b):
            if f not in (SUCC | PRED) or f.endswith("_vec") or k != "HashMap::insert":
                continue
            if getattr(site, "k", None) != "call" or not site.callee or not site.callee.short.endswith("HashMap::insert"):
                continue
            # only inserts on the store itself (an entry of the OUTER map), not into a neighbour set
            rd = fl.field_path(site.args[0].place) if site.args and site.args[0].place is not None else ""
            n_ins += 1
            fresh = False
            for (t, v, a) in controlling_atoms(fl, bb):
                ce = canon_exists(fl, t, v, a)
                if ce is not None and ce[2] is False and (fmt_desc(ce[0]).endswith("nodes_map") or fmt_desc(ce[0]).endswith(f)):
                    fresh = True
            ctx.require(fresh, "R-C10-3", "insert|%s|%s" % (b.short, f), "the entry of `%s` is (re)created in %s only for a key that is not present yet" % (f, b.short.split("::")[-1]), "`%s`.insert in %s is not limited to new nodes: re-adding an existing node replaces its adjacency entry with a fresh one, so searches that walk `%s` stop at that node" % (f, b.short, f), loc_str(site.span))
    ctx.floor("R-C10-3", "adjacency_entry_inserts", n_ins, 2)
    ctx.note("bfs_equal_size_partitions and breadth_first_search have no error channel; they cannot refuse and are handled under C20")
