"""C19 -- the GraphML reader never panics (for the crate's own code)."""
from core import ASSUME_RUSTC, ASSUME_PATHS
from flow import Flows, L, fmt_desc
from effects import Effects
import panic
from panic import enumerate_sites, origin_of, existence_guard, load_review, norm_str, shape_str
from mir import loc_str, short
from hashord import natural_loop_blocks

LEVEL = "other"
EXPLANATION = (
    "Sound enumeration of the crate's own panic-capable operations reachable from read_graphml_string (unwrap/expect, "
    "explicit panics, Index/IndexMut and panicking std calls, MIR Assert terminators), each required to be (a) discharged "
    "automatically by a dominating existence guard on the same map and key (decided by edge deletion on the CFG), or (b) listed "
    "in the reviewed table rules/panic_review.json with a reason, keyed by function/callee/receiver/key and never by line; an "
    "undischarged, unreviewed site whose operand derives from the input document (inter-procedural data slice back to the `string` "
    "parameter) is a violation.  Also decided: the crate call graph reachable from the reader is acyclic (no recursion, bounded "
    "stack use by the crate's code); every CFG cycle in the reader's bodies contains a call that consumes input "
    "(Reader::read_event_into) or advances a finite iterator; the loop has an exit to the graph constructor; the directedness "
    "passed to the constructor depends on the document's edgedefault attribute with matching polarity.  R-C19-7: a trip through the event loop that appends a node in the Start handler takes the \"edge\" value away from the last-element marker.  R-C19-8: attribute values are taken through unescape_value, never from the raw bytes.  NOT decided: that quick-xml "
    "itself never panics or loops; that the returned graph contains exactly the document's elements (value-level)."
)
TRUSTED = [
    "quick-xml neither panics nor loops on any input and read_event_into consumes input on every call",
    "std HashMap::get returns Some after contains_key returned true on the same unmodified map",
    "rustc MIR construction",
]

ENTRY = "graphml::read_graphml_string"


def run(ctx):
    prog = ctx.prog
    flows = Flows(prog)
    ctx.assume(ASSUME_RUSTC)
    ctx.assume(ASSUME_PATHS)
    root = prog.one(ENTRY)
    reach = prog.reachable_bodies([root.path])
    review = load_review()

    # ------------------------------------------------------------------ R-C19-1
    ctx.rule("R-C19-1", "every panic-capable site reachable from the reader is guard-discharged or reviewed; input-derived ones must be")
    n_sites = 0
    n_auto = 0
    unreviewed = []
    groups = {}
    for p in sorted(reach):
        b = prog.bodies[p]
        fl = flows.of(b)
        for s in enumerate_sites(b):
            n_sites += 1
            s.origin = origin_of(fl, s)
            o = s.origin
            g = None
            if s.kind == "unwrap" and isinstance(o, tuple) and o[0] == "call" and len(o[2]) >= 2:
                g = existence_guard(fl, s, o[2][0], o[2][1])
            if g:
                n_auto += 1
                ctx.ok("R-C19-1", s.key() + "|guarded", "%s of %s in %s: %s" % (s.what, norm_str(o), b.short.split("::")[-1], g), s.site())
                continue
            groups.setdefault(s.key(), []).append((b, fl, s))
    for key, lst in sorted(groups.items()):
        r = review.get(key)
        b, fl, s = lst[0]
        if r is not None and r.get("verdict") == "safe" and len(lst) <= r.get("count", 1):
            ctx.ok("R-C19-1", key, "%d site(s) %s(%s) in %s: reviewed safe -- %s" % (len(lst), s.what, norm_str(s.origin), b.short.split("::")[-1], r["reason"]), s.site())
            continue
        surplus = lst if r is None or r.get("verdict") != "safe" else lst[r.get("count", 1):]
        why = "" if r is None else " (%d sites, only %d reviewed)" % (len(lst), r.get("count", 1))
        for (b, fl, s) in surplus:
            if is_tainted(flows, root, b, fl, s):
                ctx.violation(
                    "R-C19-1",
                    key,
                    "%s on an input-derived value with no dominating guard%s: %s(%s) in %s -- a document can make the reader panic" % (s.kind, why, s.what, norm_str(s.origin), b.short),
                    s.site(),
                )
            else:
                unreviewed.append((key, s.site()))
                ctx.info("R-C19-1", key, "unreviewed, not input-derived panic site %s(%s) in %s" % (s.what, norm_str(s.origin), b.short), s.site())
    last_mut_invariant(ctx, prog, flows, root, groups)
    ctx.counters["panic_sites_in_scope"] = n_sites
    ctx.counters["auto_discharged"] = n_auto
    ctx.counters["unreviewed_untainted"] = len(unreviewed)
    ctx.floor("R-C19-1", "panic_sites_in_scope", n_sites, 8)
    ctx.floor("R-C19-1", "bodies_in_scope", len(reach), 10)

    # ------------------------------------------------------------------ R-C19-2 no recursion
    ctx.rule("R-C19-2", "the crate call graph reachable from the reader is acyclic (no recursion)")
    cg = prog.call_graph()
    rec = [c for c in prog.sccs(reach) if len(c) > 1 or (c[0] in cg.get(c[0], ()))]
    if rec:
        for c in rec:
            ctx.violation("R-C19-2", "scc|" + "+".join(sorted(short(x) for x in c)), "recursion among %s reachable from the reader" % [short(x) for x in c])
    else:
        ctx.ok("R-C19-2", "acyclic", "%d bodies reachable from %s, call graph acyclic" % (len(reach), ENTRY))

    # ------------------------------------------------------------------ R-C19-3 progress
    ctx.rule("R-C19-3", "every CFG cycle in the reader's bodies contains a call that consumes input or advances a finite iterator; the main loop can exit to the constructor")
    PROGRESS = ("read_event_into", "Iterator::next", "DoubleEndedIterator::next_back")
    for p in sorted(reach):
        b = prog.bodies[p]
        prog_blocks = {blk.i for blk in b.normal_blocks() if blk.term.k == "call" and blk.term.callee and any(blk.term.callee.short.endswith(x) for x in PROGRESS)}
        cyc = has_cycle_avoiding(b, prog_blocks)
        if cyc is None:
            if any(b.dominates(s, blk.i) for blk in b.normal_blocks() for s in b.succ(blk.i)):
                ctx.ok("R-C19-3", "cycles|" + b.short, "every cycle of %s passes a progress call" % b.short, loc_str(b.span))
        else:
            ctx.violation("R-C19-3", "cycles|" + b.short, "%s has a CFG cycle through bb%d without an input-consuming / iterator-advancing call" % (b.short, cyc), loc_str(b.blocks[cyc].term.span))
    # the main loop: header = block calling read_event_into inside a cycle; exits reach the constructor
    headers = [blk.i for blk in root.normal_blocks() if blk.term.k == "call" and blk.term.callee and blk.term.callee.short.endswith("read_event_into") and len(natural_loop_blocks(root, blk.i)) > 1]
    loops = {h: natural_loop_blocks(root, h) for h in headers}
    if not ctx.floor("R-C19-3", "reader_loops", len(loops), 1):
        return
    ctor = [t for t in root.calls() if t.callee and t.callee.short.endswith("Graph::new_from_nodes_and_edges")]
    for h, lb in loops.items():
        exits = [(x, s) for x in lb for s in root.succ(x) if s not in lb]
        reach_ctor = any(ctor and ctor[0].bb in root.reachable_from(s) for (_, s) in exits)
        ctx.require(bool(exits) and reach_ctor, "R-C19-3", "loop-exit", "the event loop has %d exits and one reaches Graph::new_from_nodes_and_edges" % len(exits), "the event loop cannot reach the constructor", loc_str(root.blocks[h].term.span))

    # ------------------------------------------------------------------ R-C19-5 the result is built by the mutators
    ctx.rule("R-C19-5", "the graph the reader returns is built by Graph::new_from_nodes_and_edges, which changes it only through add_node / add_edge (so the document's elements are subject to the specs, C01)")
    from graphrules import direct_index_access

    ctor_b = prog.one("creation::Graph::new_from_nodes_and_edges")
    direct = direct_index_access(prog)
    ctx.require(ctor_b.path not in direct, "R-C19-5", "constructor-through-mutators", "the constructor touches no index field itself", "new_from_nodes_and_edges writes the index fields %s itself instead of going through add_node / add_edge: a document that repeats a node id yields a graph holding that node twice" % sorted(direct.get(ctor_b.path, {})), loc_str(ctor_b.span))
    rets = [t for t in root.calls() if t.callee and t.callee.target_path(prog) == ctor_b.path]
    ctx.require(len(rets) >= 1, "R-C19-5", "reader-uses-constructor", "the reader hands its nodes and edges to the checked constructor", "the reader no longer builds its result with new_from_nodes_and_edges", loc_str(root.span))

    # ------------------------------------------------------------------ R-C19-8 attribute values are unescaped
    ctx.rule("R-C19-8", "the names the reader stores are the UNESCAPED attribute values (entity and character references resolved)")
    from props.c14 import attribute_values_unescaped

    attribute_values_unescaped(ctx, prog, "R-C19-8", root, "two spellings of one name (`a&amp;b`, `a&#38;b`) become two nodes, and a malformed reference is accepted instead of being reported as an error")

    # ------------------------------------------------------------------ R-C19-6 look-ahead only after an opening tag
    # "the graph contains exactly the node and edge elements of the document": the reader consumes one EXTRA event
    # (the text of a <data> element) inside the handler of an event.  That is harmless after an opening tag -- the next
    # event belongs to the element -- but after a self-closed element (Event::Empty) the next event is the following
    # sibling, which would be dropped from the document.
    ctx.rule("R-C19-6", "the reader's look-ahead read (the text of <data>) happens only in the handler of Event::Start, never of Event::Empty")
    hir = root.item.get("hir") or {}

    def inside(inner, outer):
        return inner and outer and inner["file"] == outer["file"] and (outer["line"], outer["col"]) <= (inner["line"], inner["col"]) and (inner["eline"], inner["ecol"]) <= (outer["eline"], outer["ecol"])

    def event_variants(pat, out):
        if isinstance(pat, dict):
            for k in ("ts", "path", "st"):
                v = pat.get(k)
                if isinstance(v, str) and "::Event::" in v:
                    out.add(v.split("::")[-1])
            for v in pat.values():
                event_variants(v, out)
        elif isinstance(pat, list):
            for v in pat:
                event_variants(v, out)

    def _has_event_pat(m_):
        for a_ in m_["arms"]:
            vs_ = set()
            event_variants(a_["pat"], vs_)
            if vs_:
                return True
        return False

    ev_matches = [m for m in hir.get("matches", []) if _has_event_pat(m)]
    reads = [t for t in root.calls() if t.callee and t.callee.short.endswith("read_event_into")]
    n_look = 0
    for t in reads:
        sp = t.at or t.span
        arms = []
        for m in ev_matches:
            for a in m["arms"]:
                if inside(sp, a["body_span"]):
                    vs_ = set()
                    event_variants(a["pat"], vs_)
                    if vs_ or a["pat"] == "_":
                        arms.append(a)
        if not arms:
            continue  # the loop's own read
        n_look += 1
        outer = max(arms, key=lambda a: (a["body_span"]["eline"] - a["body_span"]["line"], a["body_span"]["ecol"]))
        vs = set()
        event_variants(outer["pat"], vs)
        ctx.require(vs == {"Start"}, "R-C19-6", "lookahead|%d" % n_look, "the look-ahead read sits in the Event::Start handler",
                    "the reader consumes an extra event in the handler of %s: after a self-closed element (Event::Empty) that event is the FOLLOWING element of the document, which is silently dropped from the graph" % (sorted(vs) or "a catch-all arm"), loc_str(t.span))
    ctx.floor("R-C19-6", "lookahead_reads", n_look, 1)

    # ------------------------------------------------------------------ R-C19-9 every reading loop ends at Eof
    # quick-xml keeps answering Ok(Event::Eof) once the input is exhausted: a loop around read_event_into that does not
    # single out Eof (and leave) spins forever on a truncated document, although every turn "consumes input" (R-C19-3)
    ctx.rule("R-C19-9", "every loop around read_event_into dispatches on a match that names Event::Eof (the arm on which the loop is left)")
    n_rl = 0
    for t in reads:
        if len(natural_loop_blocks(root, t.bb)) <= 1:
            continue
        sp = t.at or t.span
        cands = [m for m in ev_matches if inside(sp, m.get("span")) and not any(inside(sp, a["body_span"]) for a in m["arms"])]
        if not cands:
            ctx.undecided("R-C19-9", "reading-loop|%d" % (n_rl + 1), "the match that dispatches this read_event_into result was not found in the typed-HIR facts", loc_str(t.span))
            continue
        n_rl += 1
        m = min(cands, key=lambda m_: (m_["span"]["eline"] - m_["span"]["line"], m_["span"]["ecol"]))
        named = set()
        for a in m["arms"]:
            event_variants(a["pat"], named)
        lb9 = natural_loop_blocks(root, t.bb)
        ctx.require("Eof" in named, "R-C19-9", "reading-loop|%d" % n_rl, "the loop around read_event_into names Event::Eof",
                    "a loop around read_event_into dispatches on %s and has no arm for Event::Eof: at the end of a truncated document quick-xml returns Eof on every call, the catch-all arm keeps looping and read_graphml_string never returns" % sorted(named), loc_str(t.span))
        # ... and Eof is the ONLY outcome on which the document loop is left towards the constructor: a second way out
        # (an end tag, a guard on an element name) returns Ok with the rest of the document unread -- GraphML allows a
        # nested <graph> inside a node and several <graph> elements, so elements may follow a </graph>
        if ctor and len(lb9) > 1:
            outs9 = []
            for x9 in sorted(lb9):
                bx9 = root.blocks[x9]
                for y9 in set(root.succ(x9)):
                    if y9 in lb9 or ctor[0].bb not in (root.reachable_from(y9) | {y9}):
                        continue
                    if bx9.term.k == "switch":
                        at9 = flows.of(root).atom(x9)
                        vals9 = [v_ for (v_, t_) in at9["targets"] if t_ == y9] + (["otherwise"] if at9["otherwise"] == y9 else [])
                        # leaving on the Err outcome of the read itself (`Err(e) => { failure = Some(e); break }`, reported
                        # after the loop) is not an end of the document
                        te9_ = at9.get("test")
                        if isinstance(te9_, tuple) and te9_[0] == "discr" and str(te9_[-1]).startswith("std::result::Result<quick_xml::events::Event"):
                            vals9 = [v_ for v_ in vals9 if v_ == 0]
                        for v_ in vals9:
                            outs9.append((x9, v_, bx9.term.span))
                    else:
                        outs9.append((x9, None, getattr(bx9.term, "span", None)))
            ctx.require(len(outs9) <= 1, "R-C19-9", "single-exit|%d" % n_rl, "the document loop is left towards the constructor on one outcome only (the Eof arm)",
                        "the loop around read_event_into is left towards the constructor on %d outcomes (%s): besides Event::Eof something else ends the reading, and the nodes and edges after that point are missing from the Ok graph" % (len(outs9), ", ".join(sorted(set(loc_str(o_[2]) for o_ in outs9 if o_[2])))), loc_str(outs9[-1][2]) if outs9 and outs9[-1][2] else loc_str(t.span))
    ctx.floor("R-C19-9", "reading_loops", n_rl, 1)

    def event_kinds_at(sp):
        """variants of the outermost event arm whose body contains this span (None: not inside an event arm)"""
        arms_ = []
        for m_ in ev_matches:
            for a_ in m_["arms"]:
                if inside(sp, a_["body_span"]):
                    vs_ = set()
                    event_variants(a_["pat"], vs_)
                    if vs_ or a_["pat"] == "_":
                        arms_.append((a_, vs_))
        if not arms_:
            return None
        return max(arms_, key=lambda x: (x[0]["body_span"]["eline"] - x[0]["body_span"]["line"], x[0]["body_span"]["ecol"]))[1]

    marker_scope(ctx, prog, flows, root, event_kinds_at)

    # ------------------------------------------------------------------ R-C19-4 declared directedness
    ctx.rule("R-C19-4", "the constructor's specs.directed depends on the document's edgedefault attribute; literal 'directed' selects true")
    fl = flows.of(root)
    specs_aggr = [s for s in root.stmts() if s.k == "assign" and s.rv.k == "aggr" and s.rv.j.get("adt", "").endswith("GraphSpecs")]
    if not specs_aggr or not ctor:
        ctx.anchor_lost("R-C19-4", "GraphSpecs aggregate / constructor call in read_graphml_string")
        return
    for s in specs_aggr:
        fields = s.rv.j["fields"]
        di = fields.index("directed")
        op = s.rv.ops[di]
        sl = fl.slice_local(fl._op_reads(op))
        got = False
        for n in sl:
            if n[0] == "CALL":
                t = root.blocks[n[1]].term
                if t.callee and t.callee.short.endswith("HashMap::get"):
                    d = panic.norm(fl.describe(t.args[1])) if len(t.args) > 1 else None
                    if d and d[0] == "const" and "edgedefault" in d[1]:
                        got = True
        ctx.require(got, "R-C19-4", "directed-depends-on-edgedefault", "GraphSpecs.directed handed to the constructor depends on attrs.get(\"edgedefault\")", "GraphSpecs.directed does not depend on the document's edgedefault attribute", loc_str(s.span))
        # the specs aggregate flows into the constructor call
        cs = fl.slice_local(fl._op_reads(ctor[0].args[2]), data_only=True) if len(ctor[0].args) > 2 else set()
        ctx.require(L(s.lhs.local) in cs or any(n == L(s.lhs.local) for n in cs), "R-C19-4", "specs-into-constructor", "the constructor receives the GraphSpecs built from the document's directedness", None, loc_str(ctor[0].span))
    # polarity: assignments of constants to the `directed` variable under the literal comparisons
    pol = directed_polarity(root, fl)
    if pol is None:
        ctx.undecided("R-C19-4", "polarity", "could not identify the literal comparisons selecting directed=true/false (shape not recognised)")
    else:
        ctx.require(pol == {"directed": True, "undirected": False}, "R-C19-4", "polarity", "\"directed\" => true, \"undirected\" => false", "edgedefault literals map to %s" % pol)
    ctx.note("read_graphml_file's expect() on fs::read_to_string is file I/O outside the statement (R-C19-5), recorded only")


def last_mut_invariant(ctx, prog, flows, root, groups):
    """R-C19-1b: the reviewed reason for `edges.last_mut().unwrap()` is re-checked structurally on every run"""
    from guard import ok_producers

    ctx.rule("R-C19-1b", "last_mut().unwrap() is reached only after a literal-\"edge\" marker that is set only in front of a successful push; the vector never shrinks")
    sites = [(b, fl, s) for lst in groups.values() for (b, fl, s) in lst if b.path == root.path and s.kind == "unwrap" and "last_mut(" in shape_str(s.origin)]
    if not sites:
        ctx.note("no last_mut().unwrap() site in the reader any more: R-C19-1b has nothing to check")
        return
    effects = Effects(prog, flows)
    for (b, fl, s) in sites:
        key = "last_mut|" + b.short
        # receiver vector E
        o = fl.describe(s.operand, depth=12)
        recv = None
        t = fl.single_def(s.operand.place.local)
        if t is not None and getattr(t, "k", None) == "call" and t.args:
            named = [o[1] for o in fl._operand_pts(t.args[0]) if o[0] == "L" and b.local_ty(o[1]).startswith("std::vec::Vec<")]
            recv = named[0] if len(named) == 1 else None
        if recv is None:
            ctx.violation("R-C19-1b", key, "cannot identify the vector behind last_mut() (fail closed)", s.site())
            continue
        # (1) the site is behind the true edge of eq(as_str(V), "edge")
        marker = None
        guard_edge = None
        for (bb, test, t_succ, f_succ) in panic.bool_atoms(fl):
            if isinstance(test, tuple) and test[0] == "call" and test[1].endswith("PartialEq::eq") and any(isinstance(x, tuple) and x[0] == "const" and "\"edge\"" in x[1] for x in test[2]):
                if panic.passes_true_edge(b, bb, t_succ, s.node.bb):
                    term = b.blocks[bb].term
                    # the compared variable
                    call = fl.single_def(term.discr.place.local) if term.discr.place is not None else None
                    if call is not None and getattr(call, "k", None) == "call":
                        vs = [o[1] for a in call.args for o in fl._operand_pts(a) if o[0] == "L" and b.local_ty(o[1]) == "std::string::String"]
                        if not vs:
                            # `marker == "edge"` compares through one more reference than `match marker.as_str()`:
                            # identify the variable by its name in the description of the test
                            for x in test[2]:
                                if isinstance(x, tuple) and x[0] == "place" and "." not in x[1]:
                                    vs += [l for l in b.locals_named(x[1]) if b.local_ty(l).lstrip("&mut ").strip() == "std::string::String"]
                        if vs:
                            marker = vs[0]
                            guard_edge = (bb, t_succ)
        if marker is None:
            ctx.violation("R-C19-1b", key, "last_mut().unwrap() is not behind a comparison of a marker string with \"edge\"", s.site())
            continue
        # (2) successful-push edges: continue edges of switches on add_edge(&mut E, ..) results
        cont_edges = []
        for t in b.calls():
            tp = t.callee.target_path(prog) if t.callee else None
            if not tp or not t.args:
                continue
            if ("L", recv) not in fl.mut_reach(t.args[0]):
                continue
            cb = prog.bodies[tp]
            prods = ok_producers(cb) or []
            pushes = [e[0] for e in effects.events(tp) if e[2][0] == "P" and e[2][1] == 1 and e[3] == "Vec::push"]
            if not prods or not pushes:
                continue
            # every Ok of the callee is behind a push onto its first parameter
            reach = cb.reachable_from(0, avoid=tuple(sorted(set(pushes))))
            if any(pb in reach for (pb, _, _) in prods):
                continue
            for blk in b.normal_blocks():
                if blk.term.k != "switch" or not b.dominates(t.bb, blk.i):
                    continue
                sl = fl.slice_local(fl._op_reads(blk.term.discr), data_only=True)
                if ("CALL", t.bb) in sl and fl.describe(blk.term.discr)[0] == "discr":
                    cont_edges.append((blk.i, dict(blk.term.targets).get(0, blk.term.otherwise)))
        # (3) from every assignment of an "edge"-derived value to the marker, neither the site nor the
        # loop header is reachable without a successful push
        headers = [blk.i for blk in b.normal_blocks() if blk.term.k == "call" and blk.term.callee and blk.term.callee.short.endswith("read_event_into")]
        bad = []
        n_defs = 0
        for (dbb, d) in b.assigns_to(marker):
            val = fl.slice_local(fl._op_reads(d.rv.ops[0]) if getattr(d, "rv", None) is not None and d.rv.ops else {("CALL", dbb)}, data_only=True)
            if not any(n[0] == "CONST" and "\"edge\"" in n[1] for n in val):
                continue
            n_defs += 1
            # (3a) the marker is set AFTER a successful push: no path from the entry reaches this assignment
            # without one (and the vector never shrinks, (4))
            seen = set()
            st = [0]
            while st:
                x = st.pop()
                if x in seen:
                    continue
                seen.add(x)
                for y in b.succ(x):
                    if (x, y) not in cont_edges:
                        st.append(y)
            if cont_edges and dbb not in seen:
                continue
            seen = set()
            st = [dbb]
            while st:
                x = st.pop()
                if x in seen:
                    continue
                seen.add(x)
                for y in b.succ(x):
                    if (x, y) in cont_edges:
                        continue
                    st.append(y)
            seen.discard(dbb)
            if s.node.bb in seen or any(h in seen for h in headers):
                bad.append(loc_str(d.span))
        ok3 = n_defs >= 1 and not bad
        # (4) E never shrinks
        shrink = [e for e in effects.events(b.path) if e[2] == ("L", recv) and e[3].split("::")[-1] in ("pop", "clear", "truncate", "remove", "swap_remove", "drain", "retain", "split_off", "take", "replace", "swap", "dedup", "dedup_by", "dedup_by_key", "resize", "set_len")]
        reassigned = [d for (dbb, d) in b.assigns_to(recv)]
        ok4 = not shrink and len(reassigned) <= 1
        ctx.require(ok3 and ok4, "R-C19-1b", key,
                    "marker is set to \"edge\" at %d place(s), each followed by a successful push onto `%s` before the loop continues; `%s` is never shrunk or reassigned" % (n_defs, b.local_name(recv), b.local_name(recv)),
                    "the invariant behind last_mut().unwrap() is broken: marker set without a successful push at %s; shrinking ops %s; reassignments %d" % (bad, [e[3] for e in shrink], len(reassigned)), s.site())


def marker_scope(ctx, prog, flows, root, event_kinds_at):
    """R-C19-7.  The reader remembers, in a string variable, that the element most recently opened is an <edge>; a later
    <data> with the weight key is then written into the LAST EDGE.  "The graph contains exactly the edge elements of
    the document" needs that memory to end when another element is appended: every trip through the event loop that
    appends a NODE that can have children (the handler of Event::Start; a self-closed element has none) must pass an
    assignment that takes the "edge" value away, otherwise the <data> children of a node that follows an edge overwrite
    that edge's weight (or turn a weightless edge into a weighted one, or refuse a document because a node's text is
    not a number)."""
    effects = Effects(prog, flows)
    ctx.rule("R-C19-7", "every pass of the event loop that appends a node with children (Event::Start) passes an assignment that takes the \"edge\" value away from the last-element marker")
    fl = flows.of(root)
    b = root
    markers = set()
    for l in range(b.arg_count + 1, len(b.locals)):
        if b.local_ty(l) != "std::string::String" or b.local_name(l) is None:
            continue
        for (dbb, d) in b.assigns_to(l):
            ops = d.rv.ops if getattr(d, "rv", None) is not None else getattr(d, "args", [])
            reads = set()
            for o in ops:
                reads |= set(fl._op_reads(o))
            val = fl.slice_local(reads or {("CALL", dbb)}, data_only=True)
            if any(n[0] == "CONST" and "\"edge\"" in n[1] for n in val):
                markers.add(l)
    if not markers:
        ctx.note("the reader keeps no \"edge\" marker any more: R-C19-7 has nothing to check")
        return
    headers = [blk.i for blk in b.normal_blocks() if blk.term.k == "call" and blk.term.callee and blk.term.callee.short.endswith("read_event_into")]
    loops = [h for h in headers if h in b.reachable_from(h, strict=True)] if "strict" in b.reachable_from.__code__.co_varnames else headers
    n = 0
    for m in sorted(markers):
        kills = set()
        for (dbb, d) in b.assigns_to(m):
            ops = d.rv.ops if getattr(d, "rv", None) is not None else getattr(d, "args", [])
            reads = set()
            for o in ops:
                reads |= set(fl._op_reads(o))
            val = fl.slice_local(reads or {("CALL", dbb)}, data_only=True)
            consts = [n_[1] for n_ in val if n_[0] == "CONST" and "\"" in n_[1]]
            if consts and not any("\"edge\"" in c for c in consts):
                kills.add(dbb)
        for t in b.calls():
            tp = t.callee.target_path(prog) if t.callee else None
            if not tp or not t.args:
                continue
            pushes = [e for e in effects.events(tp) if e[2][0] == "P" and e[2][1] == 1 and e[3] == "Vec::push"]
            if not pushes:
                continue
            tgt = [o for o in fl.mut_reach(t.args[0]) if o[0] == "L" and "node::Node<" in b.local_ty(o[1])]
            if not tgt:
                continue
            kinds = event_kinds_at(t.at or t.span)
            if kinds is not None and "Start" not in kinds:
                continue  # a self-closed <node/> has no children: what follows it is not its content
            n += 1
            if kinds is None:
                ctx.undecided("R-C19-7", "node-append|%s|%d" % (b.local_name(m), n), "the node-appending call %s is not inside an arm of the event match; whether its element can have children is not decided" % t.callee.short.split("::")[-1], loc_str(t.span))
                continue
            # one trip: header -> .. -> the appending call -> .. -> header, none of it through a kill
            bad_h = None
            for h in headers:
                fwd = set()
                st = list(b.succ(h))
                while st:
                    x = st.pop()
                    if x in fwd or x in kills or x == h:
                        continue
                    fwd.add(x)
                    st.extend(b.succ(x))
                if t.bb not in fwd:
                    continue
                seen = set()
                st = list(b.succ(t.bb))
                while st:
                    x = st.pop()
                    if x in seen or x in kills:
                        continue
                    seen.add(x)
                    if x == h:
                        bad_h = h
                        break
                    st.extend(b.succ(x))
            ctx.require(bad_h is None and bool(kills), "R-C19-7", "node-append|%s|%d" % (b.local_name(m), n), "the pass that appends a node through %s resets `%s`" % (t.callee.short.split("::")[-1], b.local_name(m)),
                        "a pass of the event loop appends a node (%s) and comes back to the next event with `%s` possibly still \"edge\": the <data> children of that node are then applied to the previous EDGE (its weight is overwritten, or a non-numeric node value makes the whole document an error)" % (t.callee.short.split("::")[-1], b.local_name(m)), loc_str(t.span))
    ctx.floor("R-C19-7", "node_appending_calls", n, 1)


def is_tainted(flows, root, b, fl, s):
    if s.operand is None:
        # explicit panics / asserts: tainted if control-dependent on input... treat as tainted inside the reader module
        return "graphml" in b.short
    sl = flows.slice(b.path, fl._op_reads(s.operand), up=True, down="clos", data_only=True, roots=(root.path,))
    for (bp, n) in sl:
        if bp == root.path and n[0] in ("L", "SRC") and isinstance(n[1], int) and n[1] == 1:
            return True
    return False


def has_cycle_avoiding(body, avoid):
    """a block on a CFG cycle that avoids all blocks in `avoid`, or None"""
    color = {}
    nodes = sorted(body.reachable_from(0))
    for start in nodes:
        if start in avoid or color.get(start):
            continue
        stack = [(start, iter(body.succ(start)))]
        color[start] = 1
        while stack:
            n, it = stack[-1]
            adv = False
            for s in it:
                if s in avoid:
                    continue
                c = color.get(s, 0)
                if c == 1:
                    return s
                if c == 0:
                    color[s] = 1
                    stack.append((s, iter(body.succ(s))))
                    adv = True
                    break
            if not adv:
                color[n] = 2
                stack.pop()
    return None


def pat_str_lit(pat):
    """the string literal a pattern tests: `"x"`, `Some("x")`, `Ok("x")`, `&"x"` (one literal under single-field
    wrappers)"""
    for _ in range(4):
        if not isinstance(pat, dict):
            return None
        if "lit" in pat:
            return pat["lit"].get("str")
        subs = pat.get("subs")
        if isinstance(subs, list) and len(subs) == 1:
            pat = subs[0]
            continue
        for k in ("sub", "ref", "box", "deref"):
            if k in pat:
                pat = pat[k]
                break
        else:
            return None
    return None


def directed_polarity(root, fl):
    """{literal: bool} from the byte-wise / str-eq decision tree controlling `directed = const`"""
    dl = root.locals_named("directed")
    if not dl:
        return None
    # `directed = match v { "directed" => true, .. }` assigns the constants to a temporary that is then moved
    # into the variable: the temporaries count as the variable
    dl = set(dl)
    changed = True
    while changed:
        changed = False
        for s in root.stmts():
            if s.k == "assign" and s.lhs.local in dl and not s.lhs.proj and s.rv.k == "use" and s.rv.ops[0].place is not None and not s.rv.ops[0].place.proj and s.rv.ops[0].place.local not in dl and root.local_ty(s.rv.ops[0].place.local) == "bool":
                dl.add(s.rv.ops[0].place.local)
                changed = True
    out = {}
    dflow = set()
    for l_ in dl:
        dflow |= fl.slice_local({("L", l_)}, data_only=True)
    hir = root.item.get("hir") or {}
    # typed HIR: match arms with string literal patterns whose bodies assign directed
    for m in hir.get("matches", []):
        lits = [a for a in m["arms"] if pat_str_lit(a["pat"]) is not None]
        if len(lits) < 2:
            continue
        names = {pat_str_lit(a["pat"]) for a in lits}
        if not {"directed", "undirected"} <= names:
            continue
        for a in lits:
            lit = pat_str_lit(a["pat"])
            sp = a["body_span"]
            # constant assignments to `directed` whose span lies inside this arm body
            for s in root.stmts():
                if s.k != "assign" or s.lhs.proj or s.rv is None:
                    continue
                # `directed = true`, or a value built in the arm that flows into `directed` (`Ok(true)` returned by a
                # helper and unwrapped by the caller)
                cands = []
                if s.lhs.local in dl and s.rv.k == "use" and s.rv.ops[0].is_const():
                    cands = [s.rv.ops[0]]
                elif ("L", s.lhs.local) in dflow and s.rv.k in ("aggr", "use"):
                    cands = [o for o in s.rv.ops if o.is_const() and (o.c or {}).get("ty") == "bool"]
                if len(cands) != 1:
                    continue
                ss = s.span
                if ss and ss["file"] == sp["file"] and (sp["line"], sp["col"]) <= (ss["line"], ss["col"]) and (ss["eline"], ss["ecol"]) <= (sp["eline"], sp["ecol"]):
                    v = cands[0].const_int()
                    out[lit] = bool(v)
    # the same decision written with `==`: `if v == "undirected" { false } else if v == "directed" { true }` -- a
    # constant that flows into `directed` and is control-dependent on eq(_, "literal") being true
    from props.c01 import controlling_atoms as _ca

    def _lit(d_):
        if isinstance(d_, tuple) and d_[0] == "const" and '"' in d_[1]:
            return d_[1].split('"')[1]
        if isinstance(d_, tuple) and d_[0] == "adt" and len(d_) > 2 and len(d_[2]) == 1:
            return _lit(d_[2][0])
        return None

    for s_ in root.stmts():
        if s_.k != "assign" or s_.lhs.proj or s_.rv is None:
            continue
        cands = []
        if s_.lhs.local in dl and s_.rv.k == "use" and s_.rv.ops[0].is_const():
            cands = [s_.rv.ops[0]]
        elif ("L", s_.lhs.local) in dflow and s_.rv.k in ("aggr", "use"):
            cands = [o for o in s_.rv.ops if o.is_const() and (o.c or {}).get("ty") == "bool"]
        if len(cands) != 1 or cands[0].const_int() not in (0, 1):
            continue
        for (te, v, a) in _ca(fl, s_.bb):
            if v is True and isinstance(te, tuple) and te[0] == "call" and te[1].split("::")[-1] == "eq":
                lits = [x for x in (_lit(panic.norm(y)) for y in te[2]) if x]
                for lit in lits:
                    if lit in ("directed", "undirected") and lit not in out:
                        out[lit] = bool(cands[0].const_int())
    return out or None
