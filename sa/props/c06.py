"""C06 -- closeness centrality: the incoming-distance clause only."""
from core import ASSUME_RUSTC, ASSUME_PATHS
from engines import value_descriptor, closures_created_in
from flow import Flows, L, fmt_desc, desc_mentions
import panic
from guard import ok_producers
from props.c01 import controlling_atoms
from mir import loc_str, short

LEVEL = "other"
EXPLANATION = (
    "Decides ONE necessary condition of C06 for all inputs: on directed graphs the distance kernels are fed the REVERSED graph "
    "(distances of paths arriving at u), on undirected graphs the graph itself.  R-C06-1: every distance-kernel call in "
    "closeness_centrality (serial loop and parallel closure) takes a graph value whose provenance includes Graph::reverse(graph); the "
    "assignment that installs the reversed graph is control-dependent on specs.directed == true; by reaching definitions, the "
    "un-reversed initial definition reaches a kernel call (or the closure that captures it) only along the specs.directed == false "
    "edge; the node-name lookup for the result uses the same graph value as the kernel.  R-C06-2: the result depends on `weighted` "
    "and `wf_improved` and on the kernels.  R-C06-6: the scaling switch handed to the per-node formula is the caller's `wf_improved` at every call site.  R-C06-7: every definition reaching the return of the per-node formula, evaluated as arithmetic over r, T and n at a grid of points (reaching definitions; nothing is run), is 0, (r-1)/T or (r-1)/T*(r-1)/(n-1).  R-C06-8: the kernels compare collection sizes with the node count only.  NOT decided: the formula's values, the Wasserman-Faust scaling arithmetic, 0 for "
    "unreachable nodes -- numerical facts outside static reach."
)
TRUSTED = ["rustc MIR construction", "Graph::reverse returns the reversed graph (C15)"]

KERNELS = ("closeness::single_source_shortest_path_length_weighted", "closeness::single_source_shortest_path_length_unweighted")


def run(ctx):
    prog = ctx.prog
    flows = Flows(prog)
    ctx.assume(ASSUME_RUSTC)
    ctx.assume(ASSUME_PATHS)
    root = prog.one("closeness::closeness_centrality")
    fl = flows.of(root)
    kpaths = {prog.one(k).path for k in KERNELS}
    rev = prog.one("convert::Graph::reverse").path
    bodies = [root] + prog.closures_of(root.path)
    ctx.rule("R-C06-1", "distance kernels get the reversed graph on directed graphs (provenance, control dependence, reaching definitions)")
    kcalls = []
    for b in bodies:
        for t in b.calls():
            if t.callee and t.callee.target_path(prog) in kpaths:
                kcalls.append((b, t))
    if not ctx.floor("R-C06-1", "kernel_calls", len(kcalls), 2):
        return
    for (b, t) in kcalls:
        params, callees = value_descriptor(flows, root.path, b.path, t.args[0])
        key = "kernel-arg|%s|%s" % (b.short.split("::", 3)[-1], t.callee.short.split("::")[-1])
        ok = "graph" in params and any(c.endswith("Graph::reverse") for c in callees)
        ctx.require(ok, "R-C06-1", key, "graph argument of %s may be the reversed graph (provenance: %s via %s)" % (t.callee.short.split("::")[-1], sorted(params), sorted(c.split("::")[-1] for c in callees)),
                    "%s is called on a graph value that can never be the reversed graph (provenance %s via %s): on directed graphs it computes OUTGOING distances" % (t.callee.short.split("::")[-1], sorted(params), sorted(c.split("::")[-1] for c in callees)), loc_str(t.span))
    # the variable holding the graph the kernels use
    rcalls = [t for t in root.calls() if t.callee and t.callee.target_path(prog) == rev]
    if len(rcalls) != 1:
        ctx.anchor_lost("R-C06-1", "exactly one Graph::reverse call in closeness_centrality (found %d)" % len(rcalls))
        return
    # locals of reference type assigned more than once = the switching variable
    # (named or not: `let g = match .. { Some(r) => r, None => graph }` assigns a temporary in the arms) -- among them,
    # the one the kernels' graph argument derives from
    kslice = set()
    for (b_, t_) in kcalls:
        kslice |= flows.slice(b_.path, flows.of(b_)._op_reads(t_.args[0]), up=True, down=False, data_only=True, roots=(root.path,))
    cands = [l["i"] for l in root.locals if l["ty"].startswith("&graph::Graph<") and l["i"] > root.arg_count and len(root.assigns_to(l["i"])) >= 2 and (root.path, ("L", l["i"])) in kslice]
    if len(cands) != 1:
        ctx.anchor_lost("R-C06-1", "one re-assigned `&Graph` variable in closeness_centrality (found %d)" % len(cands))
        return
    var = cands[0]
    defs = root.assigns_to(var)
    rev_defs, init_defs = [], []
    for (bb, d) in defs:
        sl = fl.slice_local(fl._op_reads(d.rv.ops[0]) if d.rv.ops else fl._place_reads(d.rv.place), data_only=True)
        if ("CALL", rcalls[0].bb) in sl:
            rev_defs.append((bb, d))
        else:
            init_defs.append((bb, d))
    ctx.require(len(rev_defs) == 1 and len(init_defs) == 1, "R-C06-1", "defs", "`%s` has one initial definition (the graph) and one reversed-graph definition" % (root.local_name(var) or "_%d" % var), "unexpected definitions of `%s`: %d reversed, %d other" % ((root.local_name(var) or "_%d" % var), len(rev_defs), len(init_defs)), loc_str(root.span))
    if len(rev_defs) != 1 or len(init_defs) != 1:
        return
    rbb, rd = rev_defs[0]
    atoms = controlling_atoms(fl, rbb)
    on_directed = any(isinstance(t, tuple) and t[0] == "place" and t[1].endswith("specs.directed") and v is True for (t, v, a) in atoms)
    ctx.require(on_directed, "R-C06-1", "reverse-under-directed", "the reversed graph is installed exactly under specs.directed == true", "the reversed graph is installed under %s" % [(fmt_desc(t), v) for (t, v, a) in atoms], loc_str(rd.span))
    # reaching definitions: uses of the variable = kernel calls in root + creation of closures that capture it
    uses = set()
    for (b, t) in kcalls:
        if b.path == root.path:
            uses.add(t.bb)
    for s in root.stmts():
        if s.k == "assign" and s.rv.k == "aggr" and s.rv.j["ak"] == "closure":
            cb = prog.bodies.get(s.rv.j["closure"])
            if cb and any(b.path == cb.path or cb.path in [x.path for x in prog.closures_of(cb.path)] for (b, t) in kcalls):
                uses.add(s.bb)
    # directed switch
    dsw = [(a, s_) for (te, v, a) in atoms if isinstance(te, tuple) and te[0] == "place" and te[1].endswith("specs.directed") for s_ in [None]]
    sw_bb = [a for (te, v, a) in atoms if isinstance(te, tuple) and te[0] == "place" and te[1].endswith("specs.directed")][0]
    at = fl.atom(sw_bb)
    false_succ = dict(at["targets"]).get(0)
    ibb = init_defs[0][0]
    # blocks reachable from the initial definition without passing the redefinition and without the false edge
    seen = set()
    st = [ibb]
    while st:
        x = st.pop()
        if x in seen:
            continue
        seen.add(x)
        if x == rbb and x != ibb:
            continue  # redefined here: the initial definition is killed
        for y in root.succ(x):
            if x == sw_bb and y == false_succ:
                continue
            st.append(y)
    leaked = sorted(u for u in uses if u in seen and not root.dominates(rbb, u) and u != rbb)
    # a use reached through the redefinition block is fine (killed); compute precisely: uses reachable while the init def is live
    live = set()
    st = [ibb]
    if ibb not in root.reach_avoiding_edges([(sw_bb, false_succ)]):
        # the un-reversed definition is itself made only on the specs.directed == false side
        # (`let g = match &reversed { Some(r) => r, None => graph }`): it cannot be live on a directed path
        st = []
    while st:
        x = st.pop()
        if x in live:
            continue
        live.add(x)
        for y in root.succ(x):
            if x == sw_bb and y == false_succ:
                continue
            if y == rbb:
                continue
            st.append(y)
    leaked = sorted(u for u in uses if u in live)
    ctx.require(bool(uses) and not leaked, "R-C06-1", "reaching-defs", "the un-reversed graph reaches the %d kernel uses only along specs.directed == false" % len(uses), "on a path with specs.directed == true the kernels can still see the original graph (uses in blocks %s)" % leaked, loc_str(root.span))
    # the result's node names come from the same graph variable: the kernels number their sources by position in the
    # graph they run on, so a name taken from another graph value (the un-reversed original, whose positions need not
    # agree) attaches a value to the wrong node
    n_names = 0
    for b in bodies:
        for t in b.calls():
            if t.callee and t.callee.target_path(prog) and t.callee.short.split("::")[-1] in ("get_node_by_index", "get_all_node_names", "get_all_nodes", "get_node_index") and t.args:
                n_names += 1
                params, callees = value_descriptor(flows, root.path, b.path, t.args[0])
                ctx.require(any(c.endswith("Graph::reverse") for c in callees), "R-C06-1", "names|%s|%s" % (b.short.split("::", 3)[-1], t.callee.short.split("::")[-1]), "node names are looked up in the same (possibly reversed) graph the kernels ran on", "node names / positions are taken from a different graph value (%s) than the one the kernels run on: positions of the reversed graph need not agree with the original's" % t.callee.short.split("::")[-1], loc_str(t.span))
    ctx.floor("R-C06-1", "name_lookups", n_names, 1)

    rule3(ctx, prog, flows, root, kcalls)
    rule6(ctx, prog, flows, root)
    rule7(ctx, prog, flows, root)
    rule8(ctx, prog, flows, root)
    rule10(ctx, prog, flows, root)
    rule11(ctx, prog, flows, root)
    from props.c08 import relaxation_discipline

    relaxation_discipline(ctx, prog, flows, "R-C06-9", {"closeness::single_source_shortest_path_length_weighted": "closeness"})
    # R-C06-4: the value is (r-1)/sum, times (r-1)/(n-1): a quotient of counts and distances.  Nothing in the
    # definition limits or rounds it -- with weights below 1 it exceeds 1
    ctx.rule("R-C06-4", "the closeness formula applies no limiting or rounding operation (min / max / clamp / round ..) to the quotient")
    gnc = prog.find("closeness::get_node_centrality")
    fb = gnc[0] if gnc else root
    sl4 = flows.slice(fb.path, [L(0)], up=False, down=True, data_only=True)
    lim = set()
    for (bp4, nd4) in sl4:
        if nd4[0] == "CALL":
            t4 = prog.bodies[bp4].blocks[nd4[1]].term
            if t4.callee and t4.callee.short.split("::")[-1] in ("min", "max", "clamp", "round", "floor", "ceil", "trunc", "abs", "signum", "fract", "rem_euclid", "powi", "powf", "sqrt", "ln", "exp", "to_int_unchecked", "saturating_sub", "saturating_add") and ("f64" in t4.callee.short or "f32" in t4.callee.short or t4.dest.ty in ("f64", "f32")):
                lim.add(t4.callee.short.split("::")[-1])
    # R-C06-5: the quotient is used exactly when more than one node exists (and the distance sum is positive); the test
    # on the node count is tabulated for n = 0..6
    ctx.rule("R-C06-5", "the closeness quotient is selected exactly for num_nodes >= 2 (guard tabulated over the node count)")
    from engines import eval_over_count
    from props.c01 import controlling_atoms as _ca5

    f5 = flows.of(fb)
    cnt_params = [fb.local_name(i_) for i_ in range(1, fb.arg_count + 1) if fb.local_ty(i_) == "usize" and fb.local_name(i_)]

    def _is_cnt(d_):
        return isinstance(d_, tuple) and ((d_[0] == "place" and d_[1] in cnt_params) or (d_[0] == "call" and (d_[1].split("::")[-1] == "number_of_nodes" or (d_[1].split("::")[-1] == "len" and desc_mentions(d_, lambda x: x[0] == "call" and x[1].split("::")[-1] in ("get_all_nodes", "get_all_node_names"))))))

    n5 = 0
    for st5 in fb.stmts():
        if st5.k == "assign" and st5.rv.k == "binop" and st5.rv.j["op"] == "Div" and all(o_.place is not None and o_.place.ty == "f64" for o_ in st5.rv.ops):
            for (te5, v5, a5) in _ca5(f5, st5.bb):
                if not (isinstance(te5, tuple) and te5[0] == "binop" and desc_mentions(te5, _is_cnt)):
                    continue
                tab5 = {}
                for k5 in range(0, 7):
                    r5 = eval_over_count(f5, panic.norm(te5), k5, _is_cnt)
                    tab5[k5] = None if r5 is None else (bool(r5) == bool(v5))
                if None in tab5.values():
                    continue
                n5 += 1
                want5 = {k5: k5 >= 2 for k5 in range(0, 7)}
                ctx.require(tab5 == want5, "R-C06-5", "guard-exact|%d" % n5, "the quotient is used exactly for num_nodes >= 2", "the test on the node count selects the quotient for n in %s, not exactly for n >= 2 (differs at n = %s)" % (sorted(k_ for k_, x_ in tab5.items() if x_), sorted(k_ for k_ in tab5 if tab5[k_] != want5[k_])), loc_str(st5.span))
    ctx.counters["closeness_count_guards"] = n5
    ctx.require(not lim, "R-C06-4", "no-limit|" + fb.short.split("::")[-1], "%s computes the quotient with arithmetic only" % fb.short.split("::")[-1], "%s passes the closeness value through %s: the definition (r-1)/sum of distances is not bounded by 1 (weights below 1) and is not rounded" % (fb.short.split("::")[-1], sorted(lim)), loc_str(fb.span))
    ctx.rule("R-C06-2", "the result depends on weighted, wf_improved and the kernels")
    sl = set()
    for (bb, w, s) in ok_producers(root) or []:
        for o in (s.rv.ops if getattr(s, "rv", None) is not None else s.args):
            sl |= flows.slice(root.path, fl._op_reads(o), up=False, down="clos")
    for pn in ("weighted", "wf_improved"):
        pl = root.param_local(pn)
        if pl is None:
            ctx.anchor_lost("R-C06-2", "parameter " + pn)
            continue
        ctx.require((root.path, L(pl)) in sl, "R-C06-2", pn, "result depends on `%s`" % pn, "result does not depend on `%s`" % pn, loc_str(root.span))


def rule3(ctx, prog, flows, root, kcalls):
    """which kernel runs is decided by the caller's `weighted` flag alone"""
    from props.c01 import controlling_atoms

    ctx.rule("R-C06-3", "the choice between the weighted and the hop-count kernel tests the caller's `weighted` flag itself: no graph-derived value takes part in it")
    n = 0
    for (b, t) in kcalls:
        fl = flows.of(b)
        kname = t.callee.short.split("::")[-1]
        found = False
        for blk_i in sorted({a for (a, s) in b.transitive_control_deps(t.bb) if not isinstance(a, tuple)}):
            blk = b.blocks[blk_i]
            if blk.term.k != "switch" or blk.term.discr.place is None or blk.term.discr.place.ty != "bool":
                continue
            wide = flows.slice(b.path, fl._op_reads(blk.term.discr), up=True, down=False, data_only=False, roots=(root.path,), value_only=True)
            pw = root.param_local("weighted")
            if pw is None or (root.path, ("L", pw)) not in wide:
                continue
            found = True
            n += 1
            params, callees = value_descriptor(flows, root.path, b.path, blk.term.discr)
            narrow = flows.slice(b.path, fl._op_reads(blk.term.discr), up=True, down=False, data_only=True, roots=(root.path,))
            srcs = sorted({".".join(f for f in nd[2] if f != "*") for (bp, nd) in narrow if nd[0] == "SRC"} - {"^weighted", "weighted", ""})
            ctx.require(not callees and params <= {"weighted"} and not srcs, "R-C06-3", "dispatch|%s|%s" % (b.short.split("::", 3)[-1], kname), "%s is selected by `weighted` alone" % kname,
                        "the test that selects %s depends on more than the caller's `weighted` flag (parameters %s, crate calls %s, graph fields %s): for some graph a weighted request is answered with hop counts (or the reverse)" % (kname, sorted(params), sorted(c.split("::")[-1] for c in callees), srcs), loc_str(blk.term.span))
        if not found:
            ctx.violation("R-C06-3", "dispatch|%s|%s" % (b.short.split("::", 3)[-1], kname), "the call of %s is not controlled by a test of `weighted`" % kname, loc_str(t.span))
    ctx.floor("R-C06-3", "kernel_dispatch_tests", n, 2)


def rule6(ctx, prog, flows, root):
    """the Wasserman-Faust scaling is applied exactly when the caller asks for it: the flag handed to the per-node
    formula is the caller's `wf_improved`, at every call site (the sequential and the parallel arm alike)"""
    ctx.rule("R-C06-6", "every call of the per-node closeness formula receives the caller's `wf_improved` flag itself as its scaling switch")
    gnc = prog.find("closeness::get_node_centrality")
    if not gnc:
        ctx.undecided("R-C06-6", "formula-calls", "the per-node formula is no longer a function of its own; which flag scales the value is covered by R-C06-2 only")
        return
    n = 0
    for cb in [root] + list(prog.closures_of(root.path)):
        for t in cb.calls():
            if not t.callee or t.callee.target_path(prog) != gnc[0].path:
                continue
            for a in t.args:
                ty = a.place.ty if a.place is not None else ((a.c or {}).get("ty"))
                if ty != "bool":
                    continue
                n += 1
                if a.place is None:
                    ctx.violation("R-C06-6", "flag|%s|%d" % (cb.short.split("::", 3)[-1], n), "the per-node formula is called with a constant scaling switch in %s: `wf_improved` has no effect on this arm" % cb.short, loc_str(t.span))
                    continue
                params, callees = value_descriptor(flows, root.path, cb.path, a)
                ctx.require(params == {"wf_improved"} and not callees, "R-C06-6", "flag|%s|%d" % (cb.short.split("::", 3)[-1], n), "the scaling switch in %s is `wf_improved`" % cb.short.split("::")[-1],
                            "the scaling switch handed to the per-node formula in %s derives from %s, not from `wf_improved` alone: the Wasserman-Faust factor is applied (or skipped) against the caller's request" % (cb.short, sorted(params) + sorted(c.split("::")[-1] for c in callees)), loc_str(t.span))
    ctx.floor("R-C06-6", "formula_calls", n, 2)


def rule7(ctx, prog, flows, root):
    """The value itself, as far as an expression can be compared with an expression: every definition that can reach the
    return of the per-node formula is evaluated as arithmetic over r = number of (node, distance) entries, T = the sum of
    the distances and n = the node count, at a grid of points, and must be 0, (r-1)/T or (r-1)/T * (r-1)/(n-1).
    Variables assigned more than once are followed by reaching definitions; no branch is decided and nothing is run."""
    from engines import forms_of_def, classify_forms

    ctx.rule("R-C06-7", "every definition reaching the return of the per-node closeness formula is 0, (r-1)/T or (r-1)/T * (r-1)/(n-1) as an expression over the entry count r, the distance sum T and the node count n")
    gnc = prog.find("closeness::get_node_centrality")
    if not gnc:
        ctx.undecided("R-C06-7", "formula", "the per-node formula is no longer a function of its own")
        return
    b = gnc[0]
    fl = flows.of(b)
    cnt = [b.local_name(i) for i in range(1, b.arg_count + 1) if b.local_ty(i) == "usize" and b.local_name(i)]
    grid = [(r, t, n) for r in (2.0, 4.0, 7.0) for t in (3.0, 10.5) for n in (5.0, 9.0)]

    def leaf_for(pt):
        def leaf(d):
            if d[0] == "call" and d[1].split("::")[-1] == "len":
                return pt[0]
            if d[0] == "call" and d[1].split("::")[-1] in ("sum", "fold"):
                return pt[1]
            if d[0] == "place" and d[1] in cnt:
                return pt[2]
            return None
        return leaf

    allowed = {"(r-1)/T": lambda pt: (pt[0] - 1) / pt[1], "(r-1)/T * (r-1)/(n-1)": lambda pt: (pt[0] - 1) / pt[1] * (pt[0] - 1) / (pt[2] - 1)}
    seen, n = set(), 0
    for (bb, st) in b.assigns_to(0):
        n += 1
        forms = forms_of_def(fl, st, leaf_for, grid)
        if forms is None:
            ctx.undecided("R-C06-7", "formula|%d" % n, "a value returned by %s is not plain arithmetic over the entry count, the distance sum and the node count; its form is not decided" % b.short.split("::")[-1], loc_str(st.span))
            continue
        ok, bad = classify_forms(forms, allowed, grid)
        seen |= ok
        ctx.require(not bad, "R-C06-7", "formula|%d" % n, "%s returns %s" % (b.short.split("::")[-1], " or ".join(sorted(ok))),
                    "%s can return a value that is neither 0, (r-1)/T nor (r-1)/T * (r-1)/(n-1): at (r, T, n) = %s it is %s where the definition gives %s resp. %s" % (b.short.split("::")[-1], grid[0], [round(f[0], 6) for f in bad], round(allowed["(r-1)/T"](grid[0]), 6), round(allowed["(r-1)/T * (r-1)/(n-1)"](grid[0]), 6)), loc_str(st.span))
    if n and not ctx_has_violation(ctx, "R-C06-7"):
        ctx.require(set(allowed) <= seen, "R-C06-7", "both-forms", "both the plain and the Wasserman-Faust form are produced", "the forms produced are %s: %s is never returned" % (sorted(seen), sorted(set(allowed) - seen)), loc_str(b.span))
    ctx.floor("R-C06-7", "return_definitions", n, 1)


def ctx_has_violation(ctx, rid):
    return any(f.rule == rid and f.status in ("violation", "undecided") for f in ctx.findings)


def rule8(ctx, prog, flows, root):
    """the hop-count kernel stops early once every node has been reached: the size of its visited structure is compared
    with the NODE count.  Compared with any other count of the graph (the edge count: a tree has fewer edges than nodes)
    the search stops while nodes are still unreached and closeness is computed from a truncated distance list."""
    ctx.rule("R-C06-8", "in the closeness kernels the size of a visited / result collection is compared only with the node count, never with an edge count")
    n = 0
    for p in sorted(prog.bodies):
        b = prog.bodies[p]
        r_ = b
        while r_.kind == "closure":
            r_ = prog.bodies[r_.item["parent"]]
        if not r_.short.startswith("algorithms::centrality::closeness::"):
            continue
        fl = flows.of(b)
        for st in b.stmts():
            if not (st.k == "assign" and st.rv.k == "binop" and st.rv.j["op"] in ("Eq", "Ne", "Lt", "Le", "Gt", "Ge")):
                continue
            sides = []
            for o in st.rv.ops:
                if o.place is None:
                    sides.append(set())
                    continue
                sl = fl.slice_local(fl._op_reads(o), data_only=True)
                sides.append({b.blocks[nd[1]].term.callee.short.split("::")[-1] for nd in sl if nd[0] == "CALL" and b.blocks[nd[1]].term.callee})
            counts = [x & {"number_of_nodes", "number_of_edges", "size", "get_all_edges", "get_all_nodes", "get_all_node_names"} for x in sides]
            if not any(counts) or not any("len" in x for x in sides):
                continue
            n += 1
            bad = sorted((counts[0] | counts[1]) & {"number_of_edges", "size", "get_all_edges"})
            ctx.require(not bad, "R-C06-8", "count-compare|%s|%d" % (b.short.split("::")[-1], n), "%s compares a collection size with the node count" % b.short.split("::")[-1],
                        "%s compares the size of a collection with %s: the early exit of the search then fires when as many nodes have been reached as the graph has EDGES -- on a graph with fewer edges than nodes (a tree, a path) deeper nodes are never reached and the closeness of the source is computed from a truncated list" % (b.short, "/".join(bad)), loc_str(st.span))
    ctx.counters["count_comparisons_in_closeness_kernels"] = n


def rule10(ctx, prog, flows, root):
    """two small decisions around the formula: (a) the quotient (r-1)/T is taken only when the distance sum T is
    STRICTLY positive ("0 when nothing else reaches u": T = 0 there, and 0/0 is NaN); (b) the weighted kernel reports
    exactly the nodes whose final distance is not f64::MAX (the reached ones)."""
    from engines import predicate_true_paths

    ctx.rule("R-C06-10", "the quotient is guarded by a strict `distance sum > 0`; the weighted kernel's result keeps exactly the entries whose distance != f64::MAX")
    gnc = prog.find("closeness::get_node_centrality")
    n = 0
    if gnc:
        b = gnc[0]
        fl = flows.of(b)
        for st in b.stmts():
            if not (st.k == "assign" and st.rv.k == "binop" and st.rv.j["op"] == "Div" and st.lhs.ty == "f64"):
                continue
            for (te, v, a) in controlling_atoms(fl, st.bb):
                if isinstance(te, tuple) and te[0] == "binop" and te[1] in ("Gt", "Ge", "Lt", "Le") and desc_mentions(te, lambda x: x[0] == "call" and x[1].split("::")[-1] in ("sum", "fold")) and desc_mentions(te, lambda x: x[0] == "const" and x[1].replace("const ", "").startswith("0")):
                    n += 1
                    sum_left = desc_mentions(te[2], lambda x: x[0] == "call" and x[1].split("::")[-1] in ("sum", "fold"))
                    # the relation that HOLDS on this path, written as `sum REL 0`
                    rel = te[1] if v else {"Gt": "Le", "Ge": "Lt", "Lt": "Ge", "Le": "Gt"}[te[1]]
                    if not sum_left:
                        rel = {"Gt": "Lt", "Ge": "Le", "Lt": "Gt", "Le": "Ge"}[rel]
                    ctx.require(rel == "Gt", "R-C06-10", "sum-positive|%d" % n, "the quotient is taken under `distance sum > 0`", "the quotient is taken under `distance sum %s 0`: for a node nothing else reaches the sum is 0 and (r-1)/0 is NaN (or infinite) instead of the 0 the definition gives" % {"Ge": ">=", "Lt": "<", "Le": "<="}.get(rel, rel), loc_str(st.span))
    for sfx in ("closeness::single_source_shortest_path_length_weighted",):
        k = prog.one(sfx)
        for cb in prog.closures_of(k.path):
            if cb.local_ty(0) != "bool":
                continue
            paths = predicate_true_paths(flows.of(cb), cb)
            if paths is None:
                continue
            if not any(any("MAX" in o for o in ops) for pth in paths for (_r, _p, ops) in pth):
                continue
            n += 1
            ok = len(paths) == 1 and len(paths[0]) == 1 and all(rel == "eq" and pol is False for (rel, pol, ops) in paths[0])
            ctx.require(ok, "R-C06-10", "reached-filter|%s" % sfx.split("::")[-1], "%s keeps exactly the entries whose distance is not f64::MAX" % sfx.split("::")[-1],
                        "the result filter of %s is true under %s: it keeps the UNREACHED nodes (distance f64::MAX) or drops reached ones, so r and the distance sum are those of the wrong node set" % (sfx, [sorted(("%s%s(%s)" % ("" if pol else "!", rel, ",".join(sorted(ops)))) for (rel, pol, ops) in pth) for pth in paths]), loc_str(cb.span))
    ctx.counters["closeness_small_decisions"] = n


def rule11(ctx, prog, flows, root):
    """R-C06-11: "a value for every node" -- every Ok return of closeness_centrality lies behind the per-node computation: the
    loop (serial) or the mapped closure (parallel) in which get_node_centrality is called.  With the headers of those
    constructs removed from the CFG no Ok construction may remain reachable: an early `return Ok(map)` for a degenerate
    graph hands back a map with no entry at all, where C06 requires an entry (0) for every node."""
    from engines import result_ctor_sites
    from hashord import natural_loop_blocks

    ctx.rule("R-C06-11", "every Ok return of closeness_centrality is reached only through the per-node loop / mapped closure that calls the closeness formula")
    anchors = set()
    loops = root_loops(root)
    for t in root.calls():
        if t.callee and t.callee.short.endswith("closeness::get_node_centrality"):
            inner = [(h, lb) for (h, lb) in loops if t.bb in lb]
            if inner:
                anchors.add(min(inner, key=lambda x: len(x[1]))[0])
    clos = [c for c in prog.closures_of(root.path) if any(t.callee and t.callee.short.endswith("closeness::get_node_centrality") for t in c.calls())]
    if clos:
        for t in root.calls():
            if t.callee and t.callee.short.split("::")[-1] in ("map", "for_each", "map_init", "fold") and any(a.place is not None and "{closure" in (a.place.ty or "") for a in t.args):
                anchors.add(t.bb)
    if not anchors:
        ctx.anchor_lost("R-C06-11", "a loop or mapped closure in closeness_centrality that calls get_node_centrality")
        return
    oks = result_ctor_sites(root, "Ok")
    reach = root.reachable_from(0, avoid=tuple(anchors)) | {0}
    n = 0
    fl_r = flows.of(root)

    def _empty_graph_guard(bb_):
        # an early Ok behind `number_of_nodes() == 0` / `get_all_nodes().is_empty()` is the whole answer for a graph
        # without nodes
        for (te, v, a) in controlling_atoms(fl_r, bb_):
            if not isinstance(te, tuple):
                continue
            on_nodes = desc_mentions(te, lambda x: isinstance(x, tuple) and ((x[0] == "call" and x[1].split("::")[-1] in ("number_of_nodes", "get_all_nodes", "get_all_node_names")) or (x[0] == "place" and x[1].split(".")[-1] in ("nodes_vec", "num_nodes"))))
            empt = desc_mentions(te, lambda x: isinstance(x, tuple) and ((x[0] == "call" and x[1].split("::")[-1] == "is_empty") or (x[0] == "const" and x[1].replace("const ", "").startswith("0"))))
            if on_nodes and empt:
                return True
        return False

    for (bb, st) in oks:
        n += 1
        if bb in reach and _empty_graph_guard(bb):
            ctx.ok("R-C06-11", "ok-behind-per-node-computation|%d" % n, "early Ok behind a test that the graph has no nodes", loc_str(st.span))
            continue
        ctx.require(bb not in reach, "R-C06-11", "ok-behind-per-node-computation|%d" % n, "the Ok return is reached only through the per-node computation",
                    "closeness_centrality can return Ok without running the per-node computation (an early return): the map handed back has no entry for the nodes, where every node must get a value (0 when nothing else reaches it)", loc_str(st.span))
    ctx.floor("R-C06-11", "ok_returns", n, 1)


def root_loops(body):
    """[(header, blocks)] natural loops of the body"""
    from hashord import natural_loop_blocks

    out = []
    for blk in body.normal_blocks():
        for y in body.succ(blk.i):
            if body.dominates(y, blk.i):
                out.append((y, natural_loop_blocks(body, y)))
    return out
