"""C01 -- mutations follow GraphSpecs; a rejected operation changes nothing (structural clauses)."""
from core import ASSUME_AT, ASSUME_RUSTC, ASSUME_PATHS
from effects import Effects
from engines import canon_exists, errorkind_sites, result_ctor_sites
from flow import Flows, L, fmt_desc, desc_mentions
from graphrules import INDEX_FIELDS, NODE, EDGE, SUCC, PRED, SLOT_KINDS, index_events, self_param, direct_index_access
from guard import ok_producers, _reach_without_edge
import panic
from mir import loc_str, short

LEVEL = "other"
EXPLANATION = (
    "Decides structural clauses of C01 on the MIR of the mutators, for every CFG path (hence every spec combination and input).  "
    "R-C01-1 failure atomicity: with a path-sensitive written-set dataflow over the inter-procedural write effects, no index field "
    "of the graph is written on any path from entry to a block that builds Err(..) in an atomic mutator; one exemption X1 matched by "
    "its dependence shape (add_node of a missing endpoint may precede DuplicateEdge, which requires a successful pair lookup).  "
    "R-C01-2 batch = prefix: batch wrappers write only through atomic mutators, iterate the input Vec by vec::IntoIter, and the Err "
    "outcome of each add_edge call reaches return without another mutator call; new_from_nodes_and_edges adds nodes before edges "
    "and returns Ok only on add_edges' Ok edge.  R-C01-3 each error kind is control-dependent on its own policy atoms with the right "
    "polarity, all six spec fields are read by add_edge, the silent-drop Ok writes nothing.  R-C01-4 add_node's per-path written sets "
    "are exactly REPLACE (index-assign + nodes_map_rev insert, no push, no nodes_map write) when the name exists, else APPEND (all "
    "seven per-node stores, vectors by push).  R-C01-5 the source endpoint is created before the target.  R-C01-8 add_edge and the batch wrappers (incl. the constructor) write the per-node stores only by calling add_node.  R-C01-7 the keyed accesses to `edges`/`edges_map` in add_edge and its callees (duplicate lookup, insertion) obey the stores' canonical-key discipline (same rule as R-C02-3).  NOT decided: that each "
    "branch computes the right outcome (e.g. KeepFirst/KeepLast swapped), weights/NaN handling."
)
TRUSTED = ["rustc MIR construction", "std HashMap/Vec semantics for insert/push/entry", "CFG paths over-approximate executions (X1 is the one named infeasible-path exemption)"]

ATOMIC = ["creation::Graph::add_edge", "creation::Graph::add_node"]
BATCH = ["creation::Graph::add_edges", "creation::Graph::add_edge_tuples", "creation::Graph::add_edge_tuple", "creation::Graph::add_nodes", "creation::Graph::new_from_nodes_and_edges"]


def through_names(fl, d, depth=3):
    """expand named single-def locals in a description (e.g. edge_already_exists -> is_ok(get_edge_by_indexes(..)))"""
    if not isinstance(d, tuple) or depth <= 0:
        return d
    if d[0] == "place" and "." not in d[1] and "[" not in d[1]:
        ls = fl.b.locals_named(d[1])
        if len(ls) == 1 and ls[0] > fl.b.arg_count:
            df = fl.b.assigns_to(ls[0])
            if len(df) == 1:
                x = df[0][1]
                if getattr(x, "k", None) == "call":
                    nm = x.callee.short if x.callee else "<indirect>"
                    return ("call", nm, tuple(through_names(fl, fl.describe(a, depth=8), depth - 1) for a in x.args))
                if x.rv is not None and x.rv.k in ("unop", "binop"):
                    # `let needs_full = !can_use_basic(..)`: keep the operator
                    return through_names(fl, panic.norm(fl.describe_def(x, depth=8)), depth - 1)
                if x.rv is not None and x.rv.ops:
                    return through_names(fl, fl.describe(x.rv.ops[0], depth=8), depth - 1)
        return d
    if d[0] == "call":
        return ("call", d[1], tuple(through_names(fl, x, depth - 1) for x in d[2]))
    if d[0] == "unop":
        return ("unop", d[1], through_names(fl, d[2], depth - 1))
    if d[0] == "binop":
        return ("binop", d[1], through_names(fl, d[2], depth - 1), through_names(fl, d[3], depth - 1))
    return d


def variant_count(fl, test):
    if not (isinstance(test, tuple) and test[0] == "discr" and len(test) >= 3):
        return None
    ty = str(test[2]).lstrip("&").replace("mut ", "").strip()
    if ty.startswith("std::option::Option<") or ty.startswith("std::result::Result<"):
        return 2
    a = fl.prog.adts.get(ty.split("<")[0])
    if a and a.get("kind") == "Enum":
        return len(a["variants"])
    return None


def controlling_atoms(fl, bb, direct=False):
    """[(atom test (names expanded), value taken)] for all switches bb is transitively control-dependent on
    (direct=True: only the switches it is immediately control-dependent on)"""
    b = fl.b
    out = []
    for (a, succ) in (sorted(b.control_deps().get(bb, ())) if direct else b.transitive_control_deps(bb)):
        at = fl.atom(a)
        if not at:
            continue
        test = through_names(fl, panic.norm(at["test"]))
        neg = False
        while isinstance(test, tuple) and test[0] == "unop" and test[1] == "Not":
            neg = not neg
            test = test[2]
        if at["ty"] == "bool":
            val = succ == at["otherwise"]
            if neg:
                val = not val
        else:
            vals = [v for (v, t) in at["targets"] if t == succ]
            if not vals and succ == at["otherwise"]:
                # `if let Some(x) = o {..} else {..}` lists only the tested variant: the else edge stands for
                # the remaining variants
                n_var = variant_count(fl, test)
                if n_var:
                    vals = sorted(set(range(n_var)) - {v for (v, t) in at["targets"]})
            val = tuple(vals) if vals else "otherwise"
        # one canonical form for "is K a key of M", however it is written
        ce = canon_exists(fl, test, val, a)
        if ce is not None and not (test[0] == "call" and test[1].endswith("contains_key")):
            test, val = ("call", "std::collections::HashMap::contains_key", (ce[0], ce[1])), ce[2]
        out.append((test, val, a))
    return out


def run(ctx):
    prog = ctx.prog
    flows = Flows(prog)
    effects = Effects(prog, flows)
    for a in (ASSUME_AT, ASSUME_RUSTC, ASSUME_PATHS):
        ctx.assume(a)
    add_edge = prog.one("creation::Graph::add_edge")
    add_node = prog.one("creation::Graph::add_node")

    # classification: who writes index fields, directly or through callees
    direct = direct_index_access(prog)
    atomic = sorted(direct.keys())
    ctx.counters["direct_index_writers"] = [short(p) for p in atomic]

    rule1(ctx, prog, flows, effects, add_edge)
    rule2(ctx, prog, flows, effects)
    rule3(ctx, prog, flows, effects, add_edge)
    rule4(ctx, prog, flows, effects, add_node)
    rule5(ctx, prog, flows, add_edge)
    rule6(ctx, prog, flows, effects, add_edge)
    # R-C01-8: who may create a node.  add_node is the one place that decides between REPLACE and APPEND (R-C01-4);
    # add_edge (and the batch wrappers) create missing endpoints by CALLING it.  A node-store append written into
    # add_edge itself (directly or through a new helper that was spliced in) bypasses that decision.
    ctx.rule("R-C01-8", "add_edge and the batch wrappers write the per-node stores only by calling add_node")
    NODE_STORES = ("nodes_vec", "nodes_map", "nodes_map_rev")
    for sfx in ["creation::Graph::add_edge"] + BATCH:
        wb = prog.one(sfx)
        direct_w = []
        for (bb, site, f, kind) in index_events(effects, wb):
            if f not in NODE_STORES or kind in SLOT_KINDS:
                continue
            via = site.callee.short.split("::")[-1] if getattr(site, "k", None) == "call" and site.callee else "assign"
            tp = site.callee.target_path(prog) if getattr(site, "k", None) == "call" and site.callee else None
            if tp is not None and (tp == add_node.path or any(prog.one(x).path == tp for x in ATOMIC + BATCH)):
                continue
            direct_w.append("%s via %s at %s" % (f, via, loc_str(site.span)))
        ctx.require(not direct_w, "R-C01-8", "node-stores|" + wb.short.split("::")[-1], "%s creates nodes only through add_node" % sfx.split("::")[-1], "%s writes the node stores itself (%s): the existing-name check of add_node is bypassed, so a name can be appended twice (a self-loop on a new node, a repeated name in a batch)" % (sfx.split("::")[-1], "; ".join(sorted(set(direct_w))[:3])), loc_str(wb.span))

    # R-C01-7: the duplicate test and the stores agree on the pair's key (either orientation when undirected)
    from props.c02 import key_discipline

    only = prog.reachable_bodies([add_edge.path])
    key_discipline(ctx, prog, flows, "R-C01-7", only, 2, 5, why=" -- restricted to add_edge and its callees: the duplicate test finds the stored pair in either orientation only if lookup and insertion canonicalise alike")


# ---------------------------------------------------------------------------------------- R-C01-1


def rule1(ctx, prog, flows, effects, add_edge):
    ctx.rule("R-C01-1", "failure atomicity: no index field is written on any CFG path to an Err(..) exit of an atomic mutator (exemption X1 by dependence shape)")
    for path in sorted(prog.bodies):
        b = prog.bodies[path]
        if b.kind == "closure" or not b.local_ty(0).startswith("std::result::Result<"):
            continue
        evs = index_events(effects, b)
        if not evs:
            continue
        # atomic mutator = writes index fields other than exclusively through Result-returning mutators
        sp = self_param(b)
        fl = flows.of(b)

        def tag(e):
            (bb, site, obj, kind) = e
            if obj[0] != "P" or obj[1] != sp:
                return None
            from graphrules import field_of

            f = field_of(obj)
            if f not in INDEX_FIELDS:
                return None
            callee = site.callee.short.split("::")[-1] if getattr(site, "k", None) == "call" and site.callee else "assign"
            return (f, bb, callee)

        IN, OUT = effects.written_sets(path, tag)
        err_sites = result_ctor_sites(b, "Err")
        n_err = 0
        for (bb, s) in err_sites:
            if s.rv.ty != b.local_ty(0):
                continue
            n_err += 1
            kinds = [v for (kb, ks, v) in errorkind_sites(b) if kb == bb or b.dominates(kb, bb)]
            kind = kinds[-1] if kinds else "?"
            key = "%s|Err(%s)" % (b.short, kind)
            bad = []
            exempt = []
            is_atomic = any(prog.one(a).path == b.path for a in ATOMIC)
            via_mutators = {a.split("::")[-1] for a in ATOMIC + BATCH}
            for st in IN.get(bb, ()):
                for (f, wbb, callee) in st:
                    if not is_atomic and callee in via_mutators:
                        # a batch wrapper keeps the prefix it applied by specification (R-C01-2 decides the
                        # wrappers); only writes it makes itself count here, however the error is re-returned
                        continue
                    if x1_exempt(prog, flows, b, fl, wbb, callee, bb):
                        exempt.append((f, callee))
                    else:
                        bad.append((f, callee, loc_str(b.blocks[wbb].term.span)))
            if bad:
                bad = sorted(set(bad))
                ctx.violation("R-C01-1", key, "%s can return Err(%s) after having written %s: a rejected call leaves the graph changed" % (b.short.split("::")[-1], kind, ["%s via %s at %s" % x for x in bad][:4]), loc_str(s.span))
            else:
                ctx.ok("R-C01-1", key, "no index write reaches Err(%s) in %s%s" % (kind, b.short.split("::")[-1], (" (X1: add_node of a missing endpoint precedes it; infeasible with a successful pair lookup)" if exempt else "")), loc_str(s.span))
        # delegated error returns (`?`): the callee's Err is re-returned; writes before it count too
        for t in b.calls():
            if t.callee and t.callee.short.endswith("FromResidual::from_residual"):
                n_err += 1
                key = "%s|Err(?-propagated@%s)" % (b.short, fl.field_path(t.args[0].place) if t.args and t.args[0].place is not None else "")
                bad = sorted({(f, callee) for st in IN.get(t.bb, ()) for (f, wbb, callee) in st})
                # batch wrappers keep their prefix by specification: only atomic mutators are checked here
                if any(x.path == b.path for x in [prog.one(a) for a in ATOMIC]):
                    ctx.require(not bad, "R-C01-1", key, "no index write before a propagated error in %s" % b.short, "index writes %s before a propagated error in %s" % (bad[:4], b.short), loc_str(t.span))
        ctx.counters["err_exits|" + b.short.split("::")[-1]] = n_err
    ctx.floor("R-C01-1", "add_edge_err_exits", ctx.counters.get("err_exits|add_edge", 0), 3)


def x1_exempt(prog, flows, b, fl, wbb, callee, err_bb):
    """X1: the write is an add_node call control-dependent on !contains_key(nodes_map, endpoint), and
    the Err is control-dependent on a successful pair lookup"""
    if callee != "add_node":
        return False
    ok_w = False
    for (test, val, a) in controlling_atoms(fl, wbb):
        if isinstance(test, tuple) and test[0] == "call" and test[1].endswith("HashMap::contains_key") and val is False and fmt_desc(test[2][0]).endswith("nodes_map"):
            ok_w = True
    ok_e = False
    for (test, val, a) in controlling_atoms(fl, err_bb):
        if desc_mentions(test, lambda d: d[0] == "call" and d[1].split("::")[-1] in ("get_edge_by_indexes", "get_edges_by_indexes")) and val is True:
            if desc_mentions(test, lambda d: d[0] == "call" and d[1].endswith("::is_ok")):
                ok_e = True
    return ok_w and ok_e


# ---------------------------------------------------------------------------------------- R-C01-2


def closure_short_circuits(prog, flows, cb):
    """the closure is handed to an adaptor that stops pulling elements at the first failure: try_for_each / try_fold /
    all / any / find.., or `map(..)` whose values are collected into a `Result<_, _>` (the Result shunt stops at the
    first Err)"""
    for (pp, s_) in flows.closure_sites(cb.path):
        pb = prog.bodies[pp]
        pf = flows.of(pp)
        cls = pf.copies_of(s_.lhs.local)
        for t in pb.calls():
            if not t.callee or not any(a.place is not None and a.place.local in cls for a in t.args[1:]):
                continue
            nm = t.callee.short.split("::")[-1]
            if nm in ("try_for_each", "try_fold", "all", "any", "find", "find_map", "position", "try_find"):
                return True
            if nm in ("map", "map_while", "scan"):
                # follow the adaptor's value to its consumer
                cur = {t.dest.local}
                for _ in range(6):
                    nxt = set(cur)
                    for t2 in pb.calls():
                        if t2.args and t2.args[0].place is not None and t2.args[0].place.local in pf.copies_of(next(iter(cur))) | cur:
                            n2 = t2.callee.short.split("::")[-1] if t2.callee else ""
                            if n2 in ("collect", "from_iter", "sum", "product", "try_collect") and t2.dest.ty.startswith("std::result::Result<"):
                                return True
                            nxt.add(t2.dest.local)
                    for st in pb.stmts():
                        if st.k == "assign" and st.rv.k == "use" and st.rv.ops[0].place is not None and st.rv.ops[0].place.local in cur and not st.lhs.proj:
                            nxt.add(st.lhs.local)
                    if nxt == cur:
                        break
                    cur = nxt
    return False


def in_input_order(ity):
    """the iterator type walks a Vec front to back, every element once: vec::IntoIter / slice::Iter, possibly under
    lazy one-to-one adaptors (Map, Enumerate, Cloned, Copied, Inspect) -- not Rev, Skip, StepBy, Filter, Chain, .."""
    t = ity
    for pre in ("&mut ", "&"):
        if t.startswith(pre):
            t = t[len(pre):]
    for _ in range(6):
        for ad in ("std::iter::Map<", "std::iter::Enumerate<", "std::iter::Cloned<", "std::iter::Copied<", "std::iter::Inspect<"):
            if t.startswith(ad):
                t = t[len(ad):]
                break
        else:
            break
    return t.startswith("std::vec::IntoIter<") or t.startswith("std::slice::Iter<")


def rule2(ctx, prog, flows, effects):
    ctx.rule("R-C01-2", "batch wrappers: writes only through atomic mutators, in Vec order, the first Err returns at once; constructor adds nodes first and is Ok only on add_edges' Ok edge")
    atomic_paths = {prog.one(a).path for a in ATOMIC}
    direct = direct_index_access(prog)
    mutators = set(atomic_paths)
    for sfx in BATCH:
        mutators.add(prog.one(sfx).path)
    n = 0
    for sfx in BATCH:
        b = prog.one(sfx)
        fl = flows.of(b)
        n += 1
        # (a) no direct index access
        ctx.require(b.path not in direct, "R-C01-2", "nodirect|" + b.short, "%s writes the graph only through mutator calls" % sfx.split("::")[-1], "%s accesses index fields %s directly" % (sfx, sorted(direct.get(b.path, {}))), loc_str(b.span))
        mcalls = [t for t in b.calls() if t.callee and t.callee.target_path(prog) in mutators]
        # (b) loops iterate vec::IntoIter in order
        for t in b.calls():
            if t.callee and t.callee.short == "std::iter::Iterator::next":
                ity = t.args[0].place.ty if t.args and t.args[0].place is not None else ""
                ok = in_input_order(ity)
                ctx.require(ok, "R-C01-2", "order|" + b.short, "%s iterates its input as vec::IntoIter (input order)" % sfx.split("::")[-1], "%s iterates %s: not the plain input order" % (sfx, ity), loc_str(t.span))
        # (c0) a mutator call that survives inside a closure (handed to fold / map / for_each-with-and ..; the early-exit
        # adaptors try_for_each and plain loops have been lowered into this body) has no `return` to leave the batch with
        for cb_ in prog.closures_of(b.path):
            if closure_short_circuits(prog, flows, cb_):
                continue
            for t_ in cb_.calls():
                tp_ = t_.callee.target_path(prog) if t_.callee else None
                if tp_ in mutators and prog.bodies[tp_].local_ty(0).startswith("std::result::Result<"):
                    ctx.violation("R-C01-2", "errexit-closure|%s|%s" % (b.short, prog.bodies[tp_].short.split("::")[-1]), "%s calls %s inside a closure whose result is merely combined (fold / and / map): the batch cannot stop at the first Err, so edges after the failing one are applied as well" % (sfx, prog.bodies[tp_].short.split("::")[-1]), loc_str(t_.span))
        # (c) every Result-returning mutator call: Err leaves at once
        for t in mcalls:
            cb = prog.bodies[t.callee.target_path(prog)]
            if not cb.local_ty(0).startswith("std::result::Result<"):
                continue
            key = "errexit|%s|%s" % (b.short, cb.short.split("::")[-1])
            # result returned as is
            if t.dest.local == 0 and not t.dest.proj:
                ctx.ok("R-C01-2", key, "%s returns %s's result as is" % (sfx.split("::")[-1], cb.short.split("::")[-1]), loc_str(t.span))
                continue
            sw = result_switch(b, fl, t)
            if sw is None:
                ctx.violation("R-C01-2", key, "%s does not branch on the result of %s: an error of one element is ignored and later elements are still applied" % (sfx, cb.short.split("::")[-1]), loc_str(t.span))
                continue
            (sbb, cont, errs) = sw
            mblocks = {x.bb for x in mcalls}
            leak = []
            for e in errs:
                r = b.reachable_from(e)
                if r & mblocks:
                    leak.append(e)
                if not any(b.blocks[x].term.k == "return" for x in r):
                    leak.append(e)
            ctx.require(not leak, "R-C01-2", key, "the Err outcome of %s in %s reaches return without another mutator call" % (cb.short.split("::")[-1], sfx.split("::")[-1]), "after an Err of %s, %s continues with further mutations" % (cb.short.split("::")[-1], sfx), loc_str(t.span))
    ctx.floor("R-C01-2", "batch_wrappers", n, 5)
    # constructor
    ctor = prog.one("creation::Graph::new_from_nodes_and_edges")
    fl = flows.of(ctor)
    an = [t for t in ctor.calls() if t.callee and t.callee.short.endswith("Graph::add_nodes")]
    ae = [t for t in ctor.calls() if t.callee and t.callee.short.endswith("Graph::add_edges")]
    if len(an) != 1 or len(ae) != 1:
        ctx.anchor_lost("R-C01-2", "one add_nodes and one add_edges call in new_from_nodes_and_edges")
        return
    ctx.require(ctor.dominates(an[0].bb, ae[0].bb), "R-C01-2", "ctor-order", "constructor adds the nodes before the edges", None, loc_str(ae[0].span))
    sw = result_switch(ctor, fl, ae[0])
    prods = ok_producers(ctor) or []
    okb = [bb for (bb, w, s) in prods if w == "Ok(..)"]
    good = sw is not None and okb and all(bb not in _reach_without_edge(ctor, (sw[0], sw[1])) for bb in okb)
    ctx.require(good, "R-C01-2", "ctor-ok", "constructor returns Ok(graph) only on the Ok edge of add_edges", "constructor can return Ok(graph) although add_edges failed", loc_str(ae[0].span))


def result_switch(b, fl, t):
    """(switch bb, continue succ, [error succs]) for the switch on the discriminant of call t's result
    (directly, or through Try::branch / moves)"""
    for blk in b.normal_blocks():
        if blk.term.k != "switch" or not b.dominates(t.bb, blk.i):
            continue
        if blk.term.discr.place is None:
            continue
        d = fl.single_def(blk.term.discr.place.local)
        if d is None or getattr(d, "rv", None) is None or d.rv.k != "discr":
            continue
        local = d.rv.place.local
        hops = 0
        found = False
        while hops < 8:
            hops += 1
            df = fl.single_def(local)
            if df is None:
                break
            if getattr(df, "k", None) == "call":
                if df is t or df.bb == t.bb:
                    found = True
                    break
                nm = df.callee.short if df.callee else ""
                if nm.endswith("Try::branch") and df.args and df.args[0].place is not None:
                    local = df.args[0].place.local
                    continue
                break
            if df.rv is not None and df.rv.k == "use" and df.rv.ops[0].place is not None and not df.rv.ops[0].place.proj:
                local = df.rv.ops[0].place.local
                continue
            break
        if not found:
            continue
        cont = dict(blk.term.targets).get(0, blk.term.otherwise)
        errs = [s for s in b.succ(blk.i) if s != cont]
        return (blk.i, cont, errs)
    return None


# ---------------------------------------------------------------------------------------- R-C01-3


def rule3(ctx, prog, flows, effects, add_edge):
    ctx.rule("R-C01-3", "each error kind of add_edge is control-dependent on its own policy atoms (right polarity); all six spec fields are read; the silent drop writes nothing")
    b = add_edge
    fl = flows.of(b)

    def has(atoms, pred):
        return any(pred(t, v) for (t, v, a) in atoms)

    def place_ends(t, suffix):
        return isinstance(t, tuple) and t[0] == "place" and t[1].endswith(suffix)

    def mentions(t, f):
        return desc_mentions(t, f)

    REQ = {
        "SelfLoopsFound": [
            ("specs.self_loops is false", lambda t, v: place_ends(t, "specs.self_loops") and v is False),
            ("the endpoints are equal", lambda t, v: isinstance(t, tuple) and t[0] == "call" and t[1].endswith("PartialEq::eq") and v is True and mentions(t, lambda d: d[0] == "place" and d[1].endswith(".u")) and mentions(t, lambda d: d[0] == "place" and d[1].endswith(".v"))),
            ("self_loops_false_strategy is Error", lambda t, v: isinstance(t, tuple) and t[0] == "discr" and t[1].endswith("specs.self_loops_false_strategy") and variant_is(prog, "graph_specs::SelfLoopsFalseStrategy", v, "Error")),
        ],
        "NodeNotFound": [
            ("missing_node_strategy is Error", lambda t, v: isinstance(t, tuple) and t[0] == "call" and t[1].endswith("PartialEq::eq") and v is True and mentions(t, lambda d: d[0] == "place" and d[1].endswith("specs.missing_node_strategy")) and mentions(t, lambda d: d[0] == "const" and d[1].endswith("MissingNodeStrategy::Error"))),
            ("an endpoint is absent from nodes_map", lambda t, v: isinstance(t, tuple) and t[0] == "call" and t[1].endswith("HashMap::contains_key") and v is False and fmt_desc(t[2][0]).endswith("nodes_map")),
        ],
        "DuplicateEdge": [
            ("edge_dedupe_strategy is Error", lambda t, v: isinstance(t, tuple) and t[0] == "call" and t[1].endswith("PartialEq::eq") and v is True and mentions(t, lambda d: d[0] == "place" and d[1].endswith("specs.edge_dedupe_strategy")) and mentions(t, lambda d: d[0] == "const" and d[1].endswith("EdgeDedupeStrategy::Error"))),
            ("specs.multi_edges is false", lambda t, v: place_ends(t, "specs.multi_edges") and v is False),
            ("the pair lookup succeeded", lambda t, v: v is True and mentions(t, lambda d: d[0] == "call" and d[1].split("::")[-1] == "get_edge_by_indexes") and mentions(t, lambda d: d[0] == "call" and d[1].endswith("::is_ok"))),
        ],
    }
    sites = {v: (bb, s) for (bb, s, v) in errorkind_sites(b)}
    for kind, reqs in REQ.items():
        if kind not in sites:
            ctx.anchor_lost("R-C01-3", "ErrorKind::%s construction in add_edge" % kind)
            continue
        bb, s = sites[kind]
        atoms = controlling_atoms(fl, bb)
        for (what, pred) in reqs:
            ctx.require(has(atoms, pred), "R-C01-3", "%s|%s" % (kind, what), "Err(%s) is returned only when %s" % (kind, what), "Err(%s) is NOT conditional on: %s (controlling tests: %s)" % (kind, what, sorted({fmt_desc(t) + "=" + str(v) for (t, v, a) in atoms})[:8]), loc_str(s.span))
    # policy honoured on every atom-consistent path: no node is created under MissingNodeStrategy::Error
    from engines import feasible_states

    def kills(bb):
        t = b.blocks[bb].term
        if t.k == "call" and t.callee and t.callee.short.endswith("Graph::add_node"):
            return ["nodes_map"]
        return []

    states = feasible_states(b, fl, kills, keep=lambda k: "missing_node_strategy" in k or ("contains_key" in k and "nodes_map" in k))
    if states is None:
        ctx.undecided("R-C01-3", "missing-node-policy", "state space too large for the atom-consistent path exploration")
    else:
        bad = []
        n_calls = 0
        for t in b.calls():
            if t.callee and t.callee.short.endswith("Graph::add_node"):
                n_calls += 1
                for facts in states.get(t.bb, ()):
                    fd = dict(facts)
                    strat = [v for (k, v) in fd.items() if "missing_node_strategy" in k and "MissingNodeStrategy::Error" in k]
                    if True in strat:
                        bad.append((loc_str(t.span), sorted(k for (k, v) in fd.items() if "contains_key" in k)))
        ctx.require(n_calls >= 2 and not bad, "R-C01-3", "missing-node-policy", "no atom-consistent path creates a node while missing_node_strategy == Error (%d creation sites)" % n_calls, "a missing endpoint can be created although missing_node_strategy == Error: %s" % bad[:2], loc_str(b.span))
    extra = [v for v in sites if v not in REQ]
    for v in extra:
        ctx.violation("R-C01-3", "extra-kind|" + v, "add_edge builds an unexpected error kind %s" % v, loc_str(sites[v][1].span))
    # all six spec fields are read
    read = set()
    places = []
    for st in b.stmts():
        places += ([st.rv.place] if st.rv is not None and st.rv.place is not None else []) + [o.place for o in (st.rv.ops if st.rv is not None else []) if o.place is not None]
    for blk in b.normal_blocks():
        t = blk.term
        if t.k == "switch" and t.discr.place is not None:
            places.append(t.discr.place)
        elif t.k == "call":
            places += [o.place for o in t.args if o.place is not None]
    for pl in places:
        fs = pl.fields()
        if "specs" in fs and fs.index("specs") + 1 < len(fs):
            read.add(fs[fs.index("specs") + 1])
    want = {"directed", "edge_dedupe_strategy", "missing_node_strategy", "multi_edges", "self_loops", "self_loops_false_strategy"}
    ctx.require(want <= read, "R-C01-3", "specs-read", "add_edge consults all six GraphSpecs fields", "add_edge never reads specs.%s" % sorted(want - read), loc_str(b.span))
    # the silent drop: an Ok return controlled by the Drop variant, with nothing written before
    sp = self_param(b)

    def tag(e):
        from graphrules import field_of

        f = field_of(e[2]) if e[2][0] == "P" and e[2][1] == sp else None
        return f if f in INDEX_FIELDS else None

    IN, OUT = effects.written_sets(b.path, tag)
    found = False
    for (bb, w, s) in ok_producers(b) or []:
        if w != "Ok(..)":
            continue
        atoms = controlling_atoms(fl, bb)
        if has(atoms, lambda t, v: isinstance(t, tuple) and t[0] == "discr" and t[1].endswith("specs.self_loops_false_strategy") and variant_is(prog, "graph_specs::SelfLoopsFalseStrategy", v, "Drop")):
            found = True
            written = set().union(*IN.get(bb, [frozenset()]))
            ok_sl = has(atoms, lambda t, v: place_ends(t, "specs.self_loops") and v is False) and has(atoms, lambda t, v: isinstance(t, tuple) and t[0] == "call" and t[1].endswith("PartialEq::eq") and v is True)
            ctx.require(not written and ok_sl, "R-C01-3", "silent-drop", "a self-loop under the Drop policy returns Ok(()) with no store written, only when self_loops is false and the endpoints are equal", "the silent-drop return wrote %s / lost its conditions" % sorted(written), loc_str(s.span))
    if not found:
        ctx.violation("R-C01-3", "silent-drop", "no Ok(()) return controlled by SelfLoopsFalseStrategy::Drop found in add_edge: a self-loop is never silently dropped", loc_str(b.span))
    # EDGE-group write decision depends on multi_edges, the pair lookup and a test separating KeepLast
    edge_events = [(bb, site, f, k) for (bb, site, f, k) in index_events(effects, b) if f in EDGE and k in ("HashMap::insert", "Vec::push")]
    n_dec = 0
    for (bb, site, f, k) in edge_events:
        atoms = controlling_atoms(fl, bb)
        n_dec += 1
        ctx.require(has(atoms, lambda t, v: place_ends(t, "specs.multi_edges")), "R-C01-3", "edge-write|%s|%s|%s" % (f, k, multi_tag(atoms)), "the %s on `%s` is decided by specs.multi_edges" % (k, f), None, loc_str(site.span))
    ctx.floor("R-C01-3", "edge_store_writes", n_dec, 2)
    # the replacing insert (pair exists) must sit under a test that separates KeepLast from the rest
    for (bb, site, f, k) in edge_events:
        atoms = controlling_atoms(fl, bb)
        exists = has(atoms, lambda t, v: v is True and mentions(t, lambda d: d[0] == "call" and d[1].split("::")[-1] == "get_edge_by_indexes"))
        if k == "HashMap::insert" and exists:
            sep = has(atoms, lambda t, v: isinstance(t, tuple) and t[0] == "discr" and t[1].endswith("specs.edge_dedupe_strategy") and variant_is(prog, "graph_specs::EdgeDedupeStrategy", v, "KeepLast"))
            # the same test written with `==` / `!=` instead of a `match`
            sep = sep or has(atoms, lambda t, v: isinstance(t, tuple) and t[0] == "call" and t[1].split("::")[-1] in ("eq", "ne") and v is (t[1].split("::")[-1] == "eq") and mentions(t, lambda d: d[0] == "place" and d[1].endswith("specs.edge_dedupe_strategy")) and mentions(t, lambda d: d[0] == "const" and d[1].endswith("EdgeDedupeStrategy::KeepLast")))
            ctx.require(sep, "R-C01-3", "replace|%s" % f, "replacing the stored edge in `%s` happens only under EdgeDedupeStrategy::KeepLast" % f, "the stored edge in `%s` is replaced without a test that separates KeepLast from KeepFirst" % f, loc_str(site.span))


def multi_tag(atoms):
    for (t, v, a) in atoms:
        if isinstance(t, tuple) and t[0] == "place" and t[1].endswith("specs.multi_edges"):
            return "multi=%s" % v
    return "multi=?"


def variant_is(prog, enum_path, vals, name):
    a = prog.adts.get(enum_path)
    if not a or not isinstance(vals, tuple):
        return False
    names = [v["name"] for v in a["variants"]]
    return all(0 <= x < len(names) and names[x] == name for x in vals) and len(vals) >= 1


# ---------------------------------------------------------------------------------------- R-C01-4


def rule4(ctx, prog, flows, effects, add_node):
    ctx.rule("R-C01-4", "add_node: every path writes exactly REPLACE (name present) or APPEND (name absent); re-adding keeps position")
    b = add_node
    fl = flows.of(b)
    sp = self_param(b)

    def tag(e):
        from graphrules import field_of

        (bb, site, obj, kind) = e
        f = field_of(obj) if obj[0] == "P" and obj[1] == sp else None
        if f not in INDEX_FIELDS:
            return None
        if kind in ("Entry::or_insert", "Entry::or_insert_with", "Entry::or_default") and f in ("nodes_map", "nodes_map_rev"):
            # `m.entry(k).or_insert(v)` is `if !m.contains_key(k) { m.insert(k, v) }`
            return (f, "HashMap::insert")
        if kind in SLOT_KINDS:
            return None
        return (f, kind)

    IN, OUT = effects.written_sets(b.path, tag)
    REPLACE = frozenset({("nodes_vec", "assign"), ("nodes_map_rev", "HashMap::insert")})
    APPEND_MUST = frozenset({("nodes_vec", "Vec::push"), ("successors_map", "HashMap::insert"), ("predecessors_map", "HashMap::insert"), ("successors_vec", "Vec::push"), ("predecessors_vec", "Vec::push")})
    APPEND_OPT = frozenset({("nodes_map", "HashMap::insert"), ("nodes_map_rev", "HashMap::insert")})
    rets = b.return_blocks()
    sets = set()
    for r in rets:
        sets |= OUT.get(r, set())
    shapes = {"REPLACE": 0, "APPEND": 0}
    bad = []
    full_append = False
    for st in sets:
        if st == REPLACE:
            shapes["REPLACE"] += 1
        elif APPEND_MUST <= st and st <= (APPEND_MUST | APPEND_OPT):
            shapes["APPEND"] += 1
            if st == (APPEND_MUST | APPEND_OPT):
                full_append = True
        else:
            bad.append(sorted(st))
    if bad:
        ctx.violation("R-C01-4", "shapes", "add_node has a path whose written set is neither REPLACE nor APPEND: %s" % bad[:2], loc_str(b.span))
    else:
        ctx.ok("R-C01-4", "shapes", "add_node paths write REPLACE (%d) or APPEND (%d shapes incl. the full one)" % (shapes["REPLACE"], shapes["APPEND"]), loc_str(b.span))
    ctx.require(full_append and shapes["REPLACE"] >= 1, "R-C01-4", "both-shapes", "both shapes occur (a path inserting into all seven per-node stores exists)", "a shape is missing: REPLACE=%d full APPEND=%s" % (shapes["REPLACE"], full_append), loc_str(b.span))
    # the optional inserts may only be skipped under contains_key of the same map
    for (bb, site, f, k) in index_events(effects, b):
        if (f, k) in APPEND_OPT and bb in b.reachable_from(0):
            atoms = controlling_atoms(fl, bb)
            inner = [(t, v) for (t, v, a) in atoms if isinstance(t, tuple) and t[0] == "call" and t[1].endswith("HashMap::contains_key") and fmt_desc(t[2][0]).endswith(f)]
            top = [(t, v) for (t, v, a) in atoms if isinstance(t, tuple) and t[0] == "call" and t[1].endswith("HashMap::contains_key") and fmt_desc(t[2][0]).endswith("nodes_map")]
            if (f, k) == ("nodes_map_rev", "HashMap::insert") and any(v is True for (t, v) in top):
                continue  # the REPLACE insert
            others = [(t, v) for (t, v, a) in atoms if (t, v) not in inner and (t, v) not in top]
            ctx.require(not others and all(v is False for (t, v) in inner), "R-C01-4", "optional|%s" % f, "the APPEND insert into `%s` is skipped only when the key is already present" % f, "the APPEND insert into `%s` is conditional on %s" % (f, [fmt_desc(t) for (t, v) in others][:3]), loc_str(site.span))
    # REPLACE only when the name exists, APPEND only when it does not
    for (bb, site, f, k) in index_events(effects, b):
        if k in SLOT_KINDS:
            continue
        atoms = controlling_atoms(fl, bb)
        top = [v for (t, v, a) in atoms if isinstance(t, tuple) and t[0] == "call" and t[1].endswith("HashMap::contains_key") and fmt_desc(t[2][0]).endswith("nodes_map") and fmt_desc(t[2][1]).endswith(".name")]
        want = True if (f, k) == ("nodes_vec", "assign") else (False if k == "Vec::push" else None)
        if want is None:
            continue
        ctx.require(want in top and (not want) not in top, "R-C01-4", "arm|%s|%s" % (f, k), "`%s` %s happens only when the name is %s" % (f, k, "present" if want else "absent"), "`%s` %s is not tied to nodes_map.contains_key(name) == %s" % (f, k, want), loc_str(site.span))
    # the replaced slot is the node's own position
    for (bb, site, f, k) in index_events(effects, b):
        if (f, k) == ("nodes_vec", "IndexMut::index_mut"):
            idx = panic.norm(fl.describe(site.args[1], depth=8))
            sl = fl.slice_local(fl._op_reads(site.args[1]), data_only=True)
            ok = any(n[0] == "CALL" and b.blocks[n[1]].term.callee and b.blocks[n[1]].term.callee.short.split("::")[-1] in ("get_node_index", "get") for n in sl)
            ctx.require(ok, "R-C01-4", "replace-position", "the replaced slot is the position looked up for the node's name", "the replaced slot index is %s" % fmt_desc(idx), loc_str(site.span))


# ---------------------------------------------------------------------------------------- R-C01-5


def rule5(ctx, prog, flows, add_edge):
    ctx.rule("R-C01-5", "missing endpoints are created source first")
    b = add_edge
    fl = flows.of(b)
    calls = [t for t in b.calls() if t.callee and t.callee.short.endswith("Graph::add_node")]
    us, vs = [], []
    for t in calls:
        sl = fl.slice_local(fl._op_reads(t.args[1]), data_only=True) if len(t.args) > 1 else set()
        # which field of the edge does the new node's name come from?
        reads_u = reads_v = False
        for n in sl:
            if n[0] == "L":
                for (dbb, d) in b.assigns_to(n[1]):
                    rv = getattr(d, "rv", None)
                    if rv is not None and rv.place is not None:
                        fs = rv.place.fields()
                        if fs[-1:] == ["u"]:
                            reads_u = True
                        if fs[-1:] == ["v"]:
                            reads_v = True
        if reads_u and not reads_v:
            us.append(t)
        elif reads_v and not reads_u:
            vs.append(t)
    if len(us) != 1 or len(vs) != 1:
        ctx.anchor_lost("R-C01-5", "one add_node(edge.u) and one add_node(edge.v) call in add_edge (found %d/%d)" % (len(us), len(vs)))
        return
    # no path reaches the v-creation without having passed the point of the u-creation decision:
    # the u call's block (or its guarding switch) must precede: v call not reachable from entry avoiding
    # the switch that guards the u call
    cd_u = [a for (a, s) in b.control_deps().get(us[0].bb, ())]
    ok = bool(cd_u) and all(b.dominates(a, vs[0].bb) for a in cd_u) and vs[0].bb not in b.reachable_from(0, avoid=tuple(cd_u)) and us[0].bb not in b.reachable_from(vs[0].bb)
    ctx.require(ok, "R-C01-5", "source-first", "the creation of edge.u is decided and done before the creation of edge.v", "edge.v may be created before edge.u", loc_str(vs[0].span))


# ---------------------------------------------------------------------------------------- R-C01-6


def rule6(ctx, prog, flows, effects, add_edge):
    """the complete policy -> outcome table of add_edge, decided on atom-consistent paths"""
    import pathsens

    ctx.rule("R-C01-6", "policy -> outcome table of add_edge (path-sensitive predicate abstraction): the error kind / silent drop / store writes on every atom-consistent path are those the specs dictate")
    b = add_edge
    fl = flows.of(b)
    marks = {}
    for (bb, s, v) in errorkind_sites(b):
        marks.setdefault(bb, set()).add("Err:" + v)
    for (bb, site, f, kind) in index_events(effects, b):
        via = site.callee.short.split("::")[-1] if getattr(site, "k", None) == "call" and site.callee else "assign"
        if via == "add_node":
            marks.setdefault(bb, set()).add("add_node")
        elif f in EDGE and kind in ("HashMap::insert", "Vec::push"):
            marks.setdefault(bb, set()).add("%s:%s" % (f, kind.split("::")[-1]))
        elif f == "predecessors" and kind == "HashSet::insert":
            marks.setdefault(bb, set()).add("PRED")
        elif f == "successors" and kind == "HashSet::insert":
            marks.setdefault(bb, set()).add("SUCC@%d" % bb)

    def kills(bb):
        t = b.blocks[bb].term
        if t.k == "call" and t.callee and t.callee.short.endswith("Graph::add_node"):
            return ["nodes_map"]
        return []

    ex = pathsens.Explorer(b, fl, prog, markers=marks, kills=kills)
    outs = ex.run()
    if ex.truncated or not outs:
        ctx.undecided("R-C01-6", "table", "state space too large")
        return
    keys = set()
    for (bb, f, m) in outs:
        for k, v in f:
            keys.add(k)

    def find(pred):
        r = [k for k in keys if pred(k)]
        return r

    def one(pred, what):
        r = find(pred)
        if len(r) != 1:
            raise KeyError("%s (found %d)" % (what, len(r)))
        return r[0]

    try:
        SL = one(lambda k: isinstance(k, str) and k.endswith("specs.self_loops"), "atom specs.self_loops")
        MULTI = one(lambda k: isinstance(k, str) and k.endswith("specs.multi_edges"), "atom specs.multi_edges")
        DIR = one(lambda k: isinstance(k, str) and k.endswith("specs.directed"), "atom specs.directed")
        LOOP = one(lambda k: isinstance(k, str) and k.startswith("eq(") and ".u" in k and ".v" in k, "atom eq(edge.u, edge.v)")
        SLS = one(lambda k: isinstance(k, tuple) and k[1].endswith("specs.self_loops_false_strategy"), "atom self_loops_false_strategy")
        MNS = one(lambda k: isinstance(k, tuple) and k[1].endswith("specs.missing_node_strategy"), "atom missing_node_strategy")
        DED = one(lambda k: isinstance(k, tuple) and k[1].endswith("specs.edge_dedupe_strategy"), "atom edge_dedupe_strategy")
        CU = one(lambda k: isinstance(k, str) and k.startswith("contains_key(") and k.endswith(".u)"), "atom contains_key(nodes_map, edge.u)")
        CV = one(lambda k: isinstance(k, str) and k.startswith("contains_key(") and k.endswith(".v)"), "atom contains_key(nodes_map, edge.v)")
    except KeyError as e:
        ctx.violation("R-C01-6", "atoms", "add_edge no longer branches on the expected policy predicate: %s" % e, loc_str(b.span))
        return
    lookups = sorted(find(lambda k: isinstance(k, str) and "get_edge_by_indexes" in k and k.startswith("is_ok(")))
    dup_rows = [dict(f) for (bb, f, m) in outs if "Err:DuplicateEdge" in m]
    EX1 = EX2 = None
    c1 = [k for k in lookups if dup_rows and all(f.get(k) is True for f in dup_rows)]
    if len(c1) == 1:
        EX1 = c1[0]
    rest = [k for k in lookups if k != EX1]
    if len(lookups) == 1:
        EX2 = EX1
    elif len(rest) == 1:
        EX2 = rest[0]
    if EX1 is None or EX2 is None:
        ctx.violation("R-C01-6", "atoms", "the duplicate decision / the single-edge store decision is not based on a pair lookup (lookups: %s)" % lookups, loc_str(b.span))
        return
    universe = {SL: [False, True], MULTI: [False, True], DIR: [False, True], LOOP: [False, True], EX1: [False, True], EX2: [False, True],
                SLS: ["Error", "Drop"], MNS: ["Error", "Create"], DED: ["Error", "KeepFirst", "KeepLast"]}
    OBS = ("Err:SelfLoopsFound", "Err:NodeNotFound", "Err:DuplicateEdge", "PRED", "edges:insert", "edges_map:insert", "edges:push", "edges_map:push")
    problems = []
    rows = 0
    table = {}
    for (bb, f, m) in outs:
        fd = dict(f)
        nsucc = len([x for x in m if x.startswith("SUCC@")])
        obs = frozenset(x for x in m if x in OBS)
        for comp in pathsens.completions(f, universe):
            rows += 1
            exp = None
            if not comp[SL] and comp[LOOP]:
                exp = frozenset({"Err:SelfLoopsFound"}) if comp[SLS] == "Error" else frozenset()
                exp_succ = 0
            else:
                if comp[MNS] == "Error":
                    cu, cv = fd.get(CU), fd.get(CV)
                    if cu is False or cv is False:
                        exp = frozenset({"Err:NodeNotFound"})
                        exp_succ = 0
                    elif "add_node" in m:
                        problems.append("a node is created although missing_node_strategy == Error")
                        continue
                if exp is None:
                    if comp[DED] == "Error" and not comp[MULTI] and comp[EX1]:
                        exp = frozenset({"Err:DuplicateEdge"})
                        exp_succ = 0
                    else:
                        e = set()
                        if comp[DIR]:
                            e.add("PRED")
                        if comp[MULTI]:
                            e |= {"edges:push", "edges_map:push"}
                        elif not comp[EX2] or comp[DED] == "KeepLast":
                            e |= {"edges:insert", "edges_map:insert"}
                        exp = frozenset(e)
                        exp_succ = 1 if comp[DIR] else 2
            if exp is not None and (obs != exp or nsucc != exp_succ):
                show = {str(k).split("specs.")[-1].replace("')", ""): (sorted(v)[0] if isinstance(v, frozenset) else v) for k, v in comp.items()}
                problems.append("under %s add_edge does %s + %d successor updates, the specs dictate %s + %d" % (show, sorted(obs), nsucc, sorted(exp), exp_succ))
    ctx.counters["add_edge_paths"] = len(outs)
    ctx.counters["add_edge_table_rows"] = rows
    ctx.floor("R-C01-6", "add_edge_paths", len(outs), 20)
    uniq = []
    for p_ in problems:
        if p_ not in uniq:
            uniq.append(p_)
    ctx.require(not uniq, "R-C01-6", "table", "all %d atom-consistent paths x completions (%d rows) of add_edge produce exactly the outcome the specs dictate" % (len(outs), rows), "add_edge deviates from the policy table in %d row(s), e.g. %s" % (len(uniq), "; ".join(uniq[:2])), loc_str(b.span))
