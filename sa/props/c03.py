"""C03 -- algorithms traverse exactly the stored edges, with their current weights (structural clauses)."""
from core import ASSUME_AT, ASSUME_RUSTC, ASSUME_PATHS
from effects import Effects
from flow import Flows, L, fmt_desc, desc_mentions
from graphrules import INDEX_FIELDS, EDGE, SUCC, PRED, SLOT_KINDS, index_events, self_param, field_of
import panic
from props.c01 import controlling_atoms, variant_is
from mir import loc_str, short

LEVEL = "other"
EXPLANATION = (
    "Decides structural clauses of C03.  R-C03-1 the traversal lists (successors_vec / predecessors_vec) are written only by "
    "add_to_adjacency_vec (called from add_edge next to the edge-store update) and by add_node's empty push.  R-C03-2 only the two "
    "by-index accessors read those lists, and the algorithm kernels obtain adjacency exclusively through them (so the weight they "
    "use IS the cached weight).  R-C03-3 same policy for cache and store: the decision to replace the cached weight of an existing "
    "pair depends (inter-procedurally) on specs.multi_edges and on a test that separates KeepLast from KeepFirst -- the policy "
    "under which the stored edge itself is replaced; a cache update with no dependence on the policy is wrong for some policy.  "
    "R-C03-4 pairing: the adjacency-list updates use the same positions as the adjacency-set updates, predecessor update = swapped "
    "successor update, undirected = both orientations, `exists` comes from the pair lookup made before any write, weight from the "
    "edge.  R-C03-5 on the multi-edge path the replacement keeps the SMALLER weight (operator and operand roles; only a positively "
    "identified wrong direction alarms).  NOT decided: the numerical equality of distances with those computed from get_all_edges()."
)
TRUSTED = ["rustc MIR construction", "over-approximated dependence (absence is definite)"]

KERNELS = [
    "dijkstra::dijkstra",
    "dijkstra::dijkstra_basic",
    "betweenness::bfs",
    "betweenness::dijkstra",
    "closeness::single_source_shortest_path_length_unweighted",
    "closeness::single_source_shortest_path_length_weighted",
    "weak_connectivity::bfs_equal_size_partitions",
    "query::Graph::get_neighbor_nodes",
]



def value_operands(fl, pn0, t, want=None):
    """(name inside the helper, operand in the caller) for every scalar the helper receives: plain arguments, and
    the fields of a struct argument built in the caller (a private `Policy { .. }` / `Update { .. }`)"""
    out = []
    for i, a in enumerate(t.args):
        if a.place is None or i >= len(pn0):
            if a.place is None and i < len(pn0):
                out.append((pn0[i], a))
            continue
        # a struct passed by value / by copy: find the aggregate that built it
        l = a.place.local
        d = None
        for _ in range(5):
            d = fl.single_def(l)
            if d is None or getattr(d, "rv", None) is None:
                d = None
                break
            if d.rv.k == "use" and d.rv.ops and d.rv.ops[0].place is not None and not d.rv.ops[0].place.proj:
                l = d.rv.ops[0].place.local
                continue
            break
        if d is not None and d.rv.k == "aggr" and d.rv.j.get("ak") == "adt" and not a.place.proj and d.rv.j.get("fields"):
            for fname, o in zip(d.rv.j.get("fields") or [], d.rv.ops):
                out.append(("%s.%s" % (pn0[i], fname), o))
        else:
            out.append((pn0[i], a))

    def ty(o):
        return o.place.ty if o.place is not None else (o.c or {}).get("ty")
    if want is not None:
        out = [(n, o) for (n, o) in out if ty(o) == want]
    return out


def decision_table(ctx, prog, flows, effects, add_edge, helper, hcalls, repl):
    import pathsens

    fl = flows.of(add_edge)
    hf = flows.of(helper)
    # parameter roles of the helper, from the provenance of the arguments at its call sites
    roles = {}
    pn0 = helper.param_names()

    def flag_operands(t):
        return value_operands(fl, pn0, t, want="bool")

    for t in hcalls:
        for (i, a) in flag_operands(t):
            sl = flows.slice(add_edge.path, fl._op_reads(a), up=False, down=False, data_only=True)
            fields = {".".join(f for f in n[2] if f != "*") for (bp, n) in sl if n[0] == "SRC"}
            calls = set()
            consts = set()
            for (bp, n) in sl:
                if n[0] == "CALL":
                    tt = add_edge.blocks[n[1]].term
                    if tt.callee:
                        calls.add(tt.callee.short.split("::")[-1])
                        if tt.callee.short.endswith("PartialEq::eq"):
                            for x in tt.args:
                                d = panic.norm(fl.describe(x, depth=8))
                                if d[0] == "const":
                                    consts.add(d[1].split("::")[-1])
            role = None
            if "get_edge_by_indexes" in calls:
                role = "exists"
            elif any(f.endswith("specs.multi_edges") for f in fields):
                role = "multi"
            elif any(f.endswith("specs.edge_dedupe_strategy") for f in fields) and "KeepLast" in consts:
                role = "keep_last"
            elif any(f.endswith("specs.edge_dedupe_strategy") for f in fields) and "KeepFirst" in consts:
                role = "keep_first"
            if role:
                roles.setdefault(i, set()).add(role)
    by_role = {}
    for i, rs in roles.items():
        if len(rs) == 1:
            by_role[next(iter(rs))] = i
    need = {"exists", "multi"}
    if not need <= set(by_role) or not ({"keep_last", "keep_first"} & set(by_role)):
        ctx.violation("R-C03-6", "roles", "the helper that updates the traversal cache does not receive (pair exists, multi_edges, KeepLast/KeepFirst test) from add_edge: got %s -- the cache cannot follow the dedupe policy" % sorted(by_role), loc_str(helper.span))
        return
    marks = {}
    for s in repl:
        marks.setdefault(s.bb, set()).add("REPLACE")
    for t in helper.calls():
        if t.callee and t.callee.short.endswith("Vec::push"):
            marks.setdefault(t.bb, set()).add("PUSH")
    ex = pathsens.Explorer(helper, hf, prog, markers=marks)
    outs = ex.run()
    if ex.truncated or not outs:
        ctx.undecided("R-C03-6", "table", "state space too large / no exits")
        return
    cmp_keys = sorted({k for (bb, f, m) in outs for (k, v) in f if isinstance(k, str) and k[:3] in ("Lt(", "Gt(", "Le(", "Ge(") and "weight" in k})
    E, M = by_role["exists"], by_role["multi"]
    K = by_role.get("keep_last") or by_role.get("keep_first")
    k_is_last = "keep_last" in by_role
    universe = {E: [False, True], M: [False, True], K: [False, True]}
    for ck in cmp_keys:
        universe[ck] = [False, True]
    # observed table: total valuation -> marker set
    table = {}
    bad = []
    for (bb, f, m) in outs:
        m = frozenset(x for x in m if x in ("REPLACE", "PUSH"))
        for comp in pathsens.completions(f, universe):
            key = tuple(sorted(comp.items(), key=str))
            if key in table and table[key] != m:
                bad.append("non-deterministic outcome for %s" % dict(key))
            table[key] = m
    ctx.counters["cache_update_table_rows"] = len(table)
    # which polarity of the comparison replaces (decided separately by R-C03-5)
    problems = []
    for key, m in table.items():
        v = dict(key)
        if not v[E]:
            want = {frozenset({"PUSH"})}
        elif v[M]:
            want = None  # depends on the comparison: checked below
        else:
            keep_last = v[K] if k_is_last else (not v[K])
            want = {frozenset({"REPLACE"})} if keep_last else {frozenset()}
        if want is not None and m not in want:
            problems.append("pair_exists=%s multi_edges=%s %s=%s -> %s (expected %s)" % (v[E], v[M], K, v[K], sorted(m), sorted(next(iter(want)))))
    # multi-edge rows: REPLACE for exactly one value of the weight comparison, independent of the dedupe flag
    for kv in (False, True):
        rows = {dict(k)[cmp_keys[0]] if cmp_keys else None: m for k, m in table.items() if dict(k)[E] and dict(k)[M] and dict(k)[K] == kv}
        if not cmp_keys or set(rows.values()) != {frozenset({"REPLACE"}), frozenset()}:
            problems.append("on a multi-edge graph (%s=%s) the cached weight is replaced %s instead of exactly when the new weight is smaller" % (K, kv, {str(a): sorted(b) for a, b in rows.items()}))
    ctx.require(not problems and not bad, "R-C03-6", "table", "the cache update follows the table: new pair -> push; multi-edge -> replace iff the weight comparison holds (whatever the dedupe flag); single-edge -> replace iff KeepLast (%d rows)" % len(table),
                "the traversal-cache update deviates from the policy table: %s" % "; ".join((problems + bad)[:3]), loc_str(helper.span))


def run(ctx):
    prog = ctx.prog
    flows = Flows(prog)
    effects = Effects(prog, flows)
    for a in (ASSUME_AT, ASSUME_RUSTC, ASSUME_PATHS):
        ctx.assume(a)
    add_edge = prog.one("creation::Graph::add_edge")
    helper = prog.one("creation::add_to_adjacency_vec")
    fl = flows.of(add_edge)

    # ------------------------------------------------------------------ R-C03-1
    ctx.rule("R-C03-1", "traversal lists are written only by add_to_adjacency_vec (in add_edge) and by add_node's empty push")
    n = 0
    for p in sorted(prog.bodies):
        b = prog.bodies[p]
        if b.kind == "closure":
            continue
        for (bb, site, f, kind) in index_events(effects, b):
            if f not in ("successors_vec", "predecessors_vec"):
                continue
            via = site.callee.short.split("::")[-1] if getattr(site, "k", None) == "call" and site.callee else "assign"
            if via in ("add_node", "add_edge", "add_edges", "add_nodes", "add_edge_tuple", "add_edge_tuples"):
                continue  # inherited from the atomic mutators
            if via in ("deref_mut", "as_mut_slice", "as_mut", "borrow_mut"):
                continue  # `&mut *vec` / `vec.as_mut_slice()`: only a view of the list, handed on to the operation that writes
            n += 1
            key = "%s|%s|%s" % (b.short, f, via)
            if b.path == add_edge.path:
                ctx.require(via == "add_to_adjacency_vec", "R-C03-1", key, "`%s` updated through add_to_adjacency_vec" % f, "`%s` written in add_edge by %s, bypassing add_to_adjacency_vec" % (f, via), loc_str(site.span))
            elif b.short.endswith("creation::Graph::add_node"):
                ok = via == "push" and kind == "Vec::push"
                if ok and len(site.args) > 1:
                    d = panic.norm(flows.of(b).describe(site.args[1], depth=6))
                    ok = d[0] == "call" and d[1].endswith("Vec::new") or (d[0] == "call" and "from_elem" in d[1]) or fmt_desc(d).startswith("new(")
                ctx.require(ok, "R-C03-1", key, "add_node pushes an empty adjacency list for the new position", "add_node writes `%s` by %s with a non-empty value" % (f, via), loc_str(site.span))
            else:
                ctx.violation("R-C03-1", key, "%s writes the traversal list `%s` (%s)" % (b.short, f, via), loc_str(site.span))
    ctx.floor("R-C03-1", "adjacency_list_writes", n, 2)

    # ------------------------------------------------------------------ R-C03-2
    ctx.rule("R-C03-2", "only the by-index accessors read the traversal lists; kernels get adjacency only through them")
    readers = {}
    for p, b in prog.bodies.items():
        for s in b.stmts():
            if s.k != "assign" or s.rv.place is None:
                continue
            for e in s.rv.place.proj:
                if isinstance(e, dict) and e.get("f") in ("successors_vec", "predecessors_vec") and e.get("of", "").startswith("graph::Graph<"):
                    readers.setdefault(b.short, set()).add(e["f"])
    allowed = {"graph::query::Graph::get_successor_nodes_by_index", "graph::query::Graph::get_predecessor_nodes_by_index", "graph::creation::Graph::add_node", "graph::creation::Graph::add_edge"}
    for r, fs in sorted(readers.items()):
        ctx.require(r in allowed, "R-C03-2", "reader|" + r, "%s accesses %s" % (r.split("::")[-1], sorted(fs)), "%s reads the traversal lists %s directly" % (r, sorted(fs)))
    acc = {prog.one("query::Graph::get_successor_nodes_by_index").path, prog.one("query::Graph::get_predecessor_nodes_by_index").path}
    n_calls = 0
    for sfx in KERNELS:
        b = prog.one(sfx)
        calls = [t for t in b.calls() if t.callee and t.callee.target_path(prog) in acc]
        for c in prog.closures_of(b.path):
            calls += [t for t in c.calls() if t.callee and t.callee.target_path(prog) in acc]
        n_calls += len(calls)
        # no other source of adjacency in a kernel: no call to the name-keyed adjacency API
        other = [t.callee.short.split("::")[-1] for t in b.calls() if t.callee and t.callee.short.split("::")[-1] in ("get_successors_map", "get_predecessors_map", "get_successor_nodes", "get_predecessor_nodes", "get_all_edges", "get_edges_for_node", "get_out_edges_for_node", "get_in_edges_for_node")]
        ctx.require(calls and not other, "R-C03-2", "kernel|" + b.short, "%s reads adjacency only through the by-index accessors (%d call sites)" % (sfx.split("::")[-1], len(calls)), "%s: by-index accessor calls=%d, other adjacency sources=%s" % (sfx, len(calls), other), loc_str(b.span))
    ctx.floor("R-C03-2", "by_index_accessor_calls_in_kernels", n_calls, 4)
    # who may call the raw accessors: the list may repeat a neighbour (undirected self-loop) and carries one
    # (minimum / policy) weight per pair, not per-edge weights -- every consumer was reviewed for that
    REVIEWED = {
        ("dijkstra::dijkstra", "succ"), ("dijkstra::dijkstra_basic", "succ"), ("betweenness::bfs", "succ"), ("betweenness::dijkstra", "succ"),
        ("closeness::single_source_shortest_path_length_unweighted", "succ"), ("closeness::single_source_shortest_path_length_weighted", "succ"),
        ("weak_connectivity::bfs_equal_size_partitions", "succ"), ("query::Graph::get_neighbor_nodes", "succ"), ("query::Graph::get_neighbor_nodes", "pred"),
    }
    for p2 in sorted(prog.bodies):
        b2 = prog.bodies[p2]
        root = b2
        while root.kind == "closure":
            root = prog.bodies[root.item["parent"]]
        for t in b2.calls():
            tp = t.callee.target_path(prog) if t.callee else None
            if tp not in acc:
                continue
            which = "succ" if "successor" in tp else "pred"
            ok = any(root.short.endswith(r) and w == which for (r, w) in REVIEWED)
            ctx.require(ok, "R-C03-2", "caller|%s|%s" % (root.short, which), "%s is a reviewed consumer of the raw %s list" % (root.short.split("::")[-1], which), "%s reads the raw %s adjacency list: it may list a neighbour twice (undirected self-loop) and holds one policy weight per pair, not the stored edges' weights; this consumer was not reviewed for that" % (root.short, "successor" if which == "succ" else "predecessor"), loc_str(t.span))
    # the accessors return the stored list itself
    for a in acc:
        b = prog.bodies[a]
        sl = flows.of(b).slice_local([L(0)], data_only=True)
        fields = {field_of(("P", n_[1], n_[2])) for n_ in sl if n_[0] == "SRC"}
        want = "successors_vec" if "successor" in b.short else "predecessors_vec"
        ctx.require(want in fields, "R-C03-2", "accessor|" + b.short, "%s returns a reference into `%s`" % (b.short.split("::")[-1], want), "%s does not return `%s` (returns from %s)" % (b.short, want, sorted(x for x in fields if x)), loc_str(b.span))

    # R-C03-8: get_neighbor_nodes is a reviewed consumer of the raw rows BECAUSE it removes the repetitions an undirected
    # self-loop leaves there; the reason is a rule (shared with C02)
    from props.c02 import rule11 as _raw_rows_deduplicated

    _raw_rows_deduplicated(ctx, prog, flows, "R-C03-8")

    # ------------------------------------------------------------------ R-C03-3
    ctx.rule("R-C03-3", "the decision to replace a cached weight depends on specs.multi_edges and on a test separating KeepLast from KeepFirst")
    hf = flows.of(helper)
    repl = []
    for s in helper.stmts():
        if s.k == "assign" and s.lhs.has_deref() and s.lhs.ty.endswith("AdjacentNode"):
            repl.append(s)
    if not repl:
        # field-wise replacement (`x.weight = w`)
        for s in helper.stmts():
            if s.k == "assign" and s.lhs.has_deref() and s.lhs.fields()[-1:] == ["weight"]:
                repl.append(s)
    if not repl:
        ctx.anchor_lost("R-C03-3", "the assignment that replaces a cached AdjacentNode in add_to_adjacency_vec")
    for s in repl:
        starts = {("SW", a) for (a, succ) in helper.transitive_control_deps(s.bb)}
        sl = flows.slice(helper.path, starts, up=True, down=True)
        fields = set()
        sep = False
        for (bp, n_) in sl:
            if n_[0] == "SRC":
                fields.add(".".join(f for f in n_[2] if f != "*"))
            b2 = prog.bodies[bp]
            f2 = flows.of(b2)
            if n_[0] == "CALL":
                t = b2.blocks[n_[1]].term
                if t.callee and t.callee.short.endswith("PartialEq::eq"):
                    ds = [panic.norm(f2.describe(a, depth=8)) for a in t.args]
                    if any(fmt_desc(d).endswith("specs.edge_dedupe_strategy") for d in ds) and any(d[0] == "const" and d[1].split("::")[-1] in ("KeepLast", "KeepFirst") for d in ds):
                        sep = True
            if n_[0] == "SW":
                at = f2.atom(n_[1])
                if at and at["test"][0] == "discr" and at["test"][1].endswith("specs.edge_dedupe_strategy"):
                    a = prog.adts.get("graph_specs::EdgeDedupeStrategy")
                    names = [v["name"] for v in a["variants"]] if a else []
                    tg = dict(at["targets"])
                    if "KeepLast" in names and "KeepFirst" in names:
                        kl = tg.get(names.index("KeepLast"), at["otherwise"])
                        kf = tg.get(names.index("KeepFirst"), at["otherwise"])
                        if kl != kf:
                            sep = True
        has_multi = any(f.endswith("specs.multi_edges") for f in fields)
        has_strat = any(f.endswith("specs.edge_dedupe_strategy") for f in fields)
        ctx.require(has_multi and has_strat and sep, "R-C03-3", "cache-policy", "replacing a cached weight depends on specs.multi_edges and on a KeepLast/KeepFirst-separating test of specs.edge_dedupe_strategy",
                    "the cached traversal weight of an existing pair is replaced under a decision that ignores the dedupe policy (depends on multi_edges=%s, edge_dedupe_strategy=%s, separating test=%s): for KeepLast the stored edge gets the new weight even if larger, for KeepFirst it keeps the old one even if larger, so shortest paths disagree with get_all_edges()" % (has_multi, has_strat, sep), loc_str(s.span))

    # ------------------------------------------------------------------ R-C03-4
    ctx.rule("R-C03-4", "adjacency-list updates are paired with the adjacency-set updates: same positions, predecessor = swapped successor, both orientations when undirected")
    hcalls = [t for t in add_edge.calls() if t.callee and t.callee.target_path(prog) == helper.path]
    if not ctx.floor("R-C03-4", "add_to_adjacency_vec_calls", len(hcalls), 2):
        return

    def base_local(op):
        """the named local an operand is a copy of"""
        seen = 0
        while op is not None and op.place is not None and seen < 6:
            seen += 1
            l = op.place.local
            if add_edge.local_name(l) is not None:
                return l
            d = fl.single_def(l)
            if d is None or getattr(d, "rv", None) is None or d.rv.k != "use":
                return l
            op = d.rv.ops[0]
        return None

    info = []
    for t in hcalls:
        store = None
        for o in fl._operand_pts(t.args[0]):
            if o[0] == "P" and field_of(o) in ("successors_vec", "predecessors_vec"):
                store = field_of(o)
        a, b_ = base_local(t.args[1]), base_local(t.args[2])
        atoms = controlling_atoms(fl, t.bb)
        dirv = [v for (te, v, x) in atoms if isinstance(te, tuple) and te[0] == "place" and te[1].endswith("specs.directed")]
        info.append((t, store, a, b_, dirv))
    base = [x for x in info if not x[4]]
    dir_true = [x for x in info if True in x[4]]
    dir_false = [x for x in info if False in x[4]]
    ok_shape = len(base) == 1 and len(dir_true) == 1 and len(dir_false) == 1
    ctx.require(ok_shape, "R-C03-4", "three-updates", "one unconditional successor update, one predecessor update (directed), one reverse successor update (undirected)", "adjacency-list updates have an unexpected shape: %s" % [(x[1], x[4]) for x in info], loc_str(add_edge.span))
    if ok_shape:
        (t0, s0, a0, b0, _), (t1, s1, a1, b1, _), (t2, s2, a2, b2, _) = base[0], dir_true[0], dir_false[0]
        ctx.require(s0 == "successors_vec" and s1 == "predecessors_vec" and s2 == "successors_vec", "R-C03-4", "stores", "updates target successors_vec / predecessors_vec (directed) / successors_vec (undirected)", "wrong store: %s %s %s" % (s0, s1, s2), loc_str(t0.span))
        ctx.require(a0 != b0 and (a1, b1) == (b0, a0), "R-C03-4", "pred-swapped", "the predecessor update uses the successor update's positions swapped", "the predecessor update uses positions (%s,%s) for a successor update (%s,%s)" % (add_edge.local_name(a1), add_edge.local_name(b1), add_edge.local_name(a0), add_edge.local_name(b0)), loc_str(t1.span))
        ctx.require((a2, b2) == (b0, a0), "R-C03-4", "undirected-reverse", "the undirected second update is the reverse orientation", "the undirected second update uses (%s,%s), not the reverse of (%s,%s)" % (add_edge.local_name(a2), add_edge.local_name(b2), add_edge.local_name(a0), add_edge.local_name(b0)), loc_str(t2.span))
        # the positions are those of the edge's endpoints (looked up in nodes_map by edge.u / edge.v)
        for (t, store, a, b_, dv) in info:
            for pos_l in (a, b_):
                sl = fl.slice_local([L(pos_l)], data_only=False)
                srcs = {field_of(("P", n_[1], n_[2])) for n_ in sl if n_[0] == "SRC"}
                ctx.require("nodes_map" in srcs, "R-C03-4", "pos-from-nodes_map|%s" % add_edge.local_name(pos_l), "position `%s` derives from nodes_map" % add_edge.local_name(pos_l), None, loc_str(t.span))
    first_write = None
    lookups = [t for t in add_edge.calls() if t.callee and t.callee.short.endswith("Graph::get_edge_by_indexes")]
    for t in hcalls:
        # weight <- edge.weight ; exists <- pair lookup
        pn_h = helper.param_names()
        wops = value_operands(fl, pn_h, t, want="f64")
        wd = panic.norm(panic.expand_names(fl, panic.norm(fl.describe(wops[0][1], depth=8)))) if len(wops) == 1 else ("?", "%d f64 operands" % len(wops))
        if len(wops) == 1 and wd[0] == "place" and "." not in wd[1]:
            # `let weight = edge.weight;` -- a named copy of the field
            from engines import value_of_named

            v_ = value_of_named(fl, wd[1])
            if isinstance(v_, tuple):
                wd = panic.norm(v_)
        ctx.require(len(wops) == 1 and fmt_desc(wd).endswith(".weight") and "edge" in fmt_desc(wd), "R-C03-4", "weight-arg", "the cached weight is the new edge's weight", "the cached weight argument is %s" % fmt_desc(wd), loc_str(t.span))
        ok = False
        for (bn, bop) in value_operands(fl, pn_h, t, want="bool"):
            sl = fl.slice_local(fl._op_reads(bop), data_only=True)
            lk = [n_ for n_ in sl if n_[0] == "CALL" and add_edge.blocks[n_[1]].term.callee and add_edge.blocks[n_[1]].term.callee.short.endswith("Graph::get_edge_by_indexes")]
            if not lk:
                continue
            ok = True
            # ... and from nothing that is read from the adjacency stores themselves (they are being written)
            adj_reads = sorted({field_of(("P", n_[1], n_[2])) for n_ in sl if n_[0] == "SRC" and field_of(("P", n_[1], n_[2])) in (SUCC | PRED)})
            if adj_reads:
                ok = False
            # that lookup precedes every write of SUCC/PRED/EDGE stores
            if ok:
                lbb = lk[0][1]
                for (bb, site, f, kind) in index_events(effects, add_edge):
                    via = site.callee.short.split("::")[-1] if getattr(site, "k", None) == "call" and site.callee else "assign"
                    if f in (SUCC | PRED | EDGE) and via != "add_node" and not add_edge.dominates(lbb, bb):
                        ok = False
            break
        ctx.require(ok, "R-C03-4", "exists-arg", "`edge_already_exists` comes from the pair lookup made before any adjacency/edge store write", "`edge_already_exists` does not come from a pair lookup that precedes the writes", loc_str(t.span))

    # ------------------------------------------------------------------ R-C03-6 decision table
    ctx.rule("R-C03-6", "decision table of the adjacency-cache update (path-sensitive predicate abstraction): push iff the pair is new; replace iff (multi ? new<old : KeepLast)")
    decision_table(ctx, prog, flows, effects, add_edge, helper, hcalls, repl)

    # ------------------------------------------------------------------ R-C03-7
    ctx.rule("R-C03-7", "the shortest-path and centrality algorithms traverse the caller's graph or its reverse(), never a derived graph with other weights or edges (to_single_edges sums parallel weights, set_all_edge_weights replaces them, get_subgraph drops edges)")
    n7 = 0
    for p_ in sorted(prog.bodies):
        b_ = prog.bodies[p_]
        root_ = b_
        while root_.kind == "closure":
            root_ = prog.bodies[root_.item["parent"]]
        if not (root_.short.startswith("algorithms::shortest_path") or root_.short.startswith("algorithms::centrality")):
            continue
        for t_ in b_.calls():
            tp_ = t_.callee.target_path(prog) if t_.callee else None
            if not tp_:
                continue
            nm_ = short(tp_)
            if not (nm_.startswith("graph::convert::") or nm_.startswith("graph::subgraph::")):
                continue
            n7 += 1
            last_ = nm_.split("::")[-1]
            ctx.require(last_ == "reverse", "R-C03-7", "derived|%s|%s" % (b_.short, last_), "%s traverses reverse() of the caller's graph" % b_.short.split("::")[-1],
                        "%s runs on %s(..) of the caller's graph: the weights (or edges) it traverses are not those stored in the graph it was given -- on a multigraph to_single_edges makes the pair weight the SUM of the parallel edges, not their minimum" % (b_.short, last_), loc_str(t_.span))
    ctx.floor("R-C03-7", "derived_graph_calls", n7, 1)

    # ------------------------------------------------------------------ R-C03-5
    ctx.rule("R-C03-5", "on the multi-edge path the cached weight is replaced only by a smaller one")
    found = False
    repl_blocks = {s.bb for s in repl}
    for st in helper.stmts():
        if st.k != "assign" or st.rv.k != "binop" or st.rv.j["op"] not in ("Lt", "Gt", "Le", "Ge"):
            continue
        tys = [o.place.ty if o.place is not None else "" for o in st.rv.ops]
        if tys != ["f64", "f64"]:
            continue
        x, y = panic.norm(hf.describe(st.rv.ops[0], depth=8)), panic.norm(hf.describe(st.rv.ops[1], depth=8))
        sx, sy = fmt_desc(x), fmt_desc(y)
        if "weight" not in sx or "weight" not in sy:
            continue
        # the switch(es) whose discriminant this comparison flows into and that control the replacement
        for blk in helper.normal_blocks():
            if blk.term.k != "switch" or blk.term.discr.place is None:
                continue
            sl = hf.slice_local(hf._op_reads(blk.term.discr), data_only=True)
            if L(st.lhs.local) not in sl:
                continue
            t_succ, f_succ = blk.term.otherwise, dict(blk.term.targets).get(0)
            on_true = any(rb in helper.reachable_from(t_succ) for rb in repl_blocks) and not any(rb in helper.reachable_from(f_succ) for rb in repl_blocks)
            on_false = any(rb in helper.reachable_from(f_succ) for rb in repl_blocks) and not any(rb in helper.reachable_from(t_succ) for rb in repl_blocks)
            if not (on_true or on_false):
                continue
            # negations between the comparison and the switch
            negs = 0
            for n_ in sl:
                if n_[0] == "L":
                    for (dbb, d) in helper.assigns_to(n_[1]):
                        if getattr(d, "rv", None) is not None and d.rv.k == "unop" and d.rv.j["op"] == "Not":
                            negs += 1

            def role(sd):
                if "[" in sd or "index(" in sd:
                    return "old"
                if sd in helper.param_names() or sd.split(".")[0] in helper.param_names():
                    return "new"
                return "?"

            rx, ry = role(sx), role(sy)
            found = True
            op = st.rv.j["op"]
            if "?" in (rx, ry) or rx == ry or negs > 1:
                ctx.undecided("R-C03-5", "min-direction", "comparison %s(%s, %s) controls the replacement but operand roles are not recognised" % (op, sx, sy), loc_str(st.span))
                continue
            flip = {"Lt": "Ge", "Gt": "Le", "Le": "Gt", "Ge": "Lt"}
            if negs == 1:
                op = flip[op]
            if on_false:
                op = flip[op]
            if rx == "old":
                op = {"Lt": "Gt", "Gt": "Lt", "Le": "Ge", "Ge": "Le"}[op]
            ctx.require(op in ("Lt", "Le"), "R-C03-5", "min-direction", "replacement happens when new %s old: the minimum is kept" % {"Lt": "<", "Le": "<="}.get(op, op), "replacement happens when new %s old: the LARGER weight is kept, so traversal uses a weight that is not the minimum over the stored parallel edges" % {"Gt": ">", "Ge": ">="}.get(op, op), loc_str(st.span))
    if not found:
        ctx.undecided("R-C03-5", "min-direction", "no weight comparison controlling the replacement found in add_to_adjacency_vec (f64::min or another shape?)")
