"""C09 -- counts, degrees, density, adjacency matrix: structural clauses."""
from core import ASSUME_RUSTC, ASSUME_PATHS
from flow import Flows, L, fmt_desc, desc_mentions
from graphrules import field_of
import panic
from props.c01 import controlling_atoms
from mir import loc_str, short

LEVEL = "other"
EXPLANATION = (
    "Decides structural clauses of C09.  R-C09-6 the writers of the pair-keyed edge stores obey the canonical-key discipline (same rule as R-C02-3): a pair filed under a second key would be counted twice by number_of_edges / size / density.  R-C09-1 pair-count misuse: HashMap::len of the pair-keyed edge stores is a count of "
    "connected PAIRS; a function whose result depends on it must be restricted to single-edge graphs (get_density: documented scope); "
    "number_of_edges must be derived from the per-pair lists (like size(false)).  R-C09-2 (feature adjacency_matrix) the triplets "
    "given to TriMat::from_triplets depend on specs.directed (undirected edges are stored under one orientation only, so a matrix "
    "built without that dependence cannot be symmetric) and on f64::is_nan of the weight (an unweighted edge must become 1, not NaN).  "
    "R-C09-3 degree_centrality depends on get_node_degree and the node count and the division is guarded by n <= 1.  R-C09-4 the "
    "self-loop correction of get_node_degree / get_node_weighted_degree depends on specs.directed inside the function itself "
    "(get_edges_for_node lists a directed self-loop twice and an undirected one once, so one correction cannot fit both).  R-C09-9 the self-loop correction is a count / sum over the node's edges, never a truth value turned into a number.  R-C09-10/11: get_density's return definitions are 0, m/(n(n-1)) (directed) or 2m/(n(n-1)), and degree_centrality's products / quotients are 1/(n-1), degree*scale or degree/(n-1), as expressions over the counts.  R-C09-12: no unique / dedup / set keyed by an Edge under graph::.  R-C09-13: the degree maps enumerate the node list.  NOT decided: "
    "the handshake identities themselves and every numeric value."
)
TRUSTED = ["rustc MIR construction", "over-approximated dependence (absence is definite)", "sprs TriMat::from_triplets/to_csr semantics"]



DEGREE_SOURCES = {
    "degree::Graph::get_node_degree": "get_edges_for_node",
    "degree::Graph::get_node_weighted_degree": "get_edges_for_node",
    "degree::Graph::get_node_in_degree": "get_in_edges_for_node",
    "degree::Graph::get_node_weighted_in_degree": "get_in_edges_for_node",
    "degree::Graph::get_node_out_degree": "get_out_edges_for_node",
    "degree::Graph::get_node_weighted_out_degree": "get_out_edges_for_node",
}


def degrees_from_edge_lists(ctx, prog, flows, rid, only, consequence):
    """shared by C09 and C12 (modularity's degree sums): each per-node degree function derives its value from the
    per-node list of STORED edges, never from the adjacency cache (one entry and one policy weight per neighbour)"""
    ctx.rule(rid, "per-node degrees are computed from the stored edges (per-node edge lists), never from the adjacency cache")
    for sfx, src in DEGREE_SOURCES.items():
        if only is not None and sfx.split("::")[-1] not in only:
            continue
        b = prog.one(sfx)
        sl = flows.slice(b.path, [L(0)], up=False, down="clos", data_only=True)
        cal = set()
        fields = set()
        for (bp, nd) in sl:
            if nd[0] == "CALL":
                t = prog.bodies[bp].blocks[nd[1]].term
                if t.callee:
                    cal.add(t.callee.short.split("::")[-1])
            if nd[0] == "SRC":
                f_ = field_of(("P", nd[1], nd[2]))
                if f_:
                    fields.add(f_)
        cache = (cal & {"get_successor_nodes_by_index", "get_predecessor_nodes_by_index"}) | (fields & {"successors_vec", "predecessors_vec"})
        ctx.require(src in cal and not cache, rid, b.short, "%s is computed from %s" % (sfx.split("::")[-1], src), "%s is computed from %s%s: the cache has one entry and one policy weight per neighbour, so %s" % (sfx.split("::")[-1], sorted(cal & {"get_edges_for_node", "get_in_edges_for_node", "get_out_edges_for_node"}) or "no edge list", (" and the adjacency cache " + str(sorted(cache))) if cache else "", consequence), loc_str(b.span))


def selfloop_term_counts_every_loop(ctx, prog, flows, rid, consequence):
    """shared by C09 and C12: on an undirected graph a self-loop is listed ONCE among the node's edges but adds 2 to its
    degree, so the degree functions add a correction -- and that correction is the NUMBER (resp. the weight SUM) of the
    self-loops at the node.  A yes/no answer turned into a number (`any(..) as usize`, usize::from(contains_key(..)),
    `if has_loop {1} else {0}`) is right for one self-loop and short for parallel ones."""
    ctx.rule(rid, "the self-loop correction of the degree is a count / a sum over the node's edges, never a truth value turned into a number")
    n = 0
    for sfx in ("degree::Graph::get_node_degree", "degree::Graph::get_node_weighted_degree"):
        b = prog.one(sfx)
        fl = flows.of(b)
        adds = [s_ for s_ in b.stmts() if s_.k == "assign" and s_.rv.k == "binop" and s_.rv.j["op"] in ("Add", "AddWithOverflow")]
        for s_ in adds:
            for o in s_.rv.ops:
                if o.place is None:
                    continue
                sl = flows.slice(b.path, fl._op_reads(o), up=True, down="clos", data_only=True, roots=(b.path,))
                if not any(bp == b.path and nd[0] == "SRC" and ".".join(f for f in nd[2] if f != "*").endswith("specs.directed") for (bp, nd) in flows.slice(b.path, fl._op_reads(o), up=True, down=False, roots=(b.path,))):
                    continue
                n += 1
                counting, from_bool = set(), []
                for (bp, nd) in sl:
                    bb_ = prog.bodies[bp]
                    if nd[0] == "CALL":
                        t_ = bb_.blocks[nd[1]].term
                        nm = t_.callee.short.split("::")[-1] if t_.callee else ""
                        if nm in ("count", "len", "sum", "fold", "product"):
                            counting.add(nm)
                        if nm in ("from", "into", "then_some", "then") and t_.args and t_.args[0].place is not None and t_.args[0].place.ty == "bool":
                            from_bool.append("%s(<bool>)" % nm)
                    elif nd[0] == "L" and isinstance(nd[1], int):
                        for (_b, st) in bb_.assigns_to(nd[1]):
                            rv = getattr(st, "rv", None)
                            if rv is None:
                                continue
                            if rv.k == "cast" and rv.ops and rv.ops[0].place is not None and rv.ops[0].place.ty == "bool":
                                from_bool.append("<bool> as %s" % bb_.local_ty(nd[1]))
                            if rv.k == "binop" and rv.j["op"] in ("Add", "AddWithOverflow"):
                                # a running counter: x = x + c, possibly through the checked-add pair (t = x + c; x = t.0)
                                for o2 in rv.ops:
                                    if o2.place is None:
                                        continue
                                    r_ = o2.place.local
                                    if r_ == nd[1] or any(getattr(d2, "rv", None) is not None and d2.rv.k == "use" and d2.rv.ops and d2.rv.ops[0].place is not None and d2.rv.ops[0].place.local == nd[1] for (_b2, d2) in bb_.assigns_to(r_)):
                                        counting.add("+=")
                # a counter kept in a loop: x = x + c  (through the checked-add pair)
                ctx.require(bool(counting) and not from_bool, rid, "selfloop-term|%s" % b.short, "the self-loop term of %s is a %s over the node's edges" % (sfx.split("::")[-1], "/".join(sorted(counting))),
                            "the self-loop term of %s %s: a node with k parallel self-loops gets the correction of one, %s" % (sfx.split("::")[-1], ("is a truth value turned into a number (%s)" % ", ".join(sorted(set(from_bool)))) if from_bool else "is not computed by counting or summing the node's edges", consequence), loc_str(s_.span))
    ctx.floor(rid, "selfloop_terms", n, 2)
    return n

def selfloop_predicate(ctx, prog, flows, rid, consequence):
    """the edges that get the self-loop correction are exactly those whose BOTH endpoints are the node: the filter's
    only way to return true is `e.u == node && e.v == node` (an `||`, a `!=` or a single endpoint would also count the
    node's ordinary edges)"""
    from engines import predicate_true_paths

    ctx.rule(rid, "the self-loop filter of the degree functions is true exactly for e.u == node and e.v == node")
    n = 0
    for sfx in ("degree::Graph::get_node_degree", "degree::Graph::get_node_weighted_degree"):
        b = prog.one(sfx)
        for cb in prog.closures_of(b.path):
            if cb.local_ty(0) != "bool":
                continue
            cf = flows.of(cb)
            paths = predicate_true_paths(cf, cb)
            if paths is None:
                ctx.undecided(rid, "filter|" + sfx.split("::")[-1], "the self-loop filter of %s is not a conjunction of equality tests; its truth table is not decided" % sfx.split("::")[-1], loc_str(cb.span))
                continue
            # only filters that compare an edge's endpoints
            if not any(any(o.endswith(".u") or o.endswith(".v") for (_r, _p, ops) in pth for o in ops) for pth in paths):
                continue
            n += 1
            ok = len(paths) == 1
            if ok:
                lits = paths[0]
                ends = sorted(next((o.split(".")[-1] for o in ops if o.endswith(".u") or o.endswith(".v")), "?") for (rel, pol, ops) in lits)
                others = {frozenset(o for o in ops if not (o.endswith(".u") or o.endswith(".v"))) for (rel, pol, ops) in lits}
                ok = all(rel == "eq" and pol for (rel, pol, ops) in lits) and ends == ["u", "v"] and len(others) == 1
            ctx.require(ok, rid, "filter|" + sfx.split("::")[-1], "the filter in %s keeps e iff e.u == node && e.v == node" % sfx.split("::")[-1],
                        "the self-loop filter of %s returns true under %s, not exactly under e.u == node && e.v == node: edges that are not self-loops get the correction too (or self-loops do not), %s" % (sfx.split("::")[-1], [sorted(("%s%s(%s)" % ("" if pol else "!", rel, ",".join(sorted(ops)))) for (rel, pol, ops) in pth) for pth in paths], consequence), loc_str(cb.span))
    ctx.counters["selfloop_filters"] = n


def degree_maps_keyed_by_node_list(ctx, prog, flows, rid, consequence):
    """shared by C09 and C12: the `get_*degree_for_all_nodes` maps have one entry per NODE.  Their key set therefore
    comes from the node list (get_all_nodes / nodes_vec); a map accumulated over the edges has entries only for nodes
    that some edge touches."""
    ctx.rule(rid, "every degree map `get_*_for_all_nodes` takes its keys from the node list, so isolated nodes are listed (with 0)")
    n = 0
    for p in sorted(prog.bodies):
        b = prog.bodies[p]
        if b.kind == "closure" or not b.short.startswith("graph::degree::") or not b.short.endswith("_for_all_nodes"):
            continue
        n += 1
        sl = flows.slice(b.path, [L(0)], up=False, down="clos", data_only=True)
        cal, fields = set(), set()
        for (bp, nd) in sl:
            if nd[0] == "CALL":
                t = prog.bodies[bp].blocks[nd[1]].term
                if t.callee:
                    cal.add(t.callee.short.split("::")[-1])
            elif nd[0] == "SRC":
                f_ = field_of(("P", nd[1], nd[2]))
                if f_:
                    fields.add(f_)
        from_nodes = bool(cal & {"get_all_nodes", "get_all_node_names"}) or bool(fields & {"nodes_vec", "nodes_map"}) or any(c.endswith("_for_all_nodes") for c in cal)
        ctx.require(from_nodes, rid, "keys|" + b.short, "%s enumerates the node list" % b.short.split("::")[-1],
                    "%s builds its map without enumerating the node list (it reads %s): " % (b.short, sorted((cal & {"get_all_edges", "get_edges_for_node"}) | (fields & {"edges", "edges_map", "successors", "predecessors"})) or "no node store") + consequence, loc_str(b.span))
    ctx.floor(rid, "degree_maps", n, 4)


def formula_rules(ctx, prog, flows):
    """R-C09-10 / R-C09-11: "the density of a single-edge graph is m/(n(n-1)), doubled when undirected" and "for n >= 2
    degree_centrality is degree/(n-1)", as far as an expression can be compared with an expression: the definitions that
    reach the results are evaluated as arithmetic over the counts (m entries of the edge store, n nodes, a degree g) at
    a grid of points and compared with the closed forms.  Nothing is run and no branch is decided."""
    from engines import forms_of_def, classify_forms, matches_form
    from props.c01 import controlling_atoms

    # ---- density
    ctx.rule("R-C09-10", "get_density returns 0, m/(n(n-1)) under specs.directed and 2m/(n(n-1)) otherwise, as expressions over the edge-store size m and the node count n")
    b = prog.one("density::Graph::get_density")
    fl = flows.of(b)
    grid = [(m, n) for m in (1.0, 3.0, 7.0) for n in (2.0, 3.0, 5.0, 9.0)]

    def leaf_for(pt):
        def leaf(d):
            if d[0] == "call":
                last = d[1].split("::")[-1]
                if last == "len" and desc_mentions(d, lambda x: x[0] == "place" and x[1].split(".")[-1] in ("edges", "edges_map")):
                    return pt[0]
                if last in ("number_of_edges",):
                    return pt[0]
                if last == "len" and desc_mentions(d, lambda x: (x[0] == "place" and x[1].split(".")[-1] in ("nodes_vec", "nodes_map")) or (x[0] == "call" and x[1].split("::")[-1] in ("get_all_nodes", "get_all_node_names"))):
                    return pt[1]
                if last == "number_of_nodes":
                    return pt[1]
            return None
        return leaf

    allowed = {"m/(n(n-1))": lambda pt: pt[0] / (pt[1] * (pt[1] - 1.0)), "2m/(n(n-1))": lambda pt: 2.0 * pt[0] / (pt[1] * (pt[1] - 1.0))}
    seen, n_d, bad_any = set(), 0, False
    for (bb, st) in b.assigns_to(0):
        n_d += 1
        forms = forms_of_def(fl, st, leaf_for, grid)
        if forms is None:
            ctx.undecided("R-C09-10", "density|%d" % n_d, "a value returned by get_density is not plain arithmetic over the edge-store size and the node count; its form is not decided", loc_str(st.span))
            bad_any = True
            continue
        ok, bad = classify_forms(forms, allowed, grid)
        seen |= ok
        dirv = [v for (te, v, a) in controlling_atoms(fl, bb) if isinstance(te, tuple) and te[0] == "place" and te[1].endswith("specs.directed")]
        want = None
        if len(forms) == 1 and len(dirv) == 1 and ok - {"0"}:
            want = "m/(n(n-1))" if dirv[0] is True else "2m/(n(n-1))"
        wrong_arm = want is not None and want not in ok
        bad_any = bad_any or bool(bad) or wrong_arm
        ctx.require(not bad and not wrong_arm, "R-C09-10", "density|%d" % n_d, "get_density returns %s%s" % (" or ".join(sorted(ok)), (" when specs.directed is %s" % dirv[0]) if len(dirv) == 1 else ""),
                    ("get_density returns %s when specs.directed is %s; the definition gives %s there" % (sorted(ok - {"0"}), dirv[0], want)) if wrong_arm else
                    "get_density can return a value that is neither 0, m/(n(n-1)) nor 2m/(n(n-1)): at (m, n) = %s it is %s where the definition gives %s (directed) resp. %s (undirected)" % (grid[1], [round(f[1], 6) for f in bad], round(allowed["m/(n(n-1))"](grid[1]), 6), round(allowed["2m/(n(n-1))"](grid[1]), 6)), loc_str(st.span))
    if n_d and not bad_any:
        ctx.require(set(allowed) <= seen, "R-C09-10", "both-forms", "the directed and the undirected form are both produced", "get_density produces only %s: %s is never returned" % (sorted(seen), sorted(set(allowed) - seen)), loc_str(b.span))
    ctx.floor("R-C09-10", "density_return_definitions", n_d, 1)

    # ---- degree centrality
    ctx.rule("R-C09-11", "degree_centrality scales the degree by 1/(n-1): every f64 product / quotient in it is 1/(n-1), degree * scale or degree/(n-1) as an expression over the node count and the degree")
    dc = prog.one("centrality::degree::degree_centrality")
    grid2 = [(n, g, sv) for n in (2.0, 3.0, 6.0, 11.0) for g in (1.0, 4.0) for sv in (0.37, 2.5)]
    allowed2 = {"1/(n-1)": lambda pt: 1.0 / (pt[0] - 1.0), "degree*scale": lambda pt: pt[1] * pt[2], "degree/(n-1)": lambda pt: pt[1] / (pt[0] - 1.0)}
    seen2, n_s, bad2_any = set(), 0, False
    for cb in [dc] + list(prog.closures_of(dc.path)):
        cf = flows.of(cb)
        ups = set(cb.upvar_names()) if cb.kind == "closure" else set()

        def leaf_for2(pt, _ups=ups, _cb=cb):
            def leaf(d):
                if d[0] == "call":
                    last = d[1].split("::")[-1]
                    if last == "number_of_nodes" or (last == "len" and desc_mentions(d, lambda x: x[0] == "call" and x[1].split("::")[-1] in ("get_all_nodes", "get_all_node_names"))):
                        return pt[0]
                    if desc_mentions(d, lambda x: x[0] == "call" and x[1].split("::")[-1] == "get_node_degree"):
                        return pt[1]
                if d[0] == "place" and d[1] in _ups:
                    tys = [_cb.local_ty(l_) for l_ in _cb.locals_named(d[1])]
                    return pt[0] if any("usize" in t_ for t_ in tys) else pt[2]
                return None
            return leaf

        for st in cb.stmts():
            if not (st.k == "assign" and st.rv.k == "binop" and st.rv.j["op"] in ("Mul", "Div") and st.lhs.ty == "f64"):
                continue
            n_s += 1
            forms = forms_of_def(cf, st, leaf_for2, grid2)
            if forms is None:
                ctx.undecided("R-C09-11", "scale|%d" % n_s, "an f64 product / quotient in %s is not plain arithmetic over the node count, the degree and a captured scale; its form is not decided" % cb.short.split("::", 2)[-1], loc_str(st.span))
                bad2_any = True
                continue
            ok, bad = classify_forms(forms, allowed2, grid2, zero_ok=False)
            seen2 |= ok
            bad2_any = bad2_any or bool(bad)
            ctx.require(not bad, "R-C09-11", "scale|%d" % n_s, "%s computes %s" % (cb.short.split("::", 3)[-1], " / ".join(sorted(ok))),
                        "%s computes a product / quotient that is none of 1/(n-1), degree*scale, degree/(n-1): at (n, degree, scale) = %s it is %s (1/(n-1) = %s, degree/(n-1) = %s)" % (cb.short, grid2[0], [round(f[0], 6) for f in bad], round(allowed2["1/(n-1)"](grid2[0]), 6), round(allowed2["degree/(n-1)"](grid2[0]), 6)), loc_str(st.span))
    if n_s and not bad2_any:
        full = ("degree/(n-1)" in seen2) or ({"1/(n-1)", "degree*scale"} <= seen2)
        if not full:
            ctx.undecided("R-C09-11", "scale-complete", "the products / quotients found (%s) do not add up to degree/(n-1) in a form this rule knows" % sorted(seen2), loc_str(dc.span))
    ctx.floor("R-C09-11", "f64_products_and_quotients", n_s, 1)


def run(ctx):
    prog = ctx.prog
    flows = Flows(prog)
    ctx.assume(ASSUME_RUSTC)
    ctx.assume(ASSUME_PATHS)

    # ------------------------------------------------------------------ R-C09-6
    # counts, sizes and densities read the pair-keyed store `edges`: one pair filed under two keys is counted twice
    from props.c02 import key_discipline

    ae = prog.one("creation::Graph::add_edge")
    key_discipline(ctx, prog, flows, "R-C09-6", prog.reachable_bodies([ae.path]), 2, 2, why=" -- restricted to add_edge and its callees: number_of_edges / size / density count the entries of `edges`, so a pair stored under a second key is counted twice")

    # ------------------------------------------------------------------ R-C09-7
    # number_of_nodes, the degree maps, degree_centrality's n-1 and the matrix dimension all count nodes_vec
    from effects import Effects
    from graphrules import node_append_behind_fresh_absence_test

    node_append_behind_fresh_absence_test(ctx, prog, flows, Effects(prog, flows), "R-C09-7", "the same name is stored twice, so number_of_nodes, the per-node degree maps, degree_centrality's n-1, the density and the matrix dimension count a node that has no edges and no name of its own")

    # ------------------------------------------------------------------ R-C09-8
    # the edge count behind density / size / number_of_edges is taken from the edge store; the adjacency sets hold one
    # entry per NEIGHBOUR (a self-loop once, parallel edges once), not one per edge end
    ctx.rule("R-C09-8", "density, size and number_of_edges count the edge store, never the adjacency sets")
    from graphrules import field_of as _field_of

    n8 = 0
    for sfx_ in ("density::Graph::get_density", "query::Graph::size", "query::Graph::number_of_edges"):
        b_ = prog.one(sfx_)
        sl_ = flows.slice(b_.path, [("L", 0)], up=False, down=True, data_only=True)
        fs_ = {_field_of(("P", nd_[1], nd_[2])) for (bp_, nd_) in sl_ if nd_[0] == "SRC"}
        adj_ = sorted(x for x in fs_ if x in ("successors", "predecessors", "successors_map", "predecessors_map", "successors_vec", "predecessors_vec"))
        n8 += 1
        ctx.require(("edges" in fs_ or "edges_map" in fs_) and not adj_, "R-C09-8", "edge-count|" + sfx_.split("::")[-1], "%s reads the edge store" % sfx_.split("::")[-1],
                    "%s derives its value from %s (reads %s): an undirected self-loop appears once in its node's adjacency set and parallel edges once per neighbour, so the value disagrees with number_of_edges / the handshake identities" % (sfx_.split("::")[-1], adj_ or "no edge store", sorted(x for x in fs_ if x)), loc_str(b_.span))

    # ------------------------------------------------------------------ R-C09-1
    ctx.rule("R-C09-1", "no edge count is taken from the number of keys of the pair-keyed edge stores on a multi-edge path")
    n = 0
    for p in sorted(prog.bodies):
        b = prog.bodies[p]
        fl = flows.of(b)
        for t in b.calls():
            if not t.callee or not t.callee.short.endswith("HashMap::len") or not t.args or t.args[0].place is None:
                continue
            stores = {field_of(o) for o in fl._operand_pts(t.args[0]) if o[0] == "P"}
            fp = fl.field_path(t.args[0].place)
            if not (stores & {"edges", "edges_map"}) and not (fp.endswith(".edges") or fp.endswith(".edges_map")):
                continue
            n += 1
            key = "pairlen|" + b.short
            atoms = controlling_atoms(fl, t.bb)
            single_only = any(isinstance(te, tuple) and te[0] == "place" and te[1].endswith("specs.multi_edges") and v is False for (te, v, a) in atoms)
            if single_only:
                ctx.ok("R-C09-1", key, "pair count used only under specs.multi_edges == false", loc_str(t.span))
            elif b.short.endswith("density::Graph::get_density"):
                ctx.ok("R-C09-1", key, "get_density uses the pair count: the statement restricts the density clause to single-edge graphs (documented scope)", loc_str(t.span))
            else:
                ctx.violation("R-C09-1", key, "%s derives a result from the number of keys of the pair-keyed edge map: on a multi-edge graph parallel edges are counted once" % b.short, loc_str(t.span))
    ctx.counters["pair_len_sites"] = n
    noe = prog.one("query::Graph::number_of_edges")
    fl = flows.of(noe)
    sl = flows.slice(noe.path, [L(0)], up=False, down=True, data_only=True)
    callees = set()
    for (bp, nd) in sl:
        if nd[0] == "CALL":
            t = prog.bodies[bp].blocks[nd[1]].term
            if t.callee:
                callees.add(t.callee.short)
    per_list = any(c.endswith("Vec::len") or c.endswith("slice::len") or c.endswith("Graph::get_all_edges") for c in callees)
    ctx.require(per_list, "R-C09-1", "number_of_edges", "number_of_edges is derived from the per-pair edge lists (%s)" % sorted(c.split("::")[-1] for c in callees), "number_of_edges is not derived from the per-pair lists (uses %s): parallel edges are not counted individually" % sorted(c.split("::")[-1] for c in callees), loc_str(noe.span))

    # ------------------------------------------------------------------ R-C09-2
    if ctx.config == "adjacency_matrix":
        ctx.rule("R-C09-2", "adjacency-matrix triplets depend on specs.directed (mirror entry) and on is_nan(weight) (unweighted = 1)")
        m = prog.one("matrix::Graph::get_sparse_adjacency_matrix")
        mf = flows.of(m)
        ft = [t for t in m.calls() if t.callee and t.callee.short.endswith("TriMatBase::from_triplets")]
        if len(ft) != 1:
            ctx.anchor_lost("R-C09-2", "one TriMat::from_triplets call")
        else:
            t = ft[0]
            sl = set()
            for a in t.args[1:]:
                sl |= mf.slice_local(mf._op_reads(a))
            directed = any(nd[0] == "SRC" and ".".join(f for f in nd[2] if f != "*").endswith("specs.directed") for nd in sl)
            nan = any(nd[0] == "CALL" and m.blocks[nd[1]].term.callee and m.blocks[nd[1]].term.callee.short.endswith("f64::is_nan") for nd in sl)
            ctx.require(directed, "R-C09-2", "symmetric", "the triplets depend on specs.directed (undirected edges are mirrored)", "the triplets do not depend on specs.directed: undirected edges, stored under one orientation, give a one-sided matrix", loc_str(t.span))
            ctx.require(nan, "R-C09-2", "unweighted-one", "the stored value depends on is_nan(weight) (unweighted edges become 1)", "the stored value never tests is_nan(weight): unweighted edges put NaN into the matrix", loc_str(t.span))
            # the mirror push is on the undirected, non-loop path
            pushes = [c for c in m.calls() if c.callee and c.callee.short.endswith("Vec::push")]
            mir_ = [c for c in pushes if any(isinstance(te, tuple) and te[0] == "place" and te[1].endswith("specs.directed") and v is False for (te, v, a) in controlling_atoms(mf, c.bb))]
            # ... and ONLY there: with the `specs.directed == false` edges deleted no mirror push is reachable (a mirrored
            # entry on a directed graph makes the matrix symmetric), and with the `u != v` edge deleted neither (a
            # self-loop mirrored onto itself is summed twice by the triplet-to-CSR conversion)
            from guard import Guards as _G2

            sw_ = _G2(prog, flows).spec_switches(m, "directed")
            und_edges = [(bb_, succ_[False]) for (bb_, succ_) in sw_ if succ_.get(False) is not None]
            if mir_ and und_edges:
                reach_ = m.reach_avoiding_edges(und_edges, 0)
                leak_ = [c for c in mir_ if c.bb in reach_]
                ctx.require(not leak_, "R-C09-2", "mirror-only-undirected", "no mirror push is reachable on a directed graph", "a mirror triplet is pushed on a path on which specs.directed is true (%s): the adjacency matrix of a directed graph becomes symmetric" % loc_str(leak_[0].span) if leak_ else "", loc_str(leak_[0].span) if leak_ else loc_str(m.span))
                ne_edges = []
                for blk_ in m.normal_blocks():
                    if blk_.term.k != "switch":
                        continue
                    at_ = mf.atom(blk_.i)
                    te_ = panic.norm(at_["test"]) if at_ else None
                    neg_ = False
                    while isinstance(te_, tuple) and te_[0] == "unop" and te_[1] == "Not":
                        neg_ = not neg_
                        te_ = te_[2]
                    if isinstance(te_, tuple) and ((te_[0] == "binop" and te_[1] in ("Ne", "Eq")) or (te_[0] == "call" and te_[1].split("::")[-1] in ("ne", "eq"))) and at_["ty"] == "bool":
                        is_ne = (te_[1] in ("Ne",) or te_[1].split("::")[-1] == "ne") != neg_
                        f_succ, t_succ = dict(at_["targets"]).get(0), at_["otherwise"]
                        ne_edges.append((blk_.i, t_succ if is_ne else f_succ))
                if not ne_edges:
                    ctx.violation("R-C09-2", "mirror-not-for-loops", "the mirror triplet is pushed without any test that the two positions differ: the diagonal entry of an undirected self-loop is written twice and the conversion to CSR adds the two, so the entry is twice the stored weight", loc_str(mir_[0].span))
                if ne_edges:
                    reach2_ = m.reach_avoiding_edges(ne_edges, 0)
                    leak2_ = [c for c in mir_ if c.bb in reach2_]
                    ctx.require(not leak2_, "R-C09-2", "mirror-not-for-loops", "no mirror push is reachable for a self-loop (u == v)", "a mirror triplet is pushed although u == v: the diagonal entry of a self-loop is written twice and the conversion to CSR adds the two, so the entry is twice the stored weight", loc_str(leak2_[0].span) if leak2_ else loc_str(m.span))
            ctx.require(len(mir_) >= 3, "R-C09-2", "mirror-under-undirected", "the mirror triplet (row, col, value) is pushed under specs.directed == false", "no complete mirror triplet under specs.directed == false (%d pushes)" % len(mir_), loc_str(m.span))

    # ------------------------------------------------------------------ R-C09-3
    ctx.rule("R-C09-3", "degree_centrality depends on get_node_degree and the node count; the division is guarded by n <= 1")
    dc = prog.one("centrality::degree::degree_centrality")
    df = flows.of(dc)
    sl = flows.slice(dc.path, [L(0)], up=False, down="clos")
    callees = set()
    for (bp, nd) in sl:
        if nd[0] == "CALL":
            t = prog.bodies[bp].blocks[nd[1]].term
            if t.callee:
                callees.add(t.callee.short.split("::")[-1])
    ctx.require("get_node_degree" in callees and ("get_all_nodes" in callees or "number_of_nodes" in callees), "R-C09-3", "depends", "degree_centrality is computed from get_node_degree and the node count", "degree_centrality uses %s" % sorted(callees), loc_str(dc.span))
    # the division 1/(n-1): its block is behind the false edge of `n <= 1`
    ok = False
    for s in dc.stmts():
        if s.k == "assign" and s.rv.k == "binop" and s.rv.j["op"] == "Div":
            for (te, v, a) in controlling_atoms(df, s.bb):
                if isinstance(te, tuple) and te[0] == "binop" and te[1] in ("Le", "Lt", "Gt", "Ge") and desc_mentions(te, lambda d: d[0] == "const" and ("1_usize" in d[1] or "2_usize" in d[1])):
                    ok = True
    ctx.require(ok, "R-C09-3", "guarded-division", "the 1/(n-1) scale is computed only after the n <= 1 test", "the 1/(n-1) scale is not guarded by a test of n", loc_str(dc.span))
    # ... and that test is true for n = 0 and n = 1 ONLY: "for n >= 2, degree_centrality is degree/(n-1)".  The guard is
    # evaluated as a function of the node count over n = 0..6 (arithmetic of the description tree, nothing is run)
    from engines import eval_over_count
    import panic as _panic

    def _is_count(d_):
        return isinstance(d_, tuple) and d_[0] == "call" and ((d_[1].split("::")[-1] == "len" and desc_mentions(d_, lambda x: x[0] == "call" and x[1].split("::")[-1] in ("get_all_nodes", "get_all_node_names"))) or d_[1].split("::")[-1] == "number_of_nodes")

    for s in dc.stmts():
        if s.k == "assign" and s.rv.k == "binop" and s.rv.j["op"] == "Div":
            for (te, v, a) in controlling_atoms(df, s.bb):
                if not (isinstance(te, tuple) and desc_mentions(_panic.norm(_panic.expand_names(df, te)), _is_count)):
                    continue
                table = {}
                for n_ in range(0, 7):
                    r_ = eval_over_count(df, _panic.norm(te), n_, _is_count)
                    table[n_] = None if r_ is None else (bool(r_) == bool(v))
                if None in table.values():
                    ctx.undecided("R-C09-3", "guard-exact", "the guard of the 1/(n-1) scale is not an arithmetic function of the node count that can be tabulated: %s" % (fmt_desc(te),), loc_str(s.span))
                else:
                    want_ = {n_: n_ >= 2 for n_ in range(0, 7)}
                    ctx.require(table == want_, "R-C09-3", "guard-exact", "the general formula degree/(n-1) is used exactly for n >= 2", "the general formula degree/(n-1) is used for n in %s, not exactly for n >= 2: for n = %s degree_centrality returns the constant of the degenerate case instead" % (sorted(k_ for k_, x_ in table.items() if x_), sorted(k_ for k_ in table if table[k_] != want_[k_])), loc_str(s.span))

    # ------------------------------------------------------------------ R-C09-5
    degrees_from_edge_lists(ctx, prog, flows, "R-C09-5", None, "parallel edges are not counted/summed individually")

    # ------------------------------------------------------------------ R-C09-10 / R-C09-11
    formula_rules(ctx, prog, flows)

    # ------------------------------------------------------------------ R-C09-15
    # sizes and degrees read the name-keyed edge store, get_edge and the matrix the position-keyed one: a success path
    # of add_edge that writes one of them and not the other makes size(true) disagree with the edge get_edge returns
    from props.c02 import rule2 as _paired_store_updates

    _paired_store_updates(ctx, prog, flows, Effects(prog, flows), "R-C09-15")

    # ------------------------------------------------------------------ R-C09-12 / R-C09-13
    from graphrules import no_edge_identity_collections

    no_edge_identity_collections(ctx, prog, "R-C09-12", ("graph::",), "the per-node edge lists behind the degree functions lose parallel edges, so the degrees no longer sum to twice the number of edges")
    degree_maps_keyed_by_node_list(ctx, prog, flows, "R-C09-13", "a node without edges is missing from the map instead of being listed with degree 0, so the map has fewer entries than number_of_nodes()")

    selfloop_predicate(ctx, prog, flows, "R-C09-14", "so the degrees no longer sum to twice the number of edges")

    # ------------------------------------------------------------------ R-C09-9
    selfloop_term_counts_every_loop(ctx, prog, flows, "R-C09-9", "so the sum of the degrees is no longer twice the number of edges")

    # ------------------------------------------------------------------ R-C09-4
    ctx.rule("R-C09-4", "the self-loop correction of the (weighted) degree depends on specs.directed within the function")
    for sfx in ("degree::Graph::get_node_degree", "degree::Graph::get_node_weighted_degree"):
        b = prog.one(sfx)
        fl = flows.of(b)
        # the value added to the total: second operand of the final Add
        adds = [s for s in b.stmts() if s.k == "assign" and s.rv.k == "binop" and s.rv.j["op"] in ("Add", "AddWithOverflow")]
        if not adds:
            ctx.anchor_lost("R-C09-4", "the total + self-loop addition in " + sfx)
            continue
        ok = False
        for s in adds:
            for o in s.rv.ops:
                sl = fl.slice_local(fl._op_reads(o))
                # the self-loop test: a filter closure comparing u and v with the name, or the same comparisons
                # written in a counting loop
                loops = any(nd[0] == "CLOS" for nd in sl) or any(nd[0] == "CALL" and b.blocks[nd[1]].term.callee and b.blocks[nd[1]].term.callee.short.split("::")[-1] in ("eq", "ne") for nd in sl)
                directed = any(nd[0] == "SRC" and ".".join(f for f in nd[2] if f != "*").endswith("specs.directed") for nd in sl)
                if loops and directed:
                    ok = True
        ctx.require(ok, "R-C09-4", b.short, "the self-loop term of %s depends on specs.directed" % sfx.split("::")[-1], "the self-loop term of %s is the same for directed and undirected graphs although get_edges_for_node lists a directed self-loop twice: degree != in-degree + out-degree" % sfx.split("::")[-1], loc_str(b.span))
