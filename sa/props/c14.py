"""C14 -- GraphML write-then-read: writer/reader vocabulary agreement and API discipline."""
from core import ASSUME_RUSTC, ASSUME_PATHS
from effects import Effects
from flow import Flows, L, fmt_desc, desc_mentions
import hashord
import panic
from props.c01 import controlling_atoms
from mir import loc_str, short

LEVEL = "other"
EXPLANATION = (
    "Decides structural necessary conditions of the GraphML round trip.  V1: every (element, event kind) the writer emits for key, "
    "graph, node, edge and data is handled by an arm of the reader's nested match (typed-HIR patterns: byte-string literals and Event "
    "variants), and the Text of <data> is read.  V2: per element, the attribute names the reader requires are a subset of those the "
    "writer writes; the writer's edgedefault literals equal the reader's accepted literals and are selected by specs.directed with "
    "the same polarity on both sides; the writer's <data key> literal equals its <key id> literal.  V3 escaping discipline: every "
    "push_attribute is instantiated at (&str, &str) (quick-xml's escaping conversion), text is built with BytesText::new (never "
    "from_escaped), the reader takes attribute values only through unescape_value, and no reader configuration call (trim_text, "
    "expand_empty_elements, ...) exists.  V4 numbers: the weight is rendered by a format with a single plain Display argument of "
    "type f64 and parsed with str::parse::<f64>; the <data> element is written exactly when !weight.is_nan() and an edge read "
    "without <data> keeps Edge::new's NaN.  V5 order: nodes are written by iterating the position-ordered node list and read back "
    "with Vec::push in document order.  V6: the file variants add only file I/O around the string variants.  V10: an unescaped attribute value reaches the node name / edge endpoint through no content-changing string operation.  V11: element refusals depend on the presence of an attribute, never on the content of its value.  NOT decided: the "
    "round-trip equality itself; quick-xml's escape/unescape and f64 Display/FromStr being inverses are trusted."
)
TRUSTED = [
    "quick-xml: push_attribute((&str,&str)) escapes, Attribute::unescape_value unescapes, BytesText::new escapes; they are inverses",
    "Rust's f64 Display / FromStr round-trip exactly (documented), including inf",
    "rustc typed HIR / MIR",
]

WRITER = ["graphml::write_graphml_string", "graphml::write_edge_weight"]
READER_FNS = ["graphml::read_graphml_string", "graphml::add_node", "graphml::add_edge"]


def lit_str(d):
    """string literal of a description, or None"""
    d = panic.norm(d)
    if isinstance(d, tuple) and d[0] == "const":
        s = d[1]
        if s.startswith("const "):
            s = s[6:]
        if s.startswith('"') and s.endswith('"'):
            return s[1:-1]
    return None


def loop_item_literals(b, fl, operand):
    """the string literals a loop variable ranges over when it is the item of `for x in [lit, lit, ..]`:
    operand <- (next(..) as Some).0 <- next(&mut it) <- it = into_iter([..literals..])"""
    op = operand
    for _ in range(8):
        if op is None or op.place is None:
            return []
        pl = op.place
        d = fl.single_def(pl.local)
        if d is None:
            return []
        rv = getattr(d, "rv", None)
        if rv is not None and rv.k == "use" and rv.ops[0].place is not None:
            src = rv.ops[0].place
            if src.proj and any(isinstance(e, dict) and e.get("as") == "Some" for e in src.proj):
                # the item of an Option returned by next()
                nd = fl.single_def(src.local)
                if nd is None or getattr(nd, "k", None) != "call" or not nd.callee or not nd.callee.short.endswith("Iterator::next"):
                    return []
                its = [o[1] for o in fl._operand_pts(nd.args[0]) if o[0] == "L"]
                out = []
                # the iterator variable may be a copy of the into_iter() result
                its2 = set(its)
                for it in list(its):
                    l_ = it
                    for _h in range(5):
                        d_ = fl.single_def(l_)
                        r_ = getattr(d_, "rv", None) if d_ is not None else None
                        if r_ is not None and r_.k == "use" and r_.ops[0].place is not None and not r_.ops[0].place.proj:
                            l_ = r_.ops[0].place.local
                            its2.add(l_)
                        else:
                            break
                for it in sorted(its2):
                    for (dbb, idf) in b.assigns_to(it):
                        if getattr(idf, "k", None) == "call" and idf.callee and idf.callee.short.split("::")[-1] in ("into_iter", "iter") and idf.args:
                            ad = fl.single_def(idf.args[0].place.local) if idf.args[0].place is not None else None
                            arv = getattr(ad, "rv", None) if ad is not None else None
                            if arv is not None and arv.k == "aggr" and arv.j.get("ak") == "array":
                                for o in arv.ops:
                                    s_ = lit_str(fl.describe(o, depth=4))
                                    if s_ is None:
                                        return []
                                    out.append(s_)
                return sorted(set(out))
            op = rv.ops[0]
            continue
        return []
    return []


def within(inner, outer):
    return inner["file"] == outer["file"] and (outer["line"], outer["col"]) <= (inner["line"], inner["col"]) and (inner["eline"], inner["ecol"]) <= (outer["eline"], outer["ecol"])


def run(ctx):
    prog = ctx.prog
    flows = Flows(prog)
    effects = Effects(prog, flows)
    ctx.assume(ASSUME_RUSTC)
    ctx.assume(ASSUME_PATHS)
    wbodies = [prog.one(w) for w in WRITER]
    reader = prog.one("graphml::read_graphml_string")

    # ------------------------------------------------------------------ writer vocabulary
    written = set()  # (element, kind)
    write_sites = {}  # (element, kind) -> [(body, write_event call)]
    wattrs = {}  # element -> {attr name: value description}
    push_types = []
    for wb in wbodies:
        fl = flows.of(wb)
        elem_of_local = {}

        def element_of(op, depth=0):
            """element name of the BytesStart/BytesEnd/BytesText value in an operand"""
            oc = panic.origin_call(fl, op)
            if oc is None or not oc.callee:
                return None, None
            nm = oc.callee.short
            if nm.endswith("BytesStart::new") or nm.endswith("BytesEnd::new"):
                return lit_str(fl.describe(oc.args[0], depth=6)), nm.split("::")[-2]
            if nm.endswith("BytesText::new") or nm.endswith("BytesText::from_escaped"):
                return "#text", nm.split("::")[-1]
            return None, None

        for t in wb.calls():
            if not t.callee:
                continue
            nm = t.callee.short
            if nm.endswith("Writer::write_event"):
                ev = fl.single_def(t.args[1].place.local) if t.args[1].place is not None else None
                if ev is None or getattr(ev, "rv", None) is None or ev.rv.k != "aggr":
                    # the event was built earlier and reaches the writer through a variable / an array that is looped
                    # over: accepted when it derives from Event values built in this body (those are collected below)
                    sl_ev = fl.slice_local(fl._op_reads(t.args[1]), data_only=True)
                    built = [s_ for s_ in wb.stmts() if s_.k == "assign" and s_.rv.k == "aggr" and s_.rv.j.get("adt", "").endswith("events::Event") and ("L", s_.lhs.local) in sl_ev]
                    if not built:
                        ctx.violation("V1", "unrecognised-event|" + wb.short, "write_event with an event the analysis cannot identify (fail closed)", loc_str(t.span))
                    continue
                continue
            elif nm.endswith("BytesStart::push_attribute"):
                el, _ = element_of(t.args[0])
                aty = t.callee.args[-1] if t.callee.args else "?"
                push_types.append((aty, t))
                td = panic.norm(fl.describe(t.args[1], depth=8))
                name = val = None
                if td[0] == "tuple" and len(td) == 3:
                    name = lit_str(td[1])
                    val = td[2]
                if el is None or name is None:
                    ctx.violation("V2", "unrecognised-attribute|" + wb.short, "push_attribute with a non-literal element/attribute name (fail closed)", loc_str(t.span))
                    continue
                wattrs.setdefault(el, {})[name] = (val, t)
    # every Event value the writer builds (each is written: directly, or later from a variable / array)
    for wb in wbodies:
        fl = flows.of(wb)
        for s_ in wb.stmts():
            if s_.k != "assign" or s_.rv.k != "aggr" or not s_.rv.j.get("adt", "").endswith("events::Event") or not s_.rv.ops:
                continue
            kind = s_.rv.j["variant"]
            oc = panic.origin_call(fl, s_.rv.ops[0])
            el = how = None
            if oc is not None and oc.callee:
                nm_ = oc.callee.short
                if nm_.endswith("BytesStart::new") or nm_.endswith("BytesEnd::new"):
                    el, how = lit_str(fl.describe(oc.args[0], depth=6)), nm_.split("::")[-2]
                elif nm_.endswith("BytesText::new") or nm_.endswith("BytesText::from_escaped"):
                    el, how = "#text", nm_.split("::")[-1]
                elif nm_.endswith("BytesStart::to_end") and oc.args:
                    oc2 = panic.origin_call(fl, oc.args[0])
                    if oc2 is not None and oc2.callee and oc2.callee.short.endswith("BytesStart::new"):
                        el, how = lit_str(fl.describe(oc2.args[0], depth=6)), "BytesStart"
            if el is None and oc is not None and oc.callee and (oc.callee.short.endswith("BytesStart::new") or oc.callee.short.endswith("BytesEnd::new")) and oc.args:
                # the name comes from a list of literals that is looped over (`for name in ["graph", "graphml"]`)
                lits = loop_item_literals(wb, fl, oc.args[0])
                if lits:
                    for el2 in lits:
                        written.add((el2, kind))
                        write_sites.setdefault((el2, kind), []).append((wb, wb.blocks[s_.bb].term))
                    continue
            if el is None:
                ctx.violation("V1", "unrecognised-element|" + wb.short, "Event::%s built from an element whose name is not a literal (fail closed)" % kind, loc_str(s_.span))
                continue
            written.add((el, kind))
            site = wb.blocks[s_.bb].term
            write_sites.setdefault((el, kind), []).append((wb, site))
            if el == "#text":
                ctx.require(how == "new", "V3", "text-escaped", "text content is built with BytesText::new (escaping)", "text content is built with BytesText::%s: special characters are written raw" % how, loc_str(s_.span))
    ctx.counters["written_events"] = sorted("%s:%s" % x for x in written)
    ctx.counters["written_attributes"] = {k: sorted(v) for k, v in wattrs.items()}

    # ------------------------------------------------------------------ reader vocabulary (typed HIR)
    hir = reader.item.get("hir") or {}
    matches = hir.get("matches", [])
    handled = set()
    arm_spans = {}  # (element, kind) -> body span
    outer = [m for m in matches if m["scrut_ty"].startswith("std::result::Result<quick_xml::events::Event")]
    for om in outer:
        for arm in om["arms"]:
            p = arm["pat"]
            kind = None
            if isinstance(p, dict) and p.get("ts", "").endswith("::Ok") and p["subs"]:
                sub = p["subs"][0]
                if isinstance(sub, dict):
                    if "ts" in sub and "events::Event::" in sub["ts"]:
                        kind = sub["ts"].split("::")[-1]
                    elif "path" in sub and "events::Event::" in sub["path"]:
                        kind = sub["path"].split("::")[-1]
            if kind is None:
                continue
            if kind in ("Text", "Eof"):
                handled.add(("#text" if kind == "Text" else "#eof", kind))
                arm_spans[("#text", kind)] = arm["body_span"]
                continue
            for im in matches:
                if im["scrut_ty"] == "&[u8]" and within(im.get("inlined_at") or im["span"], arm["body_span"]):
                    for ia in im["arms"]:
                        ip = ia["pat"]
                        if isinstance(ip, dict) and "lit" in ip and "bytes" in ip["lit"]:
                            handled.add((ip["lit"]["bytes"], kind))
                            arm_spans[(ip["lit"]["bytes"], kind)] = ia["body_span"]
    ctx.counters["handled_events"] = sorted("%s:%s" % x for x in handled)

    ctx.rule("V1", "every (element, event kind) the writer emits for key/graph/node/edge/data is handled by a reader arm")
    need = {(e, k) for (e, k) in written if e in ("key", "graph", "node", "edge", "data") and k in ("Start", "Empty")}
    ctx.floor("V1", "written_element_kinds", len(need), 5)
    for (e, k) in sorted(need):
        ctx.require((e, k) in handled, "V1", "%s:%s" % (e, k), "reader has an arm for <%s> as Event::%s" % (e, k), "the writer emits <%s> as Event::%s but the reader has no arm for that event kind: the element is silently skipped on read-back" % (e, k))
    if ("#text", "Text") in written:
        ctx.require(("#text", "Text") in handled, "V1", "data-text", "reader reads the Text event of <data>", "the writer emits text content but the reader never matches Event::Text")
    for el in ("graphml", "key", "graph", "node", "edge", "data"):
        ks = {k for (e, k) in written if e == el}
        ctx.require(bool(ks), "V1", "written|" + el, "writer emits <%s> (%s)" % (el, sorted(ks)), "writer no longer emits <%s>" % el)
        # Start is closed by End
        if "Start" in ks:
            ctx.require("End" in ks, "V1", "closed|" + el, "<%s> opened with Start is closed with End" % el, "<%s> is opened with Event::Start but never closed" % el)

    # ------------------------------------------------------------------ V2 attributes
    ctx.rule("V2", "reader-required attribute names are written; enumerated values agree with matching polarity; data key = key id")
    required = {}  # element -> set of names
    # helper functions keyed by element
    for (fn, el) in (("graphml::add_node", "node"), ("graphml::add_edge", "edge")):
        b = prog.one(fn)
        f = flows.of(b)
        for t in b.calls():
            if t.callee and t.callee.short.split("::")[-1] in ("get", "contains_key") and "HashMap" in t.callee.short and len(t.args) > 1:
                s = lit_str(f.describe(t.args[1], depth=8))
                if s is not None:
                    required.setdefault(el, set()).add(s)
    # lookups inside the reader's own arms (by span)
    rf = flows.of(reader)
    for t in reader.calls():
        if t.callee and t.callee.short.split("::")[-1] in ("get", "contains_key") and "HashMap" in t.callee.short and len(t.args) > 1:
            s = lit_str(rf.describe(t.args[1], depth=8))
            if s is None:
                continue
            owners = [(e, k) for ((e, k), sp) in arm_spans.items() if t.at and within({"file": t.at["file"], "line": t.at["line"], "col": t.at["col"], "eline": t.at["eline"], "ecol": t.at["ecol"]}, sp)]
            for (e, k) in owners:
                required.setdefault(e, set()).add(s)
    ctx.counters["reader_required_attributes"] = {k: sorted(v) for k, v in required.items()}
    n_req = 0
    for el, names in sorted(required.items()):
        for n_ in sorted(names):
            n_req += 1
            ctx.require(n_ in wattrs.get(el, {}), "V2", "attr|%s|%s" % (el, n_), "attribute `%s` that the reader looks up on <%s> is written by the writer" % (n_, el), "the reader looks up attribute `%s` on <%s> but the writer writes only %s: read-back loses or rejects what was written" % (n_, el, sorted(wattrs.get(el, {}))))
    ctx.floor("V2", "required_attributes", n_req, 4)
    # edgedefault literals and polarity on the writer side
    wb = wbodies[0]
    wf = flows.of(wb)
    ed = wattrs.get("graph", {}).get("edgedefault")
    if ed is None:
        ctx.violation("V2", "edgedefault-written", "the writer does not write graph@edgedefault")
    else:
        val_local = ed[1].args[1]
        # constant string assignments that flow into the value, with their controlling specs.directed edge
        lits = {}
        sl = wf.slice_local(wf._op_reads(val_local), data_only=True)
        for n_ in sl:
            if n_[0] == "L":
                for (dbb, d) in wb.assigns_to(n_[1]):
                    rv = getattr(d, "rv", None)
                    if rv is not None and rv.k == "use" and rv.ops[0].is_const() and rv.ops[0].c["ty"].startswith("&") and "str" in rv.ops[0].c["ty"]:
                        s = lit_str(("const", rv.ops[0].c["s"]))
                        if s in ("edgedefault",) or s is None:
                            continue
                        for (te, v, a) in controlling_atoms(wf, dbb):
                            if isinstance(te, tuple) and te[0] == "place" and te[1].endswith("specs.directed"):
                                lits[s] = v
        from props.c19 import directed_polarity

        rpol = directed_polarity(reader, rf)
        ctx.require(lits == {"directed": True, "undirected": False}, "V2", "edgedefault-writer", "writer: specs.directed selects \"directed\" / \"undirected\"", "writer maps specs.directed to %s" % lits, loc_str(ed[1].span))
        ctx.require(rpol == lits, "V2", "edgedefault-agree", "reader accepts exactly the writer's edgedefault literals with the same polarity", "edgedefault vocabulary differs: writer %s reader %s" % (lits, rpol), loc_str(ed[1].span))
    kid = wattrs.get("key", {}).get("id")
    dkey = wattrs.get("data", {}).get("key")
    ks = lit_str(kid[0]) if kid else None
    ds = lit_str(dkey[0]) if dkey else None
    kfor = lit_str(wattrs.get("key", {}).get("for", (None,))[0]) if wattrs.get("key", {}).get("for") else None
    kname = lit_str(wattrs.get("key", {}).get("attr.name", (None,))[0]) if wattrs.get("key", {}).get("attr.name") else None
    ctx.require(ks is not None and ks == ds, "V2", "data-key", "<data key> literal equals <key id> literal (%r)" % ks, "<data key=%r> does not reference the declared <key id=%r>: weights are not found on read-back" % (ds, ks))
    # V7: a <data key=K> is only understood if K is the reader's weight key: either the reader starts out with K as
    # its weight key (a default), or the declaration <key id=K ..> has been written before any <data> (must-pass-through)
    ctx.rule("V7", "every <data> the writer emits refers to a key the reader knows: the reader's default weight key, or a <key> declaration written on every path before it")
    default_ok = False
    for t in reader.calls():
        if t.callee and t.callee.short.split("::")[-1] in ("to_string", "to_owned", "from", "into") and t.args:
            if lit_str(rf.describe(t.args[0], depth=6)) == ds and ds is not None and "String" in t.dest.ty:
                default_ok = True
    key_sites = [x for (e, k), v in write_sites.items() if e == "key" for x in v]
    data_sites = [x for (e, k), v in write_sites.items() if e == "data" and k in ("Start", "Empty") for x in v]
    decl_first = bool(key_sites) and bool(data_sites)
    where = None
    for (db, dt) in data_sites:
        ok_d = False
        for (kb, kt) in key_sites:
            if kb.path == db.path:
                ok_d = ok_d or kb.dominates(kt.bb, dt.bb)
            else:
                calls = [c for c in kb.calls() if c.callee and c.callee.target_path(prog) == db.path]
                ok_d = ok_d or (bool(calls) and all(kb.dominates(kt.bb, c.bb) for c in calls))
        if not ok_d:
            decl_first = False
            where = loc_str(dt.span)
    ctx.require(default_ok or decl_first, "V7", "data-key-known", "the reader's default weight key is %r%s" % (ds, "" if not decl_first else " and the <key> declaration is written before every <data>") if default_ok else "the <key> declaration is written on every path before a <data> element", "the reader has no default weight key and a <data key=%r> can be written without the <key> declaration having been written (%s): on read-back the weights are ignored" % (ds, where), where)
    # the reader recognises the weight key by attr.name == "weight" and for == "edge"
    rlits = set()
    for t in reader.calls():
        if t.callee and t.callee.short.endswith("PartialEq::eq"):
            for a in t.args:
                s = lit_str(rf.describe(a, depth=8))
                if s:
                    rlits.add(s)
    ctx.require(kfor in rlits and kname in rlits, "V2", "key-decl", "the writer's key declaration (for=%r, attr.name=%r) uses the values the reader tests for" % (kfor, kname), "the writer declares its weight key with for=%r attr.name=%r but the reader tests for %s" % (kfor, kname, sorted(rlits)))

    # ------------------------------------------------------------------ V3 escaping
    ctx.rule("V3", "attribute values and text go through quick-xml's escaping/unescaping API on both sides; no reader config")
    bad = [(aty, t) for (aty, t) in push_types if aty.replace(" ", "") not in ("(&str,&str)", "(&'_str,&'_str)")]
    ctx.require(bool(push_types) and not bad, "V3", "push_attribute-type", "all %d push_attribute calls are instantiated at (&str, &str): values are escaped" % len(push_types), "push_attribute instantiated at %s: raw bytes bypass escaping" % sorted({a for (a, t) in bad}), loc_str(bad[0][1].span) if bad else None)
    ctx.floor("V3", "push_attribute_calls", len(push_types), 4)
    rscope = prog.reachable_bodies([reader.path])
    vals = []
    forbidden = []
    for p in rscope:
        b = prog.bodies[p]
        for t in b.calls():
            if not t.callee:
                continue
            nm = t.callee.short
            if "quick_xml" not in nm:
                continue
            last = nm.split("::")[-1]
            if last in ("unescape_value", "decode_and_unescape_value"):
                vals.append(t)
            if last in ("trim_text", "trim_text_end", "expand_empty_elements", "check_end_names", "trim_markup_names_in_closing_tags", "config_mut", "with_checks"):
                forbidden.append(t)
    ctx.require(len(vals) >= 1, "V3", "unescape", "the reader obtains attribute values through unescape_value", "the reader never unescapes attribute values")
    for t in forbidden:
        ctx.violation("V3", "reader-config|" + t.callee.short.split("::")[-1], "reader configuration %s changes how text/elements are reported" % t.callee.short, loc_str(t.span))
    # attribute raw value access
    for p in rscope:
        b = prog.bodies[p]
        for s in b.stmts():
            if s.k == "assign" and s.rv.place is not None and s.rv.place.fields()[-1:] == ["value"] and "Attribute" in "".join(e.get("of", "") for e in s.rv.place.proj if isinstance(e, dict)):
                ctx.violation("V3", "raw-attribute-value|" + b.short, "the reader reads Attribute.value directly (not unescaped)", loc_str(s.span))

    # ------------------------------------------------------------------ V4 numbers
    ctx.rule("V4", "weight written with plain f64 Display, parsed with parse::<f64>; <data> written iff !is_nan; missing <data> keeps NaN")
    ww = prog.one("graphml::write_edge_weight")
    wwf = flows.of(ww)
    disp = [t for t in ww.calls() if t.callee and t.callee.short.endswith("Argument::new_display")]
    okd = len(disp) == 1 and disp[0].callee.args and disp[0].callee.args[-1] == "f64"
    other_fmt = [t for t in ww.calls() if t.callee and "fmt::rt::Argument::new_" in t.callee.short and not t.callee.short.endswith("new_display")]
    specs = [t for t in ww.calls() if t.callee and ("new_v1_formatted" in t.callee.short or "Placeholder" in t.callee.short)]
    # the format string pieces: a single placeholder with no spec -> Arguments::new(pieces, args)
    fa = [t for t in ww.calls() if t.callee and t.callee.short.endswith("fmt::Arguments::new")]
    plain = False
    for t in fa:
        d = panic.norm(wwf.describe(t.args[0], depth=6))
        if d[0] == "const":
            # this toolchain encodes a format string as a byte template; a lone `{}` is exactly b"\\xc0\\x00"
            plain = d[1].replace("const ", "") == 'b"\\xc0\\x00"'
    ctx.require(okd and not other_fmt and not specs and len(fa) == 1 and plain, "V4", "display", "the weight is formatted by one plain Display argument of type f64", "the weight is not written with plain `{}` of f64 (display args %d, other %d, spec %d)" % (len(disp), len(other_fmt), len(specs)), loc_str(ww.span))
    # must-pass-through: the text event of the weight is built only behind the one Display call, and no other call
    # turns a number into text on the way (a "fast path" that writes `w as i64` saturates at 2^63 and loses -0.0)
    texts = [t for t in ww.calls() if t.callee and "BytesText::" in t.callee.short]
    via = True
    for t in texts:
        via = via and bool(disp) and t.bb not in ww.reachable_from(0, avoid=tuple(sorted({d_.bb for d_ in disp})))
    other_txt = [t for t in ww.calls() if t.callee and (t.callee.short.endswith("ToString::to_string") or t.callee.short.endswith("::from_utf8") or "fmt::num::" in t.callee.short
                                                       or t.callee.short.endswith("String::from") or t.callee.short.endswith("::to_owned") or t.callee.short.endswith("::to_bits"))]
    ctx.require(bool(texts) and via and not other_txt, "V4", "display-only", "the weight's text event is reachable only through the Display call of the f64, and no other number-to-text conversion occurs in write_edge_weight",
                "the weight's text can be produced without the plain f64 Display (%s): such a text does not parse back to the same bits for every weight" % (
                    ", ".join(sorted({t.callee.short.split("::")[-1] + str(t.callee.args) for t in other_txt})) or "a path to BytesText that skips the Display call"), loc_str((other_txt or texts or [ww])[0].span))
    nan = [t for t in ww.calls() if t.callee and t.callee.short.endswith("f64::is_nan")]
    okn = False
    if len(nan) == 1:
        wr = [t for t in ww.calls() if t.callee and t.callee.short.endswith("Writer::write_event")]
        # every write is reachable only through the is_nan == false edge
        okn = False
        for (bb, test, t_succ, f_succ) in panic.bool_atoms(wwf):
            if isinstance(test, tuple) and test[0] == "call" and test[1].endswith("f64::is_nan") and f_succ is not None:
                okn = bool(wr) and all(panic.passes_true_edge(ww, bb, f_succ, t.bb) for t in wr)
    ctx.require(okn, "V4", "nan-absent", "<data> is written exactly when the weight is not NaN", "<data> is not conditional on !weight.is_nan()", loc_str(ww.span))
    parses = [t for p in rscope for t in prog.bodies[p].calls() if t.callee and t.callee.short.endswith("str::parse")]
    okp = len(parses) == 1 and parses[0].callee.args and parses[0].callee.args[-1] == "f64"
    ctx.require(okp, "V4", "parse", "the reader parses the weight with str::parse::<f64>", "the reader parses the weight as %s" % [t.callee.args for t in parses], loc_str(parses[0].span) if parses else None)
    en = prog.one("edge::Edge::new")
    enan = False
    for s in en.stmts():
        if s.k == "assign" and s.rv.k == "aggr" and s.rv.j.get("adt", "").endswith("edge::Edge"):
            idx = s.rv.j["fields"].index("weight")
            d = panic.norm(flows.of(en).describe(s.rv.ops[idx], depth=4))
            enan = d[0] == "const" and "NAN" in d[1].upper()
    ae = prog.one("graphml::add_edge")
    uses_new = any(t.callee and t.callee.short.endswith("edge::Edge::new") for t in ae.calls())
    ctx.require(enan and uses_new, "V4", "default-nan", "an edge read without <data> is built with Edge::new, whose weight is NaN", "edges read without <data> do not get a NaN weight", loc_str(ae.span))

    # V4c: a value carried from one event to a later one must be consumed at most once
    ctx.rule("V4c", "a weight that is parsed in one event and stored in a later one is killed before it can be stored again (no stale pending value)")
    n_w = 0
    for p in sorted(rscope):
        b = prog.bodies[p]
        if "graphml" not in b.short:
            continue
        f = flows.of(b)
        for st in b.stmts():
            if not (st.k == "assign" and st.lhs.has_deref() and st.lhs.fields()[-1:] == ["weight"] and st.lhs.ty == "f64"):
                continue
            n_w += 1
            sl = f.slice_local(f._op_reads(st.rv.ops[0]) if st.rv.ops else set(), data_only=True)
            carried = []
            for n_ in sl:
                if n_[0] != "L" or not b.local_name(n_[1]) or n_[1] <= b.arg_count:
                    continue
                defs = [dbb for (dbb, d) in b.assigns_to(n_[1])]
                in_loop = [dbb for dbb in defs if st.bb in b.reachable_from(dbb) and dbb in b.reachable_from(st.bb)]
                if not in_loop:
                    continue
                if any(b.dominates(dbb, st.bb) for dbb in in_loop):
                    continue  # defined earlier in the same iteration
                carried.append((n_[1], defs))
            bad = []
            carried.sort(key=lambda c: 0 if b.local_ty(c[0]) == "f64" else 1)
            for (x, defs) in carried:
                after = set()
                for s_ in b.succ(st.bb):
                    after |= b.reachable_from(s_, avoid=tuple(sorted(set(defs))))
                if st.bb in after:
                    bad.append(b.local_name(x))
            key = "pending|" + b.short
            if bad:
                ctx.violation("V4c", key, "the weight stored at this point comes from `%s`, which is set in an earlier loop iteration and is not reset before the next store: an element without <data> inherits the previous element's weight" % bad[0], loc_str(st.span))
            else:
                ctx.ok("V4c", key, "the stored weight is parsed in the same iteration%s" % (" or its carrier is reset before reuse" if carried else ""), loc_str(st.span))
    ctx.floor("V4c", "weight_stores_in_reader", n_w, 1)

    # ------------------------------------------------------------------ V5 order
    ctx.rule("V5", "nodes are written in position order and read back in document order")
    wfl = flows.of(wb)
    node_elem_events = [t for t in wb.calls() if t.callee and t.callee.short.endswith("BytesStart::new") and lit_str(wfl.describe(t.args[0], depth=6)) == "node"]
    ok5 = False
    if node_elem_events:
        t = node_elem_events[0]
        # the loop it sits in iterates get_all_nodes()
        for nx in wb.calls():
            if nx.callee and nx.callee.short == "std::iter::Iterator::next":
                lb = hashord.natural_loop_blocks(wb, nx.bb)
                if t.bb in lb:
                    sl = wfl.slice_local(wfl._op_reads(nx.args[0]), data_only=True)
                    cal = {wb.blocks[n_[1]].term.callee.short.split("::")[-1] for n_ in sl if n_[0] == "CALL" and wb.blocks[n_[1]].term.callee}
                    ok5 = "get_all_nodes" in cal and not (cal & {"rev", "sorted", "sort", "sort_by", "keys", "values"})
    ctx.require(ok5, "V5", "write-order", "<node> elements are written by iterating get_all_nodes() (position order)", "<node> elements are not written in position order", loc_str(wb.span))
    an = prog.one("graphml::add_node")
    pushes = [e for e in effects.events(an.path) if e[2][0] == "P" and e[2][1] == 1]
    ok5r = bool(pushes) and all(e[3] == "Vec::push" for e in pushes)
    ctx.require(ok5r, "V5", "read-order", "nodes are appended (Vec::push) in document order", "nodes are not simply appended on read: %s" % sorted({e[3] for e in pushes}), loc_str(an.span))
    gan = prog.one("query::Graph::get_all_nodes")
    gsl = flows.of(gan).slice_local([L(0)], data_only=True)
    from graphrules import field_of

    gfs = {field_of(("P", n_[1], n_[2])) for n_ in gsl if n_[0] == "SRC"}
    ctx.require("nodes_vec" in gfs and not (gfs & {"nodes_map", "nodes_map_rev"}), "V5", "get_all_nodes", "get_all_nodes returns the position-ordered store", "get_all_nodes reads %s" % sorted(x for x in gfs if x), loc_str(gan.span))

    # ------------------------------------------------------------------ V8 one <edge> per stored edge
    ctx.rule("V8", "the writer emits one <edge> element per stored edge: its edge loop walks get_all_edges() through one-to-one steps only (no set, no dedup, no filter)")
    edge_elem_events = [t for t in wb.calls() if t.callee and t.callee.short.endswith("BytesStart::new") and lit_str(wfl.describe(t.args[0], depth=6)) == "edge"]
    ok8 = False
    why8 = "no loop around the <edge> element"
    if edge_elem_events:
        t = edge_elem_events[0]
        for nx in wb.calls():
            if nx.callee and nx.callee.short == "std::iter::Iterator::next":
                lb = hashord.natural_loop_blocks(wb, nx.bb)
                if t.bb not in lb:
                    continue
                sl = wfl.slice_local(wfl._op_reads(nx.args[0]), data_only=True)
                terms = [wb.blocks[n_[1]].term for n_ in sl if n_[0] == "CALL" and wb.blocks[n_[1]].term.callee]
                cal = {x.callee.short.split("::")[-1] for x in terms}
                lossy = sorted(cal & {"dedup", "dedup_by", "dedup_by_key", "unique", "unique_by", "filter", "filter_map", "take", "skip", "step_by", "take_while", "skip_while", "find", "last", "first", "nth", "min", "max"})
                sets = sorted({x.dest.ty.split("<")[0] for x in terms if x.dest.ty.split("<")[0].split("::")[-1] in ("BTreeSet", "HashSet", "BTreeMap", "HashMap", "IndexSet")})
                ok8 = "get_all_edges" in cal and not lossy and not sets
                why8 = "iterates %s%s%s" % (sorted(cal), (", dropping elements through %s" % lossy) if lossy else "", (", collecting them into %s (Edge's Eq/Ord compare the endpoints only, so parallel edges collapse)" % sets) if sets else "")
    ctx.require(ok8, "V8", "edge-per-edge", "<edge> elements are written by iterating get_all_edges() one to one", "the writer's <edge> loop %s: the document has fewer <edge> elements than the graph has edges" % why8, loc_str(wb.span))

    from graphrules import no_edge_identity_collections

    no_edge_identity_collections(ctx, prog, "V9", ("readwrite::",), "the document has fewer <edge> elements than the graph has edges (or the graph fewer edges than the document)")
    # ------------------------------------------------------------------ V10 attribute values are stored verbatim
    ctx.rule("V10", "an unescaped attribute value reaches the node name / edge endpoint as it is: no trimming, case folding, replacing, splitting or truncating in between")
    CHANGING = ("trim", "trim_start", "trim_end", "trim_matches", "trim_start_matches", "trim_end_matches", "trim_left", "trim_right", "trim_ascii", "trim_ascii_start", "trim_ascii_end",
                "to_lowercase", "to_uppercase", "to_ascii_lowercase", "to_ascii_uppercase", "make_ascii_lowercase", "make_ascii_uppercase", "replace", "replacen", "strip_prefix", "strip_suffix",
                "split", "split_whitespace", "split_once", "rsplit", "rsplit_once", "splitn", "split_terminator", "lines", "truncate", "pop", "remove", "retain", "drain", "split_off", "escape_debug", "escape_default", "normalize")
    n10 = 0
    for p in sorted(rscope):
        b = prog.bodies[p]
        f10 = flows.of(b)
        # (a) forwards from every unescaped value to wherever it goes in this function
        for t in b.calls():
            if not t.callee:
                continue
            last = t.callee.short.split("::")[-1]
            starts = None
            if "quick_xml" in t.callee.short and last in ("unescape_value", "decode_and_unescape_value", "unescape"):
                # backwards from what this function returns (the slice is a dependence slice): the unescaped value
                # and every operation applied to it on the way out
                sl = {(b.path, nd) for nd in f10.slice_local([L(0)], data_only=True)}
                if (b.path, ("CALL", t.bb)) not in sl:
                    continue
                what = "the value returned by %s" % last
                starts = True
            elif last in ("from_name", "from_name_and_attributes") and "node::Node" in t.callee.short or (last in ("new", "with_weight", "with_attribute", "with_weight_and_attribute") and "edge::Edge" in t.callee.short):
                reads = set()
                for a in t.args[: (1 if "Node" in t.callee.short else 2)]:
                    reads |= set(f10._op_reads(a))
                sl = {(b.path, nd) for nd in f10.slice_local(reads, data_only=True)}
                what = "the name handed to %s::%s" % (t.callee.short.split("::")[-2], last)
                starts = True
            if not starts:
                continue
            n10 += 1
            bad = set()
            for (bp, nd) in sl:
                if nd[0] == "CALL":
                    tt = prog.bodies[bp].blocks[nd[1]].term
                    if tt.callee and tt.callee.short.split("::")[-1] in CHANGING and tt.args and tt.args[0].place is not None and ("str" in tt.args[0].place.ty or "String" in tt.args[0].place.ty or "Cow<" in tt.args[0].place.ty):
                        bad.add(tt.callee.short.split("::")[-1])
            ctx.require(not bad, "V10", "verbatim|%s|%d" % (b.short, n10), "%s in %s passes through no content-changing string operation" % (what, b.short.split("::")[-1]),
                        "%s in %s passes through %s: names that differ only in what that operation removes or rewrites (outer blanks, case ..) are merged or renamed on reading, so a written graph does not come back with its own node names" % (what, b.short, "/".join(sorted(bad))), loc_str(t.span))
    ctx.floor("V10", "value_flows", n10, 3)

    # ------------------------------------------------------------------ V11 refusals look at presence, not content
    # every name is a legal node name -- the empty string too, and the writer writes it (id="", source="").  The reader's
    # element helpers may refuse an element because a required attribute is ABSENT (contains_key / get(..) is None);
    # a refusal that depends on what the value IS (is_empty, len, a comparison) rejects documents the writer produces.
    ctx.rule("V11", "the reader refuses a <node> / <edge> element only for an absent attribute, never for the content of a present one")
    from engines import canon_exists as _ce11

    n11 = 0
    for hp in ("graphml::add_edge", "graphml::add_node"):
        hb = prog.one(hp)
        for b11 in [hb] + list(prog.closures_of(hb.path)):
            f11 = flows.of(b11)
            for t in b11.calls():
                if not (t.callee and t.callee.short.endswith("get_read_error")):
                    continue
                n11 += 1
                bad11 = []
                for (te, v, a) in controlling_atoms(f11, t.bb):
                    if not isinstance(te, tuple):
                        continue
                    if te[0] == "call" and te[1].split("::")[-1] in ("contains_key", "is_some", "is_none", "contains"):
                        continue
                    if te[0] == "discr":
                        continue
                    if _ce11(f11, te, v, a) is not None:
                        continue
                    if desc_mentions(te, lambda x: x[0] == "call" and x[1].split("::")[-1] in ("get", "get_attributes_as_hashmap", "index", "remove", "get_key_value")):
                        bad11.append(fmt_desc(te)[:100])
                ctx.require(not bad11, "V11", "refusal|%s|%d" % (b11.short.split("::")[-1], n11), "the refusal in %s depends on the presence of the attribute only" % b11.short.split("::")[-1],
                            "%s refuses an element depending on the CONTENT of an attribute value (%s): the writer emits such values (an empty node name is written as \"\"), so a document the library wrote is rejected on reading" % (b11.short, "; ".join(bad11)), loc_str(t.span))
    ctx.floor("V11", "element_refusals", n11, 3)

    # ------------------------------------------------------------------ V6 file = string
    ctx.rule("V6", "file variants wrap the string variants with file I/O only")
    wfile = prog.one("graphml::write_graphml_file")
    ff = flows.of(wfile)
    wa = [t for t in wfile.calls() if t.callee and t.callee.short.endswith("Write::write_all")]
    ok6 = False
    if len(wa) == 1:
        sl = ff.slice_local(ff._op_reads(wa[0].args[1]), data_only=True)
        cal = {wfile.blocks[n_[1]].term.callee.short for n_ in sl if n_[0] == "CALL" and wfile.blocks[n_[1]].term.callee}
        ok6 = any(c.endswith("graphml::write_graphml_string") for c in cal) and all(c.split("::")[-1] in ("write_graphml_string", "branch", "as_bytes", "deref") for c in cal)
    ctx.require(ok6, "V6", "write-file", "write_graphml_file writes exactly write_graphml_string's bytes", "write_graphml_file transforms the document before writing", loc_str(wfile.span))
    # the destination holds the document and nothing else: it is opened by a call that truncates (File::create,
    # fs::write) or by OpenOptions with truncate(true) -- write(true).create(true) alone leaves the tail of a longer old file
    wbodies = [wfile] + prog.closures_of(wfile.path)
    opens = [t for b_ in wbodies for t in b_.calls() if t.callee and (t.callee.short.endswith("File::create") or t.callee.short.endswith("fs::write") or t.callee.short.endswith("OpenOptions::open") or t.callee.short.endswith("File::options") or t.callee.short.endswith("File::create_new"))]
    oo = [t for b_ in wbodies for t in b_.calls() if t.callee and t.callee.short.endswith("OpenOptions::open")]
    trunc = [t for b_ in wbodies for t in b_.calls() if t.callee and t.callee.short.endswith("OpenOptions::truncate") and len(t.args) > 1 and t.args[1].is_const() and t.args[1].const_int() == 1]
    app = [t for b_ in wbodies for t in b_.calls() if t.callee and t.callee.short.endswith("OpenOptions::append")]
    ok6t = bool(opens) and (not oo or (bool(trunc) and not app))
    ctx.require(ok6t, "V6", "write-file-truncates", "the destination file is created / truncated before the document is written", "write_graphml_file opens its destination without truncating it (OpenOptions without truncate(true)%s): when the path already holds a longer file, its tail stays behind the new document and the file no longer equals write_graphml_string's output" % (", with append" if app else ""), loc_str((oo or opens or [wfile])[0].span))
    rfile = prog.one("graphml::read_graphml_file")
    rff = flows.of(rfile)
    rc = [t for t in rfile.calls() if t.callee and t.callee.short.endswith("graphml::read_graphml_string")]
    ok6r = False
    if len(rc) == 1:
        sl = rff.slice_local(rff._op_reads(rc[0].args[0]), data_only=True)
        cal = {rfile.blocks[n_[1]].term.callee.short.split("::")[-1] for n_ in sl if n_[0] == "CALL" and rfile.blocks[n_[1]].term.callee}
        ok6r = "read_to_string" in cal and cal <= {"read_to_string", "expect", "unwrap", "deref", "as_str", "branch"}
    ctx.require(ok6r, "V6", "read-file", "read_graphml_file feeds the file's contents unmodified into read_graphml_string", "read_graphml_file transforms the contents before parsing", loc_str(rfile.span))


def attribute_values_unescaped(ctx, prog, rid, reader, consequence):
    """shared with C19: the reader takes attribute values through quick-xml's unescape_value (entity and character
    references resolved), never from the raw bytes of Attribute.value"""
    rscope = prog.reachable_bodies([reader.path])
    vals, raw = [], []
    for p in rscope:
        b = prog.bodies[p]
        for t in b.calls():
            if t.callee and "quick_xml" in t.callee.short and t.callee.short.split("::")[-1] in ("unescape_value", "decode_and_unescape_value"):
                vals.append(t)
        for s_ in b.stmts():
            if s_.k != "assign":
                continue
            for pl in [s_.rv.place] + [o.place for o in s_.rv.ops]:
                if pl is not None and pl.fields()[-1:] == ["value"] and "Attribute" in "".join(e.get("of", "") for e in pl.proj if isinstance(e, dict)):
                    raw.append((b, s_))
    ctx.require(bool(vals) and not raw, rid, "attribute-values", "attribute values are obtained through unescape_value (%d call sites), never from Attribute.value" % len(vals),
                "the reader %s: an id such as \"R&amp;D\" is then read as the literal text `R&amp;D`, so the graph does not contain the nodes and edges the document names, %s" % ("reads the raw bytes of Attribute.value in %s" % raw[0][0].short if raw else "never unescapes attribute values", consequence), loc_str(raw[0][1].span) if raw else loc_str(reader.span))
