"""C12 -- is_partition / modularity: structural necessary conditions only."""
from core import ASSUME_RUSTC, ASSUME_PATHS
from engines import errorkind_sites
from flow import Flows, L, fmt_desc
from guard import ok_producers
import panic
from mir import loc_str, short

LEVEL = "other"
EXPLANATION = (
    "Decides structural NECESSARY conditions of C12; the partition predicate's value and Newman's sum are not computed.  R-C12-1: "
    "the result of is_partition data/control-depends on (i) a graph-membership lookup keyed by the communities' elements, (ii) an "
    "operation that compares element identities ACROSS communities (HashSet insert/contains/is_disjoint/intersection/union/extend or a "
    "collect of the flattened elements into a set) -- a predicate that only sees counts and per-element membership cannot tell an "
    "overlap that is compensated by a missing node from a partition -- and (iii) the number of nodes of the graph; every `false` "
    "result is conditional on one of these tests and the non-false result is a comparison involving the node count.  R-C12-2: every "
    "non-error return of modularity is reachable only through the true edge of is_partition(graph, communities), and NotAPartition is "
    "built on the false edge.  R-C12-3: modularity's value depends on communities, weighted, resolution, the degree functions and the "
    "induced subgraphs' edges.  R-C12-4: on the data path from the stored edge list to L_c (get_subgraph's edge list, the "
    "contribution closure of modularity) no operation on edges merges, drops or truncates them (unique/dedup/set-collect/take/...) "
    "-- necessary for `parallel edges counted individually`.  R-C12-8: the self-loop correction of the degrees behind the degree sums is a count / sum, never a truth value turned into a number.  R-C12-9: the per-community term is L_c/m - R*O*I*norm with m = S, norm = 1/S^2 (directed) resp. m = S/2, norm = 1/(2m)^2 (undirected), compared as expressions on a grid.  R-C12-10: the degree maps modularity unwraps lookups in have one entry per node.  NOT decided: that is_partition is exactly the partition predicate, and Newman's formula (numerical)."
)
TRUSTED = ["rustc MIR construction", "over-approximated dependence (absence is definite)"]

IDENTITY_OPS = ("HashSet::insert", "HashSet::contains", "HashSet::is_disjoint", "HashSet::intersection", "HashSet::union", "HashSet::is_subset", "HashSet::is_superset", "BTreeSet::insert", "HashSet::extend", "Vec::dedup", "Itertools::unique", "Itertools::all_unique", "Itertools::duplicates")
MEMBERSHIP = ("get_node", "has_node", "has_nodes", "get_node_index", "contains_key")
NODECOUNT = ("get_all_nodes", "number_of_nodes", "get_all_node_names")


def run(ctx):
    prog = ctx.prog
    flows = Flows(prog)
    ctx.assume(ASSUME_RUSTC)
    ctx.assume(ASSUME_PATHS)
    ip = prog.one("partitions::is_partition")
    fl = flows.of(ip)
    ctx.rule("R-C12-1", "is_partition depends on graph membership of the members, on a cross-community element-identity test, and on the node count")
    sl = flows.slice(ip.path, [L(0)], up=False, down="clos")
    cal = set()
    for (bp, n) in sl:
        if n[0] == "CALL":
            t = prog.bodies[bp].blocks[n[1]].term
            if t.callee:
                cal.add(t.callee.short)
    # collect into a set also counts as an identity operation
    sets = any(c.endswith("Iterator::collect") for c in cal) and any(("HashSet<" in prog.bodies[bp].blocks[n[1]].term.dest.ty or "BTreeSet<" in prog.bodies[bp].blocks[n[1]].term.dest.ty) for (bp, n) in sl if n[0] == "CALL" and prog.bodies[bp].blocks[n[1]].term.callee and prog.bodies[bp].blocks[n[1]].term.callee.short.endswith("Iterator::collect"))
    has_mem = any(c.split("::")[-1] in MEMBERSHIP for c in cal)
    has_id = sets or any(any(c.endswith(op) for op in IDENTITY_OPS) for c in cal)
    has_cnt = any(c.split("::")[-1] in NODECOUNT for c in cal)
    comm = ip.param_local("communities")
    gp = ip.param_local("graph")
    dep_params = (ip.path, L(comm)) in sl and (ip.path, L(gp)) in sl
    ctx.require(has_mem, "R-C12-1", "membership", "the answer depends on a graph-membership lookup of the members", "is_partition never checks that the members are nodes of the graph", loc_str(ip.span))
    ctx.require(has_id, "R-C12-1", "identity", "the answer depends on an element-identity test across communities (%s)" % sorted(c.split("::")[-1] for c in cal if any(c.endswith(op) for op in IDENTITY_OPS)), "is_partition only counts: no operation compares elements across communities (calls: %s), so overlapping communities whose sizes add up (e.g. [{a,b},{a}] on {a,b,c}) are accepted" % sorted(c.split("::")[-1] for c in cal), loc_str(ip.span))
    ctx.require(has_cnt and dep_params, "R-C12-1", "coverage", "the answer depends on the number of nodes of the graph and on both arguments", "is_partition does not compare with the graph's node count", loc_str(ip.span))
    # shape of the results: `false` only under one of the tests; the other result is a comparison with the node count
    n_false = n_other = 0
    for (bb, d) in ip.assigns_to(0):
        rv = getattr(d, "rv", None)
        if rv is not None and rv.k == "use" and rv.ops[0].is_const():
            v = rv.ops[0].const_int()
            if v == 0:
                n_false += 1
                tests = set()
                for (a, s_) in ip.transitive_control_deps(bb):
                    at = fl.atom(a)
                    if at:
                        tests.add(fmt_desc(panic.norm(at["test"])))
                # `members.all(|n| is_node(n) && seen.insert(n))` bound to a variable: the tests sit in the closure (its
                # membership / identity operations are required by the first part of this rule)
                tests = {panic.norm_str(panic.expand_names(fl, panic.norm(fl.atom(a)["test"]))) for (a, s_) in ip.transitive_control_deps(bb) if fl.atom(a)} | tests
                ok = any(any(m in t for m in MEMBERSHIP) or "insert(" in t or "contains(" in t or "is_disjoint(" in t or ((t.startswith("all(") or t.startswith("any(") or "(all(" in t or "(any(" in t) and has_mem and has_id) for t in tests)
                ctx.require(ok, "R-C12-1", "false-under-test|%d" % n_false, "a `false` answer is conditional on a membership / identity test", "a `false` answer is returned under %s" % sorted(tests), loc_str(d.span))
            else:
                ctx.violation("R-C12-1", "const-true", "is_partition returns a constant `true`", loc_str(d.span))
        else:
            n_other += 1
            ops = d.rv.ops if rv is not None else d.args
            s2 = set()
            for o in ops:
                s2 |= flows.slice(ip.path, fl._op_reads(o), up=False, down="clos", data_only=True)
            c2 = {prog.bodies[bp].blocks[n[1]].term.callee.short.split("::")[-1] for (bp, n) in s2 if n[0] == "CALL" and prog.bodies[bp].blocks[n[1]].term.callee}
            ctx.require(bool(c2 & set(NODECOUNT)), "R-C12-1", "final-compare", "the non-false answer is a comparison involving the graph's node count", "the non-false answer does not involve the node count (%s)" % sorted(c2), loc_str(d.span))
    ctx.floor("R-C12-1", "result_definitions", n_false + n_other, 2)

    # ------------------------------------------------------------------ R-C12-2
    ctx.rule("R-C12-2", "modularity answers only behind is_partition(graph, communities) == true; otherwise NotAPartition")
    mo = prog.one("partitions::modularity")
    mf = flows.of(mo)
    guard = None
    for (bb, test, t_succ, f_succ) in panic.bool_atoms(mf):
        if isinstance(test, tuple) and test[0] == "call" and test[1].endswith("partitions::is_partition"):
            args = [fmt_desc(x) for x in test[2]]
            if args == ["graph", "communities"]:
                guard = (bb, t_succ, f_succ)
    if guard is None:
        ctx.violation("R-C12-2", "guard", "modularity does not branch on is_partition(graph, communities)", loc_str(mo.span))
    else:
        bb, t_succ, f_succ = guard
        prods = [(pb, w, s) for (pb, w, s) in (ok_producers(mo) or [])]
        ok = bool(prods) and all(panic.passes_true_edge(mo, bb, t_succ, pb) for (pb, w, s) in prods)
        ctx.require(ok, "R-C12-2", "ok-behind-guard", "every non-error return of modularity is behind is_partition == true", "modularity can return a value for communities that are not a partition", loc_str(mo.span))
        nap = [(kb, s) for (kb, s, v) in errorkind_sites(mo) if v == "NotAPartition"]
        ok2 = len(nap) == 1 and panic.passes_true_edge(mo, bb, f_succ, nap[0][0])
        ctx.require(ok2, "R-C12-2", "notapartition", "NotAPartition is returned exactly on the false edge", "NotAPartition is not tied to is_partition == false", loc_str(mo.span))

    # ------------------------------------------------------------------ R-C12-3
    ctx.rule("R-C12-3", "modularity's value depends on communities, weighted, resolution, the degree functions and the induced subgraphs")
    sl = set()
    for (pb, w, s) in ok_producers(mo) or []:
        for o in (s.rv.ops if getattr(s, "rv", None) is not None else s.args):
            sl |= flows.slice(mo.path, mf._op_reads(o), up=False, down="clos")
    cal = {prog.bodies[bp].blocks[n[1]].term.callee.short.split("::")[-1] for (bp, n) in sl if n[0] == "CALL" and prog.bodies[bp].blocks[n[1]].term.callee}
    for pn in ("communities", "weighted", "resolution", "graph"):
        pl = mo.param_local(pn)
        ctx.require(pl is not None and (mo.path, L(pl)) in sl, "R-C12-3", "param|" + pn, "modularity depends on `%s`" % pn, "modularity does not depend on `%s`" % pn, loc_str(mo.span))
    need = {"get_subgraph", "get_all_edges"}
    deg = {"get_weighted_out_degree_for_all_nodes", "get_weighted_in_degree_for_all_nodes", "get_out_degree_for_all_nodes", "get_in_degree_for_all_nodes", "get_weighted_degree_for_all_nodes", "get_degree_for_all_nodes"}
    ctx.require(need <= cal and deg <= cal, "R-C12-3", "terms", "modularity uses the induced subgraphs' edges and all six degree tables (directed/undirected x weighted/unweighted)", "modularity no longer uses %s" % sorted((need | deg) - cal), loc_str(mo.span))

    # ------------------------------------------------------------------ R-C12-4
    ctx.rule("R-C12-4", "parallel edges are counted individually: between the stored edge list and L_c no operation on edges merges, drops or truncates them other than the endpoint filter")
    sg = prog.one("subgraph::Graph::get_subgraph")
    sf = flows.of(sg)
    chains = []
    for t in sg.calls():
        if t.callee and t.callee.short.endswith("new_from_nodes_and_edges") and len(t.args) >= 2:
            chains.append(("edge list handed to new_from_nodes_and_edges in get_subgraph", flows.slice(sg.path, sf._op_reads(t.args[1]), up=False, down="clos", data_only=True), t))
    # in modularity: the value of each community's contribution (closure result)
    for cp in sorted(prog.reachable_bodies([mo.path])):
        cb = prog.bodies[cp]
        if cb.kind != "closure" or not cp.startswith(mo.path):
            continue
        if not any(t.callee and t.callee.short.endswith("get_subgraph") for t in cb.calls()):
            continue
        t0 = [t for t in cb.calls() if t.callee.short.endswith("get_subgraph")][0] if all(t.callee for t in cb.calls()) else list(cb.calls())[0]
        chains.append(("community contribution in modularity", flows.slice(cb.path, [L(0)], up=False, down="clos", data_only=True), t0))
    MERGING = ("unique", "unique_by", "dedup", "dedup_by", "dedup_by_key", "dedup_with_count", "dedup_by_with_count", "take", "skip", "step_by", "take_while", "skip_while", "nth", "last", "first", "truncate", "min_by", "max_by", "min_by_key", "max_by_key", "tuple_windows", "chunks", "retain")
    for (what, sl, t) in chains:
        calls = []
        for (bp, n) in sl:
            if n[0] == "CALL":
                tt = prog.bodies[bp].blocks[n[1]].term
                if tt.callee:
                    calls.append((tt.callee.short, tt))
        bad = []
        for (nm, tt) in calls:
            last = nm.split("::")[-1]
            tys = [tt.dest.ty] + [a.place.ty for a in tt.args if a.place is not None]
            on_edges = any("Edge<" in ty for ty in tys)
            if last in MERGING and on_edges:
                bad.append("%s at %s" % ("::".join(nm.split("::")[-2:]), loc_str(tt.span)))
            if last in ("collect", "from_iter") and any(k in tt.dest.ty for k in ("HashSet<", "BTreeSet<", "HashMap<", "BTreeMap<")) and "Edge<" in tt.dest.ty:
                bad.append("collect of edges into %s at %s" % (tt.dest.ty.split("<")[0].split("::")[-1], loc_str(tt.span)))
        src_ok = any(nm.endswith("get_all_edges") for (nm, tt) in calls)
        key = what.split(" in ")[-1]
        if bad:
            ctx.violation("R-C12-4", key, "the %s passes through %s: parallel edges (equal endpoints and weight) collapse or edges are dropped, so L_c no longer counts every stored edge" % (what, "; ".join(sorted(set(bad)))), loc_str(t.span))
        elif not src_ok:
            ctx.undecided("R-C12-4", key, "the %s no longer starts from get_all_edges (calls: %s); completeness of the edge list is not decided" % (what, sorted({nm.split("::")[-1] for (nm, tt) in calls})), loc_str(t.span))
        else:
            ctx.ok("R-C12-4", key, "the %s comes from get_all_edges through %s only" % (what, sorted({nm.split("::")[-1] for (nm, tt) in calls})), loc_str(t.span))
    ctx.floor("R-C12-4", "edge_chains", len(chains), 2)

    # ------------------------------------------------------------------ R-C12-5
    # R-C12-6: L_c is counted on get_subgraph(community): that graph must hold every stored edge of the community once
    from props.c15 import subgraph_edge_source

    from props.c09 import degrees_from_edge_lists

    degrees_from_edge_lists(ctx, prog, flows, "R-C12-7", ("get_node_weighted_in_degree", "get_node_weighted_out_degree", "get_node_in_degree", "get_node_out_degree", "get_node_degree", "get_node_weighted_degree"), "the degree sums and m of the modularity formula count a bundle of parallel edges once (at its smallest weight) while L_c counts every edge")
    modularity_formula(ctx, prog, flows, mo)
    resolution_as_given(ctx, prog, flows, mo)
    from props.c09 import degree_maps_keyed_by_node_list

    degree_maps_keyed_by_node_list(ctx, prog, flows, "R-C12-10", "modularity looks every member of a community up in these maps and unwraps: for a true partition that contains an isolated node the call panics instead of returning the value")
    from props.c09 import selfloop_term_counts_every_loop

    selfloop_term_counts_every_loop(ctx, prog, flows, "R-C12-8", "so the degree sums of the modularity formula fall short of 2m and a single community holding every node no longer has modularity 0")
    ctx.rule("R-C12-6", "the per-community edge term is counted on an induced subgraph whose candidate edges are the whole edge store")
    subgraph_edge_source(ctx, prog, flows, "R-C12-6", "the intra-community term L_c of the modularity under- or over-counts")
    ctx.rule("R-C12-5", "L_c is taken from the induced subgraph on every path: the variable that holds it has no constant definition")
    n_lc = 0
    for cpath in sorted(prog.reachable_bodies([mo.path])):
        cb = prog.bodies[cpath]
        if not (cpath == mo.path or cpath.startswith(mo.path)):
            continue
        cfl = flows.of(cb)
        locals_ = {s.lhs.local for s in cb.stmts() if s.k == "assign" and not s.lhs.proj} | {t.dest.local for t in cb.calls() if not t.dest.proj}
        for l in sorted(locals_):
            if cb.local_ty(l) != "f64":
                continue
            defs = cb.assigns_to(l)
            from_sub = []
            consts = []
            for (dbb, d) in defs:
                rv = getattr(d, "rv", None)
                if rv is not None and rv.k == "use" and rv.ops[0].is_const():
                    consts.append(d)
                    continue
                reads = set()
                if rv is not None:
                    for o in rv.ops:
                        reads |= cfl._op_reads(o)
                else:
                    reads = {("CALL", dbb)}
                sl = cfl.slice_local(reads, data_only=True)
                cs = {cb.blocks[n[1]].term.callee.short.split("::")[-1] for n in sl if n[0] == "CALL" and cb.blocks[n[1]].term.callee}
                if cs & {"get_subgraph", "get_all_edges"}:
                    from_sub.append(d)
            if from_sub:
                n_lc += 1
                ctx.require(not consts, "R-C12-5", "lc|%s" % cb.short.split("::{closure")[0], "the value counted from the induced subgraph's edges in %s has no constant alternative" % cb.short.split("::")[-1], "in %s the number/weight of a community's internal edges is a constant on some path (%s) instead of being counted from the induced subgraph: a self-loop on a node that is alone in its community is not counted in L_c" % (cb.short, loc_str(consts[0].span) if consts else ""), loc_str(from_sub[0].span))
    ctx.floor("R-C12-5", "lc_values", n_lc, 1)


def modularity_formula(ctx, prog, flows, mo):
    """R-C12-9.  "modularity equals the sum over communities of L_c/m - resolution * (out-degree sum x in-degree sum)/m^2
    (undirected: L_c/m - resolution * (degree sum / 2m)^2)": the statement names an expression, and the code computes an
    expression.  Both are compared as arithmetic over the quantities they share -- L_c (the sum / count over the induced
    subgraph's edges), the two degree sums O and I of a community, the resolution R, and S = the sum of all degrees --
    at a grid of points: (a) the two normalisers handed to the per-community closure are m = S and norm = 1/S^2 on the
    directed arm, m = S/2 and norm = 1/S^2 = 1/(2m)^2 on the undirected one; (b) every definition that reaches the
    closure's return is L_c/m - R*O*I*norm, with I = O when undirected.  Reaching definitions resolve the variables
    that are assigned per arm; nothing is executed and no branch is decided."""
    from engines import forms_of_def, classify_forms, FormulaEval, matches_form
    from props.c01 import controlling_atoms
    from flow import desc_mentions
    import panic

    ctx.rule("R-C12-9", "modularity's per-community term is L_c/m - R*O*I*norm with m = S, norm = 1/S^2 (directed) resp. m = S/2, norm = 1/(2m)^2 (undirected), as expressions over the edge term, the degree sums and the total degree")
    clos = [c for c in prog.closures_of(mo.path) if c.local_ty(0) == "f64" and len([x for x in c.item.get("captures", []) if x["ty"] == "f64"]) == 2]
    if len(clos) != 1:
        ctx.undecided("R-C12-9", "shape", "the per-community term is no longer one closure with two captured f64 normalisers (found %d candidates); the formula is not compared" % len(clos), loc_str(mo.span))
        return
    cb = clos[0]
    caps = cb.item.get("captures", [])
    f64_ups = [x["name"] for x in caps if x["ty"] == "f64"]
    map_ups = [x["name"] for x in caps if x["ty"].startswith("std::collections::HashMap<") and x["ty"].endswith("f64>")]
    fl = flows.of(mo)
    # ---- (a) the normalisers, per arm of specs.directed
    grid_s = [(s_,) for s_ in (2.0, 5.0, 12.0, 31.0)]

    def leaf_s(pt):
        def leaf(d):
            if d[0] == "call" and d[1].split("::")[-1] in ("sum", "fold") and desc_mentions(d, lambda x: x[0] == "call" and x[1].split("::")[-1] in ("values", "iter", "into_values")):
                return pt[0]
            return None
        return leaf

    forms_s = {"S": lambda pt: pt[0], "S/2": lambda pt: pt[0] / 2.0, "1/S^2": lambda pt: 1.0 / (pt[0] * pt[0])}
    per_name = {}
    undec = False
    for nm in f64_ups:
        per_name[nm] = {}
        # the captured variable, and behind a plain copy the per-arm definitions
        cands = [l for l in mo.locals_named(nm)]
        terminal = []
        for l in cands:
            for (bb, d) in mo.assigns_to(l):
                rv = getattr(d, "rv", None)
                if rv is not None and rv.k == "use" and rv.ops and rv.ops[0].place is not None and not rv.ops[0].place.proj and mo.local_name(rv.ops[0].place.local) is None and len(mo.assigns_to(rv.ops[0].place.local)) > 1:
                    terminal += mo.assigns_to(rv.ops[0].place.local)
        if not terminal:
            for l in cands:
                if len(mo.assigns_to(l)) > 1:
                    terminal += mo.assigns_to(l)
        for (bb, d) in terminal:
            dirv = [v for (te, v, a) in controlling_atoms(fl, bb) if isinstance(te, tuple) and te[0] == "place" and te[1].endswith("specs.directed")]
            if len(dirv) != 1:
                continue
            fs = forms_of_def(fl, d, leaf_s, grid_s)
            if fs is None or len(fs) != 1:
                undec = True
                continue
            hit = [k for k, fn in forms_s.items() if matches_form(fs[0], fn, grid_s)]
            per_name[nm][dirv[0]] = (hit[0] if hit else "?", fs[0], d)
    m_name = next((nm for nm, a in per_name.items() if a.get(True, ("",))[0] == "S"), None)
    n_name = next((nm for nm, a in per_name.items() if a.get(True, ("",))[0] == "1/S^2" and nm != m_name), None)
    if undec or any(len(a) < 2 for a in per_name.values()):
        ctx.undecided("R-C12-9", "normalisers", "the two normalisers of modularity are not plain arithmetic over the total degree on both arms of specs.directed; their form is not decided", loc_str(mo.span))
    else:
        want = {True: ("S", "1/S^2"), False: ("S/2", "1/S^2")}
        if m_name is None or n_name is None:
            got = {nm: {k: v[0] for k, v in a.items()} for nm, a in per_name.items()}
            ctx.violation("R-C12-9", "normalisers", "on the directed arm the normalisers of modularity are not m = S and norm = 1/S^2 (S = sum of all out-degrees): %s" % got, loc_str(mo.span))
        else:
            for v in (True, False):
                gm, gn = per_name[m_name][v], per_name[n_name][v]
                ok = (gm[0], gn[0]) == want[v]
                ctx.require(ok, "R-C12-9", "normalisers|directed=%s" % v, "directed=%s: m = %s, norm = %s" % (v, gm[0], gn[0]),
                            "with specs.directed == %s modularity uses m = %s and norm = %s as functions of the total degree S (at S = %s: m = %s, norm = %s); the definition needs m = %s and norm = %s%s" % (v, gm[0], gn[0], grid_s[1][0], round(gm[1][1], 6), round(gn[1][1], 6), want[v][0], want[v][1], "" if v else " = 1/(2m)^2"), loc_str((gm[2] if gm[0] != want[v][0] else gn[2]).span))
    # ---- (b) the per-community term
    if m_name is None or n_name is None:
        m_name, n_name = (f64_ups + [None, None])[:2]
    cf = flows.of(cb)
    grid_c = [(lc, o, i, r, m, n) for lc in (3.0, 8.0) for o in (4.0, 9.0) for i in (5.0, 7.0) for r in (1.0, 0.6) for m in (11.0,) for n in (0.013,)]

    def leaf_c(pt):
        def leaf(d):
            if d[0] == "call":
                last = d[1].split("::")[-1]
                if last in ("sum", "len", "count", "fold"):
                    if desc_mentions(d, lambda x: (x[0] == "call" and x[1].split("::")[-1] in ("get_all_edges", "get_subgraph")) or (x[0] == "place" and "edges" in x[1])):
                        return pt[0]
                    if len(map_ups) == 2 and desc_mentions(d, lambda x: x[0] == "place" and x[1] == map_ups[0]) and not desc_mentions(d, lambda x: x[0] == "place" and x[1] == map_ups[1]):
                        return pt[1]
                    if len(map_ups) == 2 and desc_mentions(d, lambda x: x[0] == "place" and x[1] == map_ups[1]) and not desc_mentions(d, lambda x: x[0] == "place" and x[1] == map_ups[0]):
                        return pt[2]
                if last in ("unwrap_or", "unwrap_or_else", "unwrap_or_default", "map_or") and desc_mentions(d, lambda x: x[0] == "place" and x[1].split(".")[0] in [c_["name"] for c_ in caps if c_["ty"].startswith("std::option::Option<f64")]):
                    return pt[3]
            if d[0] == "place" and d[1] == m_name:
                return pt[4]
            if d[0] == "place" and d[1] == n_name:
                return pt[5]
            return None
        return leaf

    allowed = {"L_c/m - R*O*I*norm": lambda pt: pt[0] / pt[4] - pt[3] * pt[1] * pt[2] * pt[5], "L_c/m - R*O*O*norm": lambda pt: pt[0] / pt[4] - pt[3] * pt[1] * pt[1] * pt[5]}
    n_r, seen = 0, set()
    for (bb, st) in cb.assigns_to(0):
        n_r += 1
        forms = forms_of_def(cf, st, leaf_c, grid_c)
        if forms is None:
            ctx.undecided("R-C12-9", "term|%d" % n_r, "the per-community term is not plain arithmetic over the edge term, the degree sums, the resolution and the two normalisers; its form is not decided", loc_str(st.span))
            continue
        ok, bad = classify_forms(forms, allowed, grid_c, zero_ok=False)
        seen |= ok
        ctx.require(not bad, "R-C12-9", "term|%d" % n_r, "the per-community term is %s" % " / ".join(sorted(ok)),
                    "the per-community term of modularity is not L_c/m - resolution * O * I * norm: at (L_c, O, I, R, m, norm) = %s it evaluates to %s where the definition gives %s" % (grid_c[0], [round(f[0], 6) for f in bad], round(allowed["L_c/m - R*O*I*norm"](grid_c[0]), 6)), loc_str(st.span))
    ctx.floor("R-C12-9", "term_definitions", n_r, 1)


OPTION_REPLACERS = {"filter", "and_then", "and", "or", "or_else", "xor", "take_if", "map", "zip", "replace", "take", "max", "min", "clamp"}


def resolution_as_given(ctx, prog, flows, mo):
    """R-C12-11: "resolution" in the statement's expression is the caller's number: the Option<f64> parameter is only
    opened with its default (unwrap_or(1.0) / map_or ..).  An operation that replaces or drops some values on the way
    (filter(is_normal) turns Some(0.0) into the default, a clamp, a max) computes the expression for a DIFFERENT
    resolution than the one asked for -- for exactly those values, which no ordinary call uses."""
    ctx.rule("R-C12-11", "the resolution parameter reaches the formula through its default only (unwrap_or(1.0)): no filtering / replacing operation on the Option or on the number")
    n = 0
    for cb in [mo] + list(prog.closures_of(mo.path)):
        fl = flows.of(cb)
        for t in cb.calls():
            if not t.callee or not t.args or t.args[0].place is None:
                continue
            ty = t.args[0].place.ty or ""
            if not (ty.startswith("std::option::Option<f64") or ty.startswith("&std::option::Option<f64") or ty == "f64"):
                continue
            d = panic.norm(fl.describe(t.args[0], depth=8))
            from flow import desc_mentions as _dm

            if not _dm(d, lambda x: isinstance(x, tuple) and x[0] == "place" and x[1].split(".")[0].lstrip("^*&") == "resolution"):
                continue
            last = t.callee.short.split("::")[-1]
            n += 1
            if last in ("unwrap_or",) and len(t.args) > 1:
                dv = panic.norm(fl.describe(t.args[1], depth=4))
                okc = dv[0] == "const" and dv[1].replace("const ", "").startswith("1")
                ctx.require(okc, "R-C12-11", "default|%s" % cb.short.split("::")[-1], "a missing resolution defaults to 1", "a missing resolution defaults to %s, not 1" % fmt_desc(dv), loc_str(t.span))
                continue
            ctx.require(last not in OPTION_REPLACERS, "R-C12-11", "as-given|%s|%s" % (cb.short.split("::")[-1], last), "resolution passes through %s unchanged" % last,
                        "the resolution passes through `%s` before it reaches the formula: for the values that operation replaces or drops (Some(0.0) under filter(is_normal), say) modularity is computed with another resolution than the one the caller gave" % last, loc_str(t.span))
    if mo.param_local("resolution") is None:
        ctx.anchor_lost("R-C12-11", "the `resolution` parameter of modularity")
    ctx.counters["calls_on_resolution"] = n  # a `match resolution { Some(r) => r, None => 1.0 }` has none: no floor
