"""C12 -- is_partition / modularity: structural necessary conditions only."""
from core import ASSUME_RUSTC, ASSUME_PATHS
from engines import errorkind_sites
from flow import Flows, L, fmt_desc
from guard import ok_producers
import panic
from mir import loc_str, short

LEVEL = "other"
EXPLANATION = (
    "Decides structural NECESSARY conditions of C12; the partition predicate's value and Newman's sum are not computed.  R-C12-1: "
    "the result of is_partition data/control-depends on (i) a graph-membership lookup keyed by the communities' elements, (ii) an "
    "operation that compares element identities ACROSS communities (HashSet insert/contains/is_disjoint/intersection/union/extend or a "
    "collect of the flattened elements into a set) -- a predicate that only sees counts and per-element membership cannot tell an "
    "overlap that is compensated by a missing node from a partition -- and (iii) the number of nodes of the graph; every `false` "
    "result is conditional on one of these tests and the non-false result is a comparison involving the node count.  R-C12-2: every "
    "non-error return of modularity is reachable only through the true edge of is_partition(graph, communities), and NotAPartition is "
    "built on the false edge.  R-C12-3: modularity's value depends on communities, weighted, resolution, the degree functions and the "
    "induced subgraphs' edges.  R-C12-4: on the data path from the stored edge list to L_c (get_subgraph's edge list, the "
    "contribution closure of modularity) no operation on edges merges, drops or truncates them (unique/dedup/set-collect/take/...) "
    "-- necessary for `parallel edges counted individually`.  R-C12-8: the self-loop correction of the degrees behind the degree sums is a count / sum, never a truth value turned into a number.  NOT decided: that is_partition is exactly the partition predicate, and Newman's formula (numerical)."
)
TRUSTED = ["rustc MIR construction", "over-approximated dependence (absence is definite)"]

IDENTITY_OPS = ("HashSet::insert", "HashSet::contains", "HashSet::is_disjoint", "HashSet::intersection", "HashSet::union", "HashSet::is_subset", "HashSet::is_superset", "BTreeSet::insert", "HashSet::extend", "Vec::dedup", "Itertools::unique", "Itertools::all_unique", "Itertools::duplicates")
MEMBERSHIP = ("get_node", "has_node", "has_nodes", "get_node_index", "contains_key")
NODECOUNT = ("get_all_nodes", "number_of_nodes", "get_all_node_names")


def run(ctx):
    prog = ctx.prog
    flows = Flows(prog)
    ctx.assume(ASSUME_RUSTC)
    ctx.assume(ASSUME_PATHS)
    ip = prog.one("partitions::is_partition")
    fl = flows.of(ip)
    ctx.rule("R-C12-1", "is_partition depends on graph membership of the members, on a cross-community element-identity test, and on the node count")
    sl = flows.slice(ip.path, [L(0)], up=False, down="clos")
    cal = set()
    for (bp, n) in sl:
        if n[0] == "CALL":
            t = prog.bodies[bp].blocks[n[1]].term
            if t.callee:
                cal.add(t.callee.short)
    # collect into a set also counts as an identity operation
    sets = any(c.endswith("Iterator::collect") for c in cal) and any(("HashSet<" in prog.bodies[bp].blocks[n[1]].term.dest.ty or "BTreeSet<" in prog.bodies[bp].blocks[n[1]].term.dest.ty) for (bp, n) in sl if n[0] == "CALL" and prog.bodies[bp].blocks[n[1]].term.callee and prog.bodies[bp].blocks[n[1]].term.callee.short.endswith("Iterator::collect"))
    has_mem = any(c.split("::")[-1] in MEMBERSHIP for c in cal)
    has_id = sets or any(any(c.endswith(op) for op in IDENTITY_OPS) for c in cal)
    has_cnt = any(c.split("::")[-1] in NODECOUNT for c in cal)
    comm = ip.param_local("communities")
    gp = ip.param_local("graph")
    dep_params = (ip.path, L(comm)) in sl and (ip.path, L(gp)) in sl
    ctx.require(has_mem, "R-C12-1", "membership", "the answer depends on a graph-membership lookup of the members", "is_partition never checks that the members are nodes of the graph", loc_str(ip.span))
    ctx.require(has_id, "R-C12-1", "identity", "the answer depends on an element-identity test across communities (%s)" % sorted(c.split("::")[-1] for c in cal if any(c.endswith(op) for op in IDENTITY_OPS)), "is_partition only counts: no operation compares elements across communities (calls: %s), so overlapping communities whose sizes add up (e.g. [{a,b},{a}] on {a,b,c}) are accepted" % sorted(c.split("::")[-1] for c in cal), loc_str(ip.span))
    ctx.require(has_cnt and dep_params, "R-C12-1", "coverage", "the answer depends on the number of nodes of the graph and on both arguments", "is_partition does not compare with the graph's node count", loc_str(ip.span))
    # shape of the results: `false` only under one of the tests; the other result is a comparison with the node count
    n_false = n_other = 0
    for (bb, d) in ip.assigns_to(0):
        rv = getattr(d, "rv", None)
        if rv is not None and rv.k == "use" and rv.ops[0].is_const():
            v = rv.ops[0].const_int()
            if v == 0:
                n_false += 1
                tests = set()
                for (a, s_) in ip.transitive_control_deps(bb):
                    at = fl.atom(a)
                    if at:
                        tests.add(fmt_desc(panic.norm(at["test"])))
                # `members.all(|n| is_node(n) && seen.insert(n))` bound to a variable: the tests sit in the closure (its
                # membership / identity operations are required by the first part of this rule)
                tests = {panic.norm_str(panic.expand_names(fl, panic.norm(fl.atom(a)["test"]))) for (a, s_) in ip.transitive_control_deps(bb) if fl.atom(a)} | tests
                ok = any(any(m in t for m in MEMBERSHIP) or "insert(" in t or "contains(" in t or "is_disjoint(" in t or ((t.startswith("all(") or t.startswith("any(") or "(all(" in t or "(any(" in t) and has_mem and has_id) for t in tests)
                ctx.require(ok, "R-C12-1", "false-under-test|%d" % n_false, "a `false` answer is conditional on a membership / identity test", "a `false` answer is returned under %s" % sorted(tests), loc_str(d.span))
            else:
                ctx.violation("R-C12-1", "const-true", "is_partition returns a constant `true`", loc_str(d.span))
        else:
            n_other += 1
            ops = d.rv.ops if rv is not None else d.args
            s2 = set()
            for o in ops:
                s2 |= flows.slice(ip.path, fl._op_reads(o), up=False, down="clos", data_only=True)
            c2 = {prog.bodies[bp].blocks[n[1]].term.callee.short.split("::")[-1] for (bp, n) in s2 if n[0] == "CALL" and prog.bodies[bp].blocks[n[1]].term.callee}
            ctx.require(bool(c2 & set(NODECOUNT)), "R-C12-1", "final-compare", "the non-false answer is a comparison involving the graph's node count", "the non-false answer does not involve the node count (%s)" % sorted(c2), loc_str(d.span))
    ctx.floor("R-C12-1", "result_definitions", n_false + n_other, 2)

    # ------------------------------------------------------------------ R-C12-2
    ctx.rule("R-C12-2", "modularity answers only behind is_partition(graph, communities) == true; otherwise NotAPartition")
    mo = prog.one("partitions::modularity")
    mf = flows.of(mo)
    guard = None
    for (bb, test, t_succ, f_succ) in panic.bool_atoms(mf):
        if isinstance(test, tuple) and test[0] == "call" and test[1].endswith("partitions::is_partition"):
            args = [fmt_desc(x) for x in test[2]]
            if args == ["graph", "communities"]:
                guard = (bb, t_succ, f_succ)
    if guard is None:
        ctx.violation("R-C12-2", "guard", "modularity does not branch on is_partition(graph, communities)", loc_str(mo.span))
    else:
        bb, t_succ, f_succ = guard
        prods = [(pb, w, s) for (pb, w, s) in (ok_producers(mo) or [])]
        ok = bool(prods) and all(panic.passes_true_edge(mo, bb, t_succ, pb) for (pb, w, s) in prods)
        ctx.require(ok, "R-C12-2", "ok-behind-guard", "every non-error return of modularity is behind is_partition == true", "modularity can return a value for communities that are not a partition", loc_str(mo.span))
        nap = [(kb, s) for (kb, s, v) in errorkind_sites(mo) if v == "NotAPartition"]
        ok2 = len(nap) == 1 and panic.passes_true_edge(mo, bb, f_succ, nap[0][0])
        ctx.require(ok2, "R-C12-2", "notapartition", "NotAPartition is returned exactly on the false edge", "NotAPartition is not tied to is_partition == false", loc_str(mo.span))

    # ------------------------------------------------------------------ R-C12-3
    ctx.rule("R-C12-3", "modularity's value depends on communities, weighted, resolution, the degree functions and the induced subgraphs")
    sl = set()
    for (pb, w, s) in ok_producers(mo) or []:
        for o in (s.rv.ops if getattr(s, "rv", None) is not None else s.args):
            sl |= flows.slice(mo.path, mf._op_reads(o), up=False, down="clos")
    cal = {prog.bodies[bp].blocks[n[1]].term.callee.short.split("::")[-1] for (bp, n) in sl if n[0] == "CALL" and prog.bodies[bp].blocks[n[1]].term.callee}
    for pn in ("communities", "weighted", "resolution", "graph"):
        pl = mo.param_local(pn)
        ctx.require(pl is not None and (mo.path, L(pl)) in sl, "R-C12-3", "param|" + pn, "modularity depends on `%s`" % pn, "modularity does not depend on `%s`" % pn, loc_str(mo.span))
    need = {"get_subgraph", "get_all_edges"}
    deg = {"get_weighted_out_degree_for_all_nodes", "get_weighted_in_degree_for_all_nodes", "get_out_degree_for_all_nodes", "get_in_degree_for_all_nodes", "get_weighted_degree_for_all_nodes", "get_degree_for_all_nodes"}
    ctx.require(need <= cal and deg <= cal, "R-C12-3", "terms", "modularity uses the induced subgraphs' edges and all six degree tables (directed/undirected x weighted/unweighted)", "modularity no longer uses %s" % sorted((need | deg) - cal), loc_str(mo.span))

    # ------------------------------------------------------------------ R-C12-4
    ctx.rule("R-C12-4", "parallel edges are counted individually: between the stored edge list and L_c no operation on edges merges, drops or truncates them other than the endpoint filter")
    sg = prog.one("subgraph::Graph::get_subgraph")
    sf = flows.of(sg)
    chains = []
    for t in sg.calls():
        if t.callee and t.callee.short.endswith("new_from_nodes_and_edges") and len(t.args) >= 2:
            chains.append(("edge list handed to new_from_nodes_and_edges in get_subgraph", flows.slice(sg.path, sf._op_reads(t.args[1]), up=False, down="clos", data_only=True), t))
    # in modularity: the value of each community's contribution (closure result)
    for cp in sorted(prog.reachable_bodies([mo.path])):
        cb = prog.bodies[cp]
        if cb.kind != "closure" or not cp.startswith(mo.path):
            continue
        if not any(t.callee and t.callee.short.endswith("get_subgraph") for t in cb.calls()):
            continue
        t0 = [t for t in cb.calls() if t.callee.short.endswith("get_subgraph")][0] if all(t.callee for t in cb.calls()) else list(cb.calls())[0]
        chains.append(("community contribution in modularity", flows.slice(cb.path, [L(0)], up=False, down="clos", data_only=True), t0))
    MERGING = ("unique", "unique_by", "dedup", "dedup_by", "dedup_by_key", "dedup_with_count", "dedup_by_with_count", "take", "skip", "step_by", "take_while", "skip_while", "nth", "last", "first", "truncate", "min_by", "max_by", "min_by_key", "max_by_key", "tuple_windows", "chunks", "retain")
    for (what, sl, t) in chains:
        calls = []
        for (bp, n) in sl:
            if n[0] == "CALL":
                tt = prog.bodies[bp].blocks[n[1]].term
                if tt.callee:
                    calls.append((tt.callee.short, tt))
        bad = []
        for (nm, tt) in calls:
            last = nm.split("::")[-1]
            tys = [tt.dest.ty] + [a.place.ty for a in tt.args if a.place is not None]
            on_edges = any("Edge<" in ty for ty in tys)
            if last in MERGING and on_edges:
                bad.append("%s at %s" % ("::".join(nm.split("::")[-2:]), loc_str(tt.span)))
            if last in ("collect", "from_iter") and any(k in tt.dest.ty for k in ("HashSet<", "BTreeSet<", "HashMap<", "BTreeMap<")) and "Edge<" in tt.dest.ty:
                bad.append("collect of edges into %s at %s" % (tt.dest.ty.split("<")[0].split("::")[-1], loc_str(tt.span)))
        src_ok = any(nm.endswith("get_all_edges") for (nm, tt) in calls)
        key = what.split(" in ")[-1]
        if bad:
            ctx.violation("R-C12-4", key, "the %s passes through %s: parallel edges (equal endpoints and weight) collapse or edges are dropped, so L_c no longer counts every stored edge" % (what, "; ".join(sorted(set(bad)))), loc_str(t.span))
        elif not src_ok:
            ctx.undecided("R-C12-4", key, "the %s no longer starts from get_all_edges (calls: %s); completeness of the edge list is not decided" % (what, sorted({nm.split("::")[-1] for (nm, tt) in calls})), loc_str(t.span))
        else:
            ctx.ok("R-C12-4", key, "the %s comes from get_all_edges through %s only" % (what, sorted({nm.split("::")[-1] for (nm, tt) in calls})), loc_str(t.span))
    ctx.floor("R-C12-4", "edge_chains", len(chains), 2)

    # ------------------------------------------------------------------ R-C12-5
    # R-C12-6: L_c is counted on get_subgraph(community): that graph must hold every stored edge of the community once
    from props.c15 import subgraph_edge_source

    from props.c09 import degrees_from_edge_lists

    degrees_from_edge_lists(ctx, prog, flows, "R-C12-7", ("get_node_weighted_in_degree", "get_node_weighted_out_degree", "get_node_in_degree", "get_node_out_degree", "get_node_degree", "get_node_weighted_degree"), "the degree sums and m of the modularity formula count a bundle of parallel edges once (at its smallest weight) while L_c counts every edge")
    from props.c09 import selfloop_term_counts_every_loop

    selfloop_term_counts_every_loop(ctx, prog, flows, "R-C12-8", "so the degree sums of the modularity formula fall short of 2m and a single community holding every node no longer has modularity 0")
    ctx.rule("R-C12-6", "the per-community edge term is counted on an induced subgraph whose candidate edges are the whole edge store")
    subgraph_edge_source(ctx, prog, flows, "R-C12-6", "the intra-community term L_c of the modularity under- or over-counts")
    ctx.rule("R-C12-5", "L_c is taken from the induced subgraph on every path: the variable that holds it has no constant definition")
    n_lc = 0
    for cpath in sorted(prog.reachable_bodies([mo.path])):
        cb = prog.bodies[cpath]
        if not (cpath == mo.path or cpath.startswith(mo.path)):
            continue
        cfl = flows.of(cb)
        locals_ = {s.lhs.local for s in cb.stmts() if s.k == "assign" and not s.lhs.proj} | {t.dest.local for t in cb.calls() if not t.dest.proj}
        for l in sorted(locals_):
            if cb.local_ty(l) != "f64":
                continue
            defs = cb.assigns_to(l)
            from_sub = []
            consts = []
            for (dbb, d) in defs:
                rv = getattr(d, "rv", None)
                if rv is not None and rv.k == "use" and rv.ops[0].is_const():
                    consts.append(d)
                    continue
                reads = set()
                if rv is not None:
                    for o in rv.ops:
                        reads |= cfl._op_reads(o)
                else:
                    reads = {("CALL", dbb)}
                sl = cfl.slice_local(reads, data_only=True)
                cs = {cb.blocks[n[1]].term.callee.short.split("::")[-1] for n in sl if n[0] == "CALL" and cb.blocks[n[1]].term.callee}
                if cs & {"get_subgraph", "get_all_edges"}:
                    from_sub.append(d)
            if from_sub:
                n_lc += 1
                ctx.require(not consts, "R-C12-5", "lc|%s" % cb.short.split("::{closure")[0], "the value counted from the induced subgraph's edges in %s has no constant alternative" % cb.short.split("::")[-1], "in %s the number/weight of a community's internal edges is a constant on some path (%s) instead of being counted from the induced subgraph: a self-loop on a node that is alone in its community is not counted in L_c" % (cb.short, loc_str(consts[0].span) if consts else ""), loc_str(from_sub[0].span))
    ctx.floor("R-C12-5", "lc_values", n_lc, 1)
