"""C11 -- clustering / triangles / transitivity: refusals and subset restriction only."""
from core import ASSUME_RUSTC, ASSUME_PATHS, ASSUME_AT
from flow import Flows, L, fmt_desc
from guard import Guards, check_refusal
import panic
from panic import enumerate_sites, origin_of, origin_call, existence_guard, norm, norm_str
from mir import loc_str, short

LEVEL = "other"
EXPLANATION = (
    "Decides two structural clauses of C11.  R-C11-1 (GUARD): clustering and average_clustering refuse multi-edge graphs; "
    "triangles, transitivity and generalized_degree refuse multi-edge graphs and directed graphs -- every non-error return is "
    "reachable only through the continue edge of the corresponding kind guard (CFG edge deletion, recursively through callees).  "
    "R-C11-2 (key domain): a neighbour map built by get_neighbors_of_nodes for a caller-chosen SUBSET has that subset as its key "
    "domain; an unwrapped lookup in such a map (keys are neighbours, which need not be in the subset) is a violation unless an "
    "existence guard dominates it; the map's provenance is followed inter-procedurally through parameters and closure captures.  "
    "R-C11-5: the edge lookups reachable from the clustering functions obey the edge stores' canonical-key discipline (same rule as R-C02-3), without which a weight is looked up under an orientation it is not stored under.  R-C11-3: the result of the subset-taking functions depends on the node_names argument (restriction is not ignored).  NOT "
    "decided: any coefficient's value, the [0,1] range, that subset values equal the full computation's values."
)
TRUSTED = ["rustc MIR construction", "CFG paths over-approximate executions; dependence is over-approximated"]

TABLE = [
    ("cluster::clustering", [("multi_edges", True, "multi-edge graphs")]),
    ("cluster::average_clustering", [("multi_edges", True, "multi-edge graphs")]),
    ("cluster::triangles", [("multi_edges", True, "multi-edge graphs"), ("directed", True, "directed graphs")]),
    ("cluster::transitivity", [("multi_edges", True, "multi-edge graphs"), ("directed", True, "directed graphs")]),
    ("cluster::generalized_degree", [("multi_edges", True, "multi-edge graphs"), ("directed", True, "directed graphs")]),
]


def run(ctx):
    prog = ctx.prog
    flows = Flows(prog)
    g = Guards(prog, flows)
    for a in (ASSUME_RUSTC, ASSUME_PATHS, ASSUME_AT):
        ctx.assume(a)
    ctx.rule("R-C11-1", "every non-error return of the clustering functions is behind the kind guards the statement requires")
    n = 0
    for sfx, conds in TABLE:
        b = prog.one(sfx)
        for field, value, what in conds:
            check_refusal(ctx, g, "R-C11-1", b, field, value, what)
            n += 1
    check_refusal(ctx, g, "R-C11-1", prog.one("Graph::ensure_not_multi_edges"), "multi_edges", True, "multi-edge graphs")
    ctx.floor("R-C11-1", "refusal_obligations", n, 8)
    ctx.note("square_clustering has no error channel and cannot refuse; recorded, not alarmed")

    # ------------------------------------------------------------------ R-C11-2
    ctx.rule("R-C11-2", "no unwrapped lookup in a neighbour map whose key domain is a caller-chosen subset")
    gn = prog.one("utility::get_neighbors_of_nodes")
    n_maps = 0
    for p in sorted(prog.bodies):
        b = prog.bodies[p]
        if "cluster" not in b.short:
            continue
        fl = flows.of(b)
        for s in enumerate_sites(b):
            if s.kind != "unwrap":
                continue
            oc = origin_call(fl, s.operand)
            if oc is None or not oc.callee or not oc.callee.short.endswith("HashMap::get") or len(oc.args) < 2:
                continue
            # provenance of the map
            sl = flows.slice(b.path, fl._op_reads(oc.args[0]), up=True, down=False, data_only=True, skip_captures=False)
            producers = []
            for (bp, n_) in sl:
                if n_[0] == "CALL":
                    t = prog.bodies[bp].blocks[n_[1]].term
                    if t.callee and t.callee.target_path(prog) == gn.path:
                        producers.append((bp, t))
            if not producers:
                continue
            n_maps += 1
            s.origin = origin_of(fl, s)
            restricted = []
            for (bp, t) in producers:
                d = norm(flows.of(bp).describe(t.args[0], depth=8))
                is_none = (d[0] == "adt" and d[1].endswith("Option::None")) or (d[0] == "const" and "None" in d[1])
                if not is_none:
                    restricted.append((bp, t, fmt_desc(d)))
            key = "%s|%s" % (b.short, panic.shape_str(s.origin))
            o = s.origin
            guard = existence_guard(fl, s, o[2][0], o[2][1]) if isinstance(o, tuple) and o[0] == "call" and len(o[2]) >= 2 else None
            if not restricted:
                ctx.ok("R-C11-2", key, "map looked up in %s is built for ALL nodes (get_neighbors_of_nodes(None, ..) at %s)" % (b.short.split("::", 2)[-1], ", ".join(loc_str(t.span) for (_, t) in producers)), s.site())
            elif guard:
                ctx.ok("R-C11-2", key, "subset-restricted map, lookup guarded: " + guard, s.site())
            else:
                bp, t, d = restricted[0]
                ctx.violation("R-C11-2", key, "unwrap of %s in %s: the map comes from get_neighbors_of_nodes(%s, ..) at %s, so its keys are the caller's subset, but it is indexed by neighbours that need not be in the subset (panics for a proper subset)" % (norm_str(o), b.short, d, loc_str(t.span)), s.site())
    ctx.floor("R-C11-2", "neighbour_map_lookups", n_maps, 1)

    # ------------------------------------------------------------------ R-C11-4
    ctx.rule("R-C11-4", "self-loops never count: in the clustering kernels every operand of a neighbour-set intersection has had its own node removed (without / get_adjacent_nodes_without / difference)")
    KERNEL_FILES = ("cluster::undirected::", "cluster::undirected_weighted::", "cluster::directed::", "cluster::directed_weighted::")
    EXCL = ("HashSetExt::without", "utility::get_adjacent_nodes_without", "HashSet::difference")
    n_int = 0
    for p in sorted(prog.bodies):
        b = prog.bodies[p]
        if not any(k in b.short for k in KERNEL_FILES):
            continue
        fl = flows.of(b)
        root = b
        while root.kind == "closure":
            root = prog.bodies[root.item["parent"]]
        for t in b.calls():
            if not t.callee or not t.callee.short.endswith("HashSet::intersection"):
                continue
            n_int += 1
            bad = []
            from engines import producers

            for i, a in enumerate(t.args[:2]):
                pr = producers(flows, b, a)
                if not pr or not all(any(c.endswith(e) for e in EXCL) for c in pr):
                    bad.append("operand %d = %s, produced by %s" % (i, panic.norm_str(fl.describe(a, depth=8)), sorted(x.split("::")[-1] for x in pr)))
            key = "%s|%s" % (b.short, panic.shape_str(panic.norm(fl.describe(t.args[0], depth=6))))
            ctx.require(not bad, "R-C11-4", key, "both operands of the intersection in %s are self-excluded neighbour sets" % b.short.split("::", 3)[-1], "an intersection in %s uses a neighbour set from which the node itself was not removed (%s): a self-loop is counted as a common neighbour" % (b.short, "; ".join(bad)), loc_str(t.span))
    ctx.floor("R-C11-4", "intersections_in_kernels", n_int, 6)
    ctx.note("square.rs removes the centre node after intersecting (different scheme) and is outside R-C11-4")

    # ------------------------------------------------------------------ R-C11-5
    from props.c02 import key_discipline

    roots = [prog.one(sfx).path for sfx in ("cluster::clustering", "cluster::average_clustering", "cluster::triangles", "cluster::transitivity", "cluster::generalized_degree", "square::square_clustering")]
    only = prog.reachable_bodies(roots)
    key_discipline(ctx, prog, flows, "R-C11-5", only, 0, 1, why=" -- restricted to what the clustering functions call: the weighted coefficients read edge weights through these lookups")

    # ------------------------------------------------------------------ R-C11-6
    from graphrules import adjacency_name_maps_only_keyed

    adjacency_name_maps_only_keyed(ctx, prog, flows, "R-C11-6", ("algorithms::cluster",), "so a node without edges gets no coefficient / triangle count and the answer for all nodes disagrees with the answer for a subset")

    # ------------------------------------------------------------------ R-C11-7
    # "restricting to a subset returns the full computation's values": the weight normaliser (largest edge weight of
    # the GRAPH) must not depend on the subset
    ctx.rule("R-C11-7", "the weight normaliser handed to get_normalized_edge_weight derives from get_all_edges() alone: not from node_names, not from a per-node edge accessor")
    n7 = 0
    for p_ in sorted(prog.bodies):
        b_ = prog.bodies[p_]
        root_ = b_
        while root_.kind == "closure":
            root_ = prog.bodies[root_.item["parent"]]
        if not root_.short.startswith("algorithms::cluster"):
            continue
        fl_ = flows.of(b_)
        for t_ in b_.calls():
            if not (t_.callee and t_.callee.short.endswith("get_normalized_edge_weight") and len(t_.args) >= 3):
                continue
            n7 += 1
            sl_ = flows.slice(b_.path, fl_._op_reads(t_.args[2]), up=True, down=False, data_only=True)
            cal_ = set()
            subset_ = False
            for (bp_, nd_) in sl_:
                bb_ = prog.bodies[bp_]
                if nd_[0] == "CALL":
                    tt_ = bb_.blocks[nd_[1]].term
                    if tt_.callee:
                        cal_.add(tt_.callee.short.split("::")[-1])
                elif nd_[0] in ("L", "LF") and isinstance(nd_[1], int) and 1 <= nd_[1] <= bb_.arg_count and bb_.local_name(nd_[1]) == "node_names":
                    subset_ = True
            other_ = sorted(cal_ & {"get_edges_for_nodes", "get_edges_for_node", "get_out_edges_for_node", "get_in_edges_for_node", "get_out_edges_for_nodes", "get_in_edges_for_nodes", "get_edge", "get_edges", "get_subgraph"})
            ctx.require("get_all_edges" in cal_ and not other_ and not subset_, "R-C11-7", "normaliser|%s" % b_.short, "the normaliser in %s is the largest weight of get_all_edges()" % b_.short.split("::", 2)[-1],
                        "the weight normaliser used in %s derives from %s%s instead of get_all_edges() alone: a coefficient computed for a subset differs from the same node's value in the full computation (and can exceed 1)" % (b_.short, other_ or sorted(cal_)[:4], " and from node_names" if subset_ else ""), loc_str(t_.span))
    ctx.floor("R-C11-7", "normalised_weight_lookups", n7, 2)

    # ------------------------------------------------------------------ R-C11-3
    ctx.rule("R-C11-3", "results of the subset-taking functions depend (data flow, not merely validation) on node_names")
    for sfx in ("cluster::clustering", "cluster::triangles", "cluster::generalized_degree", "cluster::average_clustering", "square::square_clustering"):
        b = prog.one(sfx)
        pl = b.param_local("node_names")
        if pl is None:
            ctx.anchor_lost("R-C11-3", "parameter node_names of " + sfx)
            continue
        fl = flows.of(b)
        from guard import ok_producers

        prods = ok_producers(b)
        if prods is None:
            # no Result: the whole return value
            sl = fl.slice_local([L(0)], data_only=True)
        else:
            sl = set()
            for (bb, what, site) in prods:
                ops = site.rv.ops if getattr(site, "rv", None) is not None else site.args
                for o in ops:
                    sl |= fl.slice_local(fl._op_reads(o), data_only=True)
        ctx.require(L(pl) in sl, "R-C11-3", b.short, "result of %s depends on node_names" % sfx.split("::")[-1], "result of %s does NOT depend on node_names: the restriction is ignored" % sfx.split("::")[-1], loc_str(b.span))
