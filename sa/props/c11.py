"""C11 -- clustering / triangles / transitivity: refusals and subset restriction only."""
import re
from core import ASSUME_RUSTC, ASSUME_PATHS, ASSUME_AT
from props.c01 import controlling_atoms
from flow import Flows, L, fmt_desc, desc_mentions
from guard import Guards, check_refusal
import panic
from panic import enumerate_sites, origin_of, origin_call, existence_guard, norm, norm_str
from mir import loc_str, short

LEVEL = "other"
EXPLANATION = (
    "Decides two structural clauses of C11.  R-C11-1 (GUARD): clustering and average_clustering refuse multi-edge graphs; "
    "triangles, transitivity and generalized_degree refuse multi-edge graphs and directed graphs -- every non-error return is "
    "reachable only through the continue edge of the corresponding kind guard (CFG edge deletion, recursively through callees).  "
    "R-C11-2 (key domain): a neighbour map built by get_neighbors_of_nodes for a caller-chosen SUBSET has that subset as its key "
    "domain; an unwrapped lookup in such a map (keys are neighbours, which need not be in the subset) is a violation unless an "
    "existence guard dominates it; the map's provenance is followed inter-procedurally through parameters and closure captures.  "
    "R-C11-5: the edge lookups reachable from the clustering functions obey the edge stores' canonical-key discipline (same rule as R-C02-3), without which a weight is looked up under an orientation it is not stored under.  R-C11-3: the result of the subset-taking functions depends on the node_names argument (restriction is not ignored).  R-C11-9: the divisor of each of the four clustering quotients, evaluated as arithmetic over a grid of (degree, reciprocal degree), equals d(d-1) resp. 2(d_tot(d_tot-1) - 2 d_rec) (the description tree is evaluated, graphrs is not run).  R-C11-10: transitivity returns sum(triangle field)/sum(d(d-1)).  R-C11-11: a coefficient is dropped from average_clustering only by a comparison with the constant 0.  NOT "
    "decided: any coefficient's value, the [0,1] range, that subset values equal the full computation's values."
)
TRUSTED = ["rustc MIR construction", "CFG paths over-approximate executions; dependence is over-approximated"]

TABLE = [
    ("cluster::clustering", [("multi_edges", True, "multi-edge graphs")]),
    ("cluster::average_clustering", [("multi_edges", True, "multi-edge graphs")]),
    ("cluster::triangles", [("multi_edges", True, "multi-edge graphs"), ("directed", True, "directed graphs")]),
    ("cluster::transitivity", [("multi_edges", True, "multi-edge graphs"), ("directed", True, "directed graphs")]),
    ("cluster::generalized_degree", [("multi_edges", True, "multi-edge graphs"), ("directed", True, "directed graphs")]),
]


def run(ctx):
    prog = ctx.prog
    flows = Flows(prog)
    g = Guards(prog, flows)
    for a in (ASSUME_RUSTC, ASSUME_PATHS, ASSUME_AT):
        ctx.assume(a)
    ctx.rule("R-C11-1", "every non-error return of the clustering functions is behind the kind guards the statement requires")
    n = 0
    for sfx, conds in TABLE:
        b = prog.one(sfx)
        for field, value, what in conds:
            check_refusal(ctx, g, "R-C11-1", b, field, value, what)
            n += 1
    check_refusal(ctx, g, "R-C11-1", prog.one("Graph::ensure_not_multi_edges"), "multi_edges", True, "multi-edge graphs")
    ctx.floor("R-C11-1", "refusal_obligations", n, 8)
    ctx.note("square_clustering has no error channel and cannot refuse; recorded, not alarmed")

    # ------------------------------------------------------------------ R-C11-2
    subset_keyed_map_lookups(ctx, prog, flows, "R-C11-2")

    # ------------------------------------------------------------------ R-C11-4
    ctx.rule("R-C11-4", "self-loops never count: in the clustering kernels every operand of a neighbour-set intersection has had its own node removed (without / get_adjacent_nodes_without / difference)")
    KERNEL_FILES = ("cluster::undirected::", "cluster::undirected_weighted::", "cluster::directed::", "cluster::directed_weighted::")
    EXCL = ("HashSetExt::without", "utility::get_adjacent_nodes_without", "HashSet::difference")
    n_int = 0
    for p in sorted(prog.bodies):
        b = prog.bodies[p]
        if not any(k in b.short for k in KERNEL_FILES):
            continue
        fl = flows.of(b)
        root = b
        while root.kind == "closure":
            root = prog.bodies[root.item["parent"]]
        for t in b.calls():
            if not t.callee or not t.callee.short.endswith("HashSet::intersection"):
                continue
            n_int += 1
            bad = []
            from engines import producers

            for i, a in enumerate(t.args[:2]):
                pr = producers(flows, b, a)
                if not pr or not all(any(c.endswith(e) for e in EXCL) for c in pr):
                    bad.append("operand %d = %s, produced by %s" % (i, panic.norm_str(fl.describe(a, depth=8)), sorted(x.split("::")[-1] for x in pr)))
            key = "%s|%s" % (b.short, panic.shape_str(panic.norm(fl.describe(t.args[0], depth=6))))
            ctx.require(not bad, "R-C11-4", key, "both operands of the intersection in %s are self-excluded neighbour sets" % b.short.split("::", 3)[-1], "an intersection in %s uses a neighbour set from which the node itself was not removed (%s): a self-loop is counted as a common neighbour" % (b.short, "; ".join(bad)), loc_str(t.span))
    ctx.floor("R-C11-4", "intersections_in_kernels", n_int, 6)
    ctx.note("square.rs removes the centre node after intersecting (different scheme) and is outside R-C11-4")

    # ------------------------------------------------------------------ R-C11-5
    from props.c02 import key_discipline

    roots = [prog.one(sfx).path for sfx in ("cluster::clustering", "cluster::average_clustering", "cluster::triangles", "cluster::transitivity", "cluster::generalized_degree", "square::square_clustering")]
    only = prog.reachable_bodies(roots)
    key_discipline(ctx, prog, flows, "R-C11-5", only, 0, 1, why=" -- restricted to what the clustering functions call: the weighted coefficients read edge weights through these lookups")

    # ------------------------------------------------------------------ R-C11-6
    from graphrules import adjacency_name_maps_only_keyed

    adjacency_name_maps_only_keyed(ctx, prog, flows, "R-C11-6", ("algorithms::cluster",), "so a node without edges gets no coefficient / triangle count and the answer for all nodes disagrees with the answer for a subset")

    # ------------------------------------------------------------------ R-C11-9
    # the four coefficient formulas of cluster/mod.rs against the definitions: the DIVISOR of each quotient, as an
    # expression tree over the kernel's degree fields, is evaluated at a grid of (degree, reciprocal degree) points and
    # compared with d(d-1) (undirected) / 2(d_tot(d_tot-1) - 2 d_rec) (directed, Fagiolo).  Two low-degree polynomials
    # that agree on the grid are the same polynomial; nothing of graphrs is executed.
    ctx.rule("R-C11-9", "the four clustering coefficients are triangles / d(d-1) resp. triangles / 2(d_tot(d_tot-1) - 2 d_rec) as rational functions of the kernel's fields")
    from engines import same_on_grid

    grid9 = [(t_, r_, n_) for t_ in (3.0, 4.0, 5.0, 8.0) for r_ in (0.0, 1.0, 2.0) for n_ in (1.0, 2.5)]
    n9 = 0
    for sfx9, want9 in (("cluster::get_clustering_directed", "dir"), ("cluster::get_clustering_directed_weighted", "dir"), ("cluster::get_clustering_undirected", "und"), ("cluster::get_clustering_undirected_weighted", "und")):
        kb9 = prog.one(sfx9)
        for b9 in [kb9] + list(prog.closures_of(kb9.path)):
            f9 = flows.of(b9)
            for st9 in b9.stmts():
                if not (st9.k == "assign" and st9.rv.k == "binop" and st9.rv.j["op"] == "Div" and st9.rv.ops[1].place is not None and st9.rv.ops[1].place.ty == "f64"):
                    continue
                d9 = norm(f9.describe_def(st9, depth=12))

                def leaf_for(pt, _f9=f9):
                    def leaf(x):
                        if isinstance(x, tuple) and x[0] == "place":
                            last = x[1].split(".")[-1]
                            if last in ("total_degree", "degree"):
                                return pt[0]
                            if last == "reciprocal_degree":
                                return pt[1]
                            if last.endswith("triangles"):
                                return pt[2]
                        return None
                    return leaf

                exp9 = (lambda pt: pt[2] / (2.0 * (pt[0] * (pt[0] - 1.0) - 2.0 * pt[1]))) if want9 == "dir" else (lambda pt: pt[2] / (pt[0] * (pt[0] - 1.0)))
                r9 = same_on_grid(f9, d9, leaf_for, exp9, grid9)
                n9 += 1
                # the quotient is taken on the arm on which the triangle field is NOT zero (the other arm is the constant 0)
                for (te9, v9, a9) in controlling_atoms(f9, st9.bb):
                    if isinstance(te9, tuple) and te9[0] == "binop" and te9[1] in ("Eq", "Ne") and desc_mentions(te9, lambda x: x[0] == "place" and x[1].split(".")[-1].endswith("triangles")) and desc_mentions(te9, lambda x: x[0] == "const" and re.match(r"const 0(_|\.0|f)", x[1]) is not None):
                        zero_here = (te9[1] == "Eq") == bool(v9)
                        ctx.require(not zero_here, "R-C11-9", "arm|" + sfx9.split("::")[-1], "%s divides on the arm where the triangle field is not zero" % sfx9.split("::")[-1],
                                    "%s takes the quotient on the arm where the triangle field IS zero and returns the constant where it is not: every node with a triangle gets coefficient 0" % sfx9.split("::")[-1], loc_str(st9.span))
                # ... and such a test exists: the divisor is zero for d < 2 (undirected) resp. d_tot(d_tot-1) == 2 d_rec (a
                # node whose only neighbour is joined by a reciprocated pair), where the triangle field is zero too, so a
                # quotient taken without a zero test of the triangle field (or of the divisor itself) is 0/0 = NaN there
                div9 = norm(f9.describe(st9.rv.ops[1], depth=12))
                guarded9 = False
                for (te9, v9, a9) in controlling_atoms(f9, st9.bb):
                    if not isinstance(te9, tuple):
                        continue
                    zero9 = desc_mentions(te9, lambda x: x[0] == "const" and re.match(r"const 0(_|\.0|f)", x[1]) is not None)
                    if zero9 and te9[0] == "binop" and te9[1] in ("Eq", "Ne", "Gt", "Lt") and desc_mentions(te9, lambda x: x[0] == "place" and x[1].split(".")[-1].endswith("triangles")):
                        guarded9 = True
                    if zero9 and te9[0] == "binop" and te9[1] in ("Eq", "Ne", "Gt", "Lt") and (te9[2] == div9 or te9[3] == div9):
                        guarded9 = True
                    # `match o.number_of_triangles { 0 => 0.0, n => n / .. }`: an integer switch on the field itself
                    if not isinstance(v9, bool) and te9[0] in ("place", "cast") and desc_mentions(te9, lambda x: x[0] == "place" and x[1].split(".")[-1].endswith("triangles")):
                        guarded9 = True
                ctx.require(guarded9, "R-C11-9", "zero-guard|" + sfx9.split("::")[-1], "the quotient of %s is taken behind a zero test of the triangle field (or of the divisor)" % sfx9.split("::")[-1],
                            "the quotient of %s is not behind a zero test of the triangle field or of its divisor: where the divisor is zero (a node of degree < 2; on a directed graph also a node whose only neighbour is joined by a reciprocated pair of edges) the coefficient is 0/0 = NaN instead of 0" % sfx9.split("::")[-1], loc_str(st9.span))
                if r9[0] is None:
                    ctx.undecided("R-C11-9", "denominator|" + sfx9.split("::")[-1], "the divisor in %s is not an arithmetic expression over the degree fields (%s)" % (sfx9.split("::")[-1], fmt_desc(d9)[:120]), loc_str(st9.span))
                else:
                    ctx.require(r9[0], "R-C11-9", "denominator|" + sfx9.split("::")[-1], "the coefficient in %s is triangles / %s" % (sfx9.split("::")[-1], "2(d_tot(d_tot-1) - 2 d_rec)" if want9 == "dir" else "d(d-1)"),
                                "the coefficient in %s is not triangles / %s: at (degree, reciprocal degree, triangles) = %s it evaluates to %s instead of %s" % (sfx9.split("::")[-1], "2(d_tot(d_tot-1) - 2 d_rec)" if want9 == "dir" else "d(d-1)", r9[1] if not r9[0] else "", r9[2] if not r9[0] else "", r9[3] if not r9[0] else ""), loc_str(st9.span))
    ctx.floor("R-C11-9", "coefficient_quotients", n9, 4)
    # premise of the undirected form, read from the code: the kernel's triangle field counts every triangle through v
    # twice (once per direction of the opposite edge), which is why triangles(v) halves it -- so field / d(d-1) IS
    # "triangles over neighbour pairs"
    tri9 = prog.one("cluster::triangles")
    halves9 = False
    for b9 in [tri9] + list(prog.closures_of(tri9.path)):
        f9 = flows.of(b9)
        for st9 in b9.stmts():
            if st9.k == "assign" and st9.rv.k == "binop" and st9.rv.j["op"] == "Div":
                dd9 = norm(f9.describe_def(st9, depth=8))
                if dd9[0] == "binop" and dd9[3][0] == "const" and dd9[3][1].startswith("const 2_") and desc_mentions(dd9[2], lambda x: x[0] == "place" and x[1].endswith("triangles")):
                    halves9 = True
    if halves9:
        ctx.ok("R-C11-9", "premise|triangles-halved", "triangles(v) is the kernel's triangle field / 2: the field counts each triangle twice, so field / d(d-1) is triangles over neighbour pairs")
    else:
        ctx.undecided("R-C11-9", "premise|triangles-halved", "triangles(v) no longer halves the kernel's triangle field; whether field / d(d-1) still is `triangles over neighbour pairs` is not decided", loc_str(tri9.span))
    transitivity_formula(ctx, prog, flows)
    counted_coefficients(ctx, prog, flows)
    # ------------------------------------------------------------------ R-C11-8
    # Fagiolo's eight directed triangle types: a common neighbour k taken from "predecessors of x" is joined to x by the
    # edge k -> x, one taken from "successors of x" by x -> k.  In the weighted kernel each term multiplies the weights of
    # exactly those edges; the four sibling terms must all look their weights up in the direction their own two sets say.
    ctx.rule("R-C11-8", "directed weighted triangles: in every term the weight lookups follow the direction of the neighbour sets that were intersected (k from preds(x): w(k,x); k from succs(x): w(x,k))")
    kern = prog.one("directed_weighted::get_all_directed_triangles")
    n8 = 0

    def _dir_of_desc(fl_, d_, depth=0):
        """direction from the description of a set value: the get_adjacent_nodes_without(graph, x, <const>) it is"""
        from engines import value_of_named

        if depth > 6 or not isinstance(d_, tuple):
            return None
        if d_[0] == "call" and d_[1].endswith("get_adjacent_nodes_without") and len(d_[2]) >= 3 and d_[2][2][0] == "const":
            return "pred" if d_[2][2][1].endswith("true") else ("succ" if d_[2][2][1].endswith("false") else None)
        if d_[0] in ("place", "tmp") and (d_[0] == "tmp" or "." not in d_[1]):
            v_ = value_of_named(fl_, d_[1])
            if v_ is not None:
                return _dir_of_desc(fl_, norm(v_), depth + 1)
        return None

    def set_direction(body_, fl_, op_):
        """'pred' / 'succ' of a neighbour set: from its own definition, or -- for a parameter of the kernel (possibly
        captured by the closure) -- from the argument every caller passes"""
        d_ = norm(fl_.describe(op_, depth=8))
        r_ = _dir_of_desc(fl_, d_)
        if r_ is not None:
            return r_
        # through parameters, struct fields and captures: the nearest get_adjacent_nodes_without call(s) the set derives from
        def _stop(bp_, nd_):
            if nd_[0] != "CALL":
                return False
            tt_ = prog.bodies[bp_].blocks[nd_[1]].term
            return bool(tt_.callee and tt_.callee.short.endswith("get_adjacent_nodes_without"))

        ds2_ = set()
        for (bp_, nd_) in flows.slice(body_.path, fl_._op_reads(op_), up=True, down=False, data_only=True, stop_at=_stop):
            if _stop(bp_, nd_):
                tt_ = prog.bodies[bp_].blocks[nd_[1]].term
                if len(tt_.args) >= 3 and tt_.args[2].is_const():
                    ds2_.add("pred" if tt_.args[2].const_int() == 1 else "succ")
                else:
                    ds2_.add(None)
        if len(ds2_) == 1 and None not in ds2_:
            return next(iter(ds2_))
        if d_[0] == "place" and "." not in d_[1]:
            pl_ = kern.param_local(d_[1])
            if pl_ is not None:
                ds_ = set()
                for (cp_, cbb_) in flows.callers().get(kern.path, ()):
                    cf_ = flows.of(cp_)
                    ct_ = cf_.b.blocks[cbb_].term
                    if pl_ - 1 < len(ct_.args):
                        ds_.add(_dir_of_desc(cf_, norm(cf_.describe(ct_.args[pl_ - 1], depth=8))))
                if len(ds_) == 1:
                    return next(iter(ds_))
        return None

    for jb in prog.closures_of(kern.path):
        jf = flows.of(jb)
        for t in jb.calls():
            if not (t.callee and t.callee.short.split("::")[-1] == "intersection" and len(t.args) >= 2):
                continue
            dx = set_direction(jb, jf, t.args[0])
            dy = set_direction(jb, jf, t.args[1])
            # the per-k closure mapped over this intersection
            kc = None
            cur = {t.dest.local}
            clos_of = {}
            for cl_, cp_ in jf.closure_locals.items():
                for c_ in jf.copies_of(cl_):
                    clos_of[c_] = cp_
            for _ in range(5):
                for t2 in jb.calls():
                    if t2.args and t2.args[0].place is not None and t2.args[0].place.local in cur:
                        for a2 in t2.args[1:]:
                            if a2.place is not None and a2.place.local in clos_of:
                                kc = clos_of[a2.place.local]
                            elif a2.is_const() and a2.c and "closure" in a2.c:
                                kc = a2.c["closure"]
                        cur = cur | {t2.dest.local}
                for st_ in jb.stmts():
                    if st_.k == "assign" and st_.rv.k == "use" and st_.rv.ops[0].place is not None and st_.rv.ops[0].place.local in cur and not st_.lhs.proj:
                        cur = cur | {st_.lhs.local}
                if kc:
                    break
            if kc is None or kc not in prog.bodies or dx is None or dy is None:
                continue
            kb = prog.bodies[kc]
            kf = flows.of(kb)
            kname = kb.local_name(2)
            jname = jb.local_name(2)
            iname = kern.local_name(1)
            for w in kb.calls():
                if not (w.callee and w.callee.short.endswith("get_normalized_edge_weight") and len(w.args) >= 2):
                    continue
                a_, b_ = [norm(kf.describe(x_, depth=6)) for x_ in w.args[:2]]
                na = a_[1] if a_[0] == "place" else None
                nb = b_[1] if b_[0] == "place" else None
                if kname not in (na, nb):
                    continue  # the i-j edge of the triangle
                other = nb if na == kname else na
                if other is None or other.startswith("_"):
                    continue
                # the j-closure's own item is j; the other named node of the kernel is i (a parameter, a field of a
                # parameter struct, a captured binding -- whatever it is called)
                d_ = dy if other == jname else dx
                iname = iname if other == jname else other
                want_k_first = d_ == "pred"
                n8 += 1
                ctx.require((na == kname) == want_k_first, "R-C11-8", "term|%s|%s" % (kb.short.split("::")[-1] + kb.short.split("::")[-2], other), "k from %ss(%s): weight of %s" % (d_, other, ("(k,%s)" if want_k_first else "(%s,k)") % other),
                            "in the term over %ss(%s) ∩ %ss(%s) the weight between k and %s is looked up as (%s, %s): k was taken from the %s of %s, so the triangle's edge runs %s -- the lookup finds no such edge (weight 1/max) or the reverse edge's weight" % (dx, iname, dy, jname, other, na, nb, {"pred": "predecessors", "succ": "successors"}[d_], other, ("k -> %s" if want_k_first else "%s -> k") % other), loc_str(w.span))
    ctx.floor("R-C11-8", "oriented_weight_lookups", n8, 8)
    # ------------------------------------------------------------------ R-C11-7
    # "restricting to a subset returns the full computation's values": the weight normaliser (largest edge weight of
    # the GRAPH) must not depend on the subset
    ctx.rule("R-C11-7", "the weight normaliser handed to get_normalized_edge_weight derives from get_all_edges() alone: not from node_names, not from a per-node edge accessor")
    n7 = 0
    for p_ in sorted(prog.bodies):
        b_ = prog.bodies[p_]
        root_ = b_
        while root_.kind == "closure":
            root_ = prog.bodies[root_.item["parent"]]
        if not root_.short.startswith("algorithms::cluster"):
            continue
        fl_ = flows.of(b_)
        for t_ in b_.calls():
            if not (t_.callee and t_.callee.short.endswith("get_normalized_edge_weight") and len(t_.args) >= 3):
                continue
            n7 += 1
            sl_ = flows.slice(b_.path, fl_._op_reads(t_.args[2]), up=True, down=False, data_only=True)
            cal_ = set()
            subset_ = False
            for (bp_, nd_) in sl_:
                bb_ = prog.bodies[bp_]
                if nd_[0] == "CALL":
                    tt_ = bb_.blocks[nd_[1]].term
                    if tt_.callee:
                        cal_.add(tt_.callee.short.split("::")[-1])
                elif nd_[0] in ("L", "LF") and isinstance(nd_[1], int) and 1 <= nd_[1] <= bb_.arg_count and bb_.local_name(nd_[1]) == "node_names":
                    subset_ = True
            # "normalised by the LARGEST WEIGHT": a maximum seeded with a positive constant (`fold(1.0, f64::max)`) is
            # max(1, largest weight) -- the constant meant for the edgeless graph takes part in every maximum
            for (bp_, nd_) in sl_:
                if nd_[0] != "CALL":
                    continue
                bb_ = prog.bodies[bp_]
                tt_ = bb_.blocks[nd_[1]].term
                if tt_.callee and tt_.callee.short.split("::")[-1] == "fold" and len(tt_.args) >= 3:
                    import re as _re

                    di_ = norm(flows.of(bb_).describe(tt_.args[1], depth=6))
                    m_ = _re.match(r"(?:const )?(-?\d+(?:\.\d+)?(?:[eE][-+]?\d+)?)_?f64$", di_[1].strip()) if isinstance(di_, tuple) and di_[0] == "const" else None
                    if m_ and float(m_.group(1)) > 0.0:
                        ctx.violation("R-C11-7", "normaliser-seed|%s" % bb_.short, "the largest-weight reduction in %s starts from the constant %s: when every weight of the graph is below it the coefficients are divided by %s instead of by the largest weight, so they come out too small by that factor" % (bb_.short, m_.group(1), m_.group(1)), loc_str(tt_.span))
            other_ = sorted(cal_ & {"get_edges_for_nodes", "get_edges_for_node", "get_out_edges_for_node", "get_in_edges_for_node", "get_out_edges_for_nodes", "get_in_edges_for_nodes", "get_edge", "get_edges", "get_subgraph"})
            ctx.require("get_all_edges" in cal_ and not other_ and not subset_, "R-C11-7", "normaliser|%s" % b_.short, "the normaliser in %s is the largest weight of get_all_edges()" % b_.short.split("::", 2)[-1],
                        "the weight normaliser used in %s derives from %s%s instead of get_all_edges() alone: a coefficient computed for a subset differs from the same node's value in the full computation (and can exceed 1)" % (b_.short, other_ or sorted(cal_)[:4], " and from node_names" if subset_ else ""), loc_str(t_.span))
    ctx.floor("R-C11-7", "normalised_weight_lookups", n7, 2)

    # ------------------------------------------------------------------ R-C11-3
    ctx.rule("R-C11-3", "results of the subset-taking functions depend (data flow, not merely validation) on node_names")
    for sfx in ("cluster::clustering", "cluster::triangles", "cluster::generalized_degree", "cluster::average_clustering", "square::square_clustering"):
        b = prog.one(sfx)
        pl = b.param_local("node_names")
        if pl is None:
            ctx.anchor_lost("R-C11-3", "parameter node_names of " + sfx)
            continue
        fl = flows.of(b)
        from guard import ok_producers

        prods = ok_producers(b)
        if prods is None:
            # no Result: the whole return value
            sl = fl.slice_local([L(0)], data_only=True)
        else:
            sl = set()
            for (bb, what, site) in prods:
                ops = site.rv.ops if getattr(site, "rv", None) is not None else site.args
                for o in ops:
                    sl |= fl.slice_local(fl._op_reads(o), data_only=True)
        ctx.require(L(pl) in sl, "R-C11-3", b.short, "result of %s depends on node_names" % sfx.split("::")[-1], "result of %s does NOT depend on node_names: the restriction is ignored" % sfx.split("::")[-1], loc_str(b.span))


def transitivity_formula(ctx, prog, flows):
    """R-C11-10: "transitivity is 3 x triangles / connected triples".  With the kernel's conventions (the triangle field of
    a node counts each triangle through it twice, so its sum over the nodes is 6 x the number of triangles; a node of
    degree d is the centre of d(d-1)/2 triples) that is  sum(field) / sum(d(d-1)).  Checked as expressions: the per-node
    terms the two sums add up are `field` and d(d-1) (d(d-1) with the subtraction saturating at 0), and the value
    returned is the first sum over the second."""
    from engines import FormulaEval, classify_forms, matches_form, mapped_closure_of

    ctx.rule("R-C11-10", "transitivity returns sum(triangle field) / sum(d(d-1)) over the kernel's per-node records (= 3 x triangles / connected triples)")
    tr = prog.one("cluster::transitivity")
    fl = flows.of(tr)
    grid_d = [(d_, t_) for d_ in (1.0, 2.0, 3.0, 6.0) for t_ in (0.0, 2.0, 7.0)]

    def leaf_d(pt):
        def leaf(x):
            if isinstance(x, tuple) and x[0] == "place":
                last = x[1].split(".")[-1]
                if last == "degree":
                    return pt[0]
                if last.endswith("triangles"):
                    return pt[1]
            return None
        return leaf

    kinds = {}
    for cb in prog.closures_of(tr.path):
        if cb.local_ty(0) not in ("usize", "f64", "u64"):
            continue
        fe = FormulaEval(flows.of(cb))
        vecs = None
        for (bb, st) in cb.assigns_to(0):
            cols = []
            for pt in grid_d:
                vs = fe.definition(st, leaf_d(pt))
                cols.append(vs[0] if vs and len(vs) == 1 else None)
            vecs = cols if None not in cols else None
        if vecs is None:
            kinds[cb.path] = "?"
        elif matches_form(vecs, lambda pt: pt[1], grid_d):
            kinds[cb.path] = "T"
        elif matches_form(vecs, lambda pt: pt[0] * max(pt[0] - 1.0, 0.0), grid_d):
            kinds[cb.path] = "D"
        else:
            kinds[cb.path] = "other:%s" % [round(v, 3) for v in vecs[:4]]
    n = 0
    grid_s = [(a_, b_) for a_ in (6.0, 24.0) for b_ in (12.0, 40.0)]
    fe = FormulaEval(fl)

    def term_leaf_for(pt):
        def tl(term, leaf):
            nm = term.callee.short.split("::")[-1] if term.callee else ""
            if nm not in ("sum", "fold"):
                return None
            cp = mapped_closure_of(fl, term)
            k_ = kinds.get(cp)
            if k_ == "T":
                return pt[0]
            if k_ == "D":
                return pt[1]
            return None
        return tl

    for st in tr.stmts():
        if not (st.k == "assign" and st.rv.k == "binop" and st.rv.j["op"] in ("Div", "Mul") and st.lhs.ty == "f64"):
            continue
        n += 1
        cols = []
        for pt in grid_s:
            fe.term_leaf = term_leaf_for(pt)
            vs = fe.definition(st, lambda x: None)
            cols.append(vs[0] if vs and len(vs) == 1 else None)
        if None in cols:
            bad_k = sorted(v for v in kinds.values() if v not in ("T", "D"))
            if any(v.startswith("other") for v in bad_k):
                ctx.violation("R-C11-10", "terms", "a per-node term summed by transitivity is neither the triangle field nor d(d-1): at (d, field) = %s.. it is %s" % (grid_d[:4], bad_k), loc_str(st.span))
            else:
                ctx.undecided("R-C11-10", "quotient|%d" % n, "the quotient returned by transitivity is not plain arithmetic over two sums of recognised per-node terms (terms: %s); its form is not decided" % sorted(kinds.values()), loc_str(st.span))
            continue
        for (te_, v_, a_) in controlling_atoms(fl, st.bb):
            if isinstance(te_, tuple) and te_[0] == "binop" and te_[1] in ("Eq", "Ne") and desc_mentions(te_, lambda x: x[0] == "const" and re.match(r"const 0(_|\.0|f)", x[1]) is not None):
                zero_here = (te_[1] == "Eq") == bool(v_)
                ctx.require(not zero_here, "R-C11-10", "arm|%d" % n, "transitivity divides on the arm where the triangle sum is not zero", "transitivity takes the quotient on the arm where the triangle sum IS zero and returns 0 where it is not: every graph with a triangle gets transitivity 0", loc_str(st.span))
        ok = matches_form(cols, lambda pt: pt[0] / pt[1], grid_s)
        ctx.require(ok, "R-C11-10", "quotient|%d" % n, "transitivity returns sum(triangle field) / sum(d(d-1))",
                    "transitivity does not return sum(triangle field) / sum(d(d-1)): at (sum of fields, sum of d(d-1)) = %s it evaluates to %s instead of %s" % (grid_s[0], round(cols[0], 6), round(grid_s[0][0] / grid_s[0][1], 6)), loc_str(st.span))
    ctx.floor("R-C11-10", "transitivity_quotients", n, 1)


def counted_coefficients(ctx, prog, flows):
    """R-C11-11: "average_clustering is the mean of the counted coefficients" -- with count_zeros == false the counted
    ones are exactly those that differ from zero.  The test that drops a coefficient compares it with the constant 0,
    not with a tolerance: weighted coefficients are normalised by the largest weight of the graph, so a genuine
    coefficient can be 1e-18, and a threshold such as f64::EPSILON removes it from the sum AND from the count."""
    import re

    ctx.rule("R-C11-11", "average_clustering drops a coefficient only when it compares equal to the constant 0 (no tolerance threshold)")
    ac = prog.one("cluster::average_clustering")
    n = 0
    for b in [ac] + list(prog.closures_of(ac.path)):
        fl = flows.of(b)
        for st in b.stmts():
            if not (st.k == "assign" and st.rv.k == "binop" and st.rv.j["op"] in ("Gt", "Lt", "Ge", "Le", "Ne", "Eq")):
                continue
            tys = [o.place.ty if o.place is not None else (o.c or {}).get("ty") for o in st.rv.ops]
            if "f64" not in tys:
                continue
            consts = []
            for o in st.rv.ops:
                d = norm(fl.describe(o, depth=6))
                if isinstance(d, tuple) and d[0] == "const":
                    consts.append(d[1])
            if not consts:
                continue
            n += 1
            vals = []
            for c in consts:
                m = re.match(r"(?:const )?(-?\d+(?:\.\d+)?(?:[eE][-+]?\d+)?)_?f64$", c.strip())
                vals.append(float(m.group(1)) if m else None)
            ok = all(v is not None and v == 0.0 for v in vals)
            # ... strictly: `> 0` / `!= 0`; `>= 0` is true for every coefficient, so zeros are counted although count_zeros is false
            op_ = st.rv.j["op"]
            const_right = isinstance(norm(fl.describe(st.rv.ops[1], depth=6)), tuple) and norm(fl.describe(st.rv.ops[1], depth=6))[0] == "const"
            strict = op_ in ("Ne", "Eq") or (op_ == "Gt" and const_right) or (op_ == "Lt" and not const_right)
            if ok and not strict:
                ctx.violation("R-C11-11", "zero-test-strict|%s|%d" % (b.short.split("::", 3)[-1], n), "average_clustering compares a coefficient with 0 through `%s`, which also holds for 0 itself: coefficients equal to zero are counted although count_zeros is false" % op_, loc_str(st.span))
                continue
            ctx.require(ok, "R-C11-11", "zero-test|%s|%d" % (b.short.split("::", 3)[-1], n), "the coefficient is compared with 0",
                        "average_clustering compares a coefficient with %s instead of 0: a positive coefficient below that threshold (weighted coefficients are divided by the largest weight in the graph) is dropped from the mean although it is not zero" % consts, loc_str(st.span))
    ctx.floor("R-C11-11", "coefficient_tests", n, 1)


def subset_keyed_map_lookups(ctx, prog, flows, rid):
    """shared by C11 (subset restriction) and C20 (valid calls never panic)"""
    ctx.rule(rid, "no unwrapped lookup in a neighbour map whose key domain is a caller-chosen subset")
    gn = prog.one("utility::get_neighbors_of_nodes")
    n_maps = 0
    for p in sorted(prog.bodies):
        b = prog.bodies[p]
        if "cluster" not in b.short:
            continue
        fl = flows.of(b)
        for s in enumerate_sites(b):
            if s.kind != "unwrap":
                continue
            oc = origin_call(fl, s.operand)
            if oc is None or not oc.callee or not oc.callee.short.endswith("HashMap::get") or len(oc.args) < 2:
                continue
            # provenance of the map
            sl = flows.slice(b.path, fl._op_reads(oc.args[0]), up=True, down=False, data_only=True, skip_captures=False)
            producers = []
            for (bp, n_) in sl:
                if n_[0] == "CALL":
                    t = prog.bodies[bp].blocks[n_[1]].term
                    if t.callee and t.callee.target_path(prog) == gn.path:
                        producers.append((bp, t))
            if not producers:
                continue
            n_maps += 1
            s.origin = origin_of(fl, s)
            restricted = []
            for (bp, t) in producers:
                d = norm(flows.of(bp).describe(t.args[0], depth=8))
                is_none = (d[0] == "adt" and d[1].endswith("Option::None")) or (d[0] == "const" and "None" in d[1])
                if not is_none:
                    restricted.append((bp, t, fmt_desc(d)))
            key = "%s|%s" % (b.short, panic.shape_str(s.origin))
            o = s.origin
            guard = existence_guard(fl, s, o[2][0], o[2][1]) if isinstance(o, tuple) and o[0] == "call" and len(o[2]) >= 2 else None
            if not restricted:
                ctx.ok(rid, key, "map looked up in %s is built for ALL nodes (get_neighbors_of_nodes(None, ..) at %s)" % (b.short.split("::", 2)[-1], ", ".join(loc_str(t.span) for (_, t) in producers)), s.site())
            elif guard:
                ctx.ok(rid, key, "subset-restricted map, lookup guarded: " + guard, s.site())
            else:
                bp, t, d = restricted[0]
                ctx.violation(rid, key, "unwrap of %s in %s: the map comes from get_neighbors_of_nodes(%s, ..) at %s, so its keys are the caller's subset, but it is indexed by neighbours that need not be in the subset (panics for a proper subset)" % (norm_str(o), b.short, d, loc_str(t.span)), s.site())
    ctx.floor(rid, "neighbour_map_lookups", n_maps, 1)
