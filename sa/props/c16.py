"""C16 -- generators: argument validation, sibling skipping kernels, node/edge construction shape."""
import re

from core import ASSUME_RUSTC, ASSUME_PATHS
from engines import errorkind_sites
from flow import Flows, L, fmt_desc, desc_mentions
from hashord import natural_loop_blocks
import panic
from props.c01 import controlling_atoms
from mir import loc_str, short

LEVEL = "other"
EXPLANATION = (
    "Decides structural clauses of C16.  R-C16-1: in fast_gnp_random_graph the generator construction and both kernels are "
    "reached only under the interval constraints p > 0 and p < 1 (canonicalised from the comparison atoms, so a boundary slip such as "
    "`<` for `<=` is seen), and InvalidArgument is built on the complementary edges.  R-C16-2 (sibling cross-check, Batagelj-Brandes "
    "skipping): the directed and undirected kernels agree on a frozen feature vector -- n nodes created first, the draw ln(1 - gen()), "
    "the cursor advanced by the float-derived skip with a saturating/guarded addition, the cursor CONSUMED BY SUBTRACTION in the carry "
    "loop that increments the row, the pair pushed under row < n, add_edge_tuples at the end.  R-C16-3 complete_graph: the node list "
    "handed to the constructor derives from 0..num_nodes, combinations(2) is used exactly when undirected and permutations(2) when "
    "directed.  (R-C16-2 also requires that no plain arithmetic is applied to the saturated cursor.)  R-C16-4: without a seed an entropy source is used.  NOT decided: the edge distribution, 'every pair can occur', the 34x34 karate-club data literal."
)
TRUSTED = ["rustc MIR construction", "itertools combinations/permutations semantics", "the published skipping algorithm (Batagelj & Brandes 2005) as reference for the sibling features"]


def const_f(d):
    if isinstance(d, tuple) and d[0] == "const":
        m = re.match(r"const (-?[0-9.eE+-]+)f64", d[1])
        if m:
            return float(m.group(1))
    return None


def interval_constraint(t, v, pname):
    """atom on the parameter -> ('>', c) etc. for the branch taken"""
    if not (isinstance(t, tuple) and t[0] == "binop" and t[1] in ("Lt", "Le", "Gt", "Ge")):
        return None
    a, b = t[2], t[3]
    op = t[1]
    if a[0] == "place" and a[1] == pname and const_f(b) is not None:
        c = const_f(b)
    elif b[0] == "place" and b[1] == pname and const_f(a) is not None:
        c = const_f(a)
        op = {"Lt": "Gt", "Gt": "Lt", "Le": "Ge", "Ge": "Le"}[op]
    else:
        return None
    if not v:
        op = {"Lt": "Ge", "Le": "Gt", "Gt": "Le", "Ge": "Lt"}[op]
    return ({"Lt": "<", "Le": "<=", "Gt": ">", "Ge": ">="}[op], c)


def run(ctx):
    prog = ctx.prog
    flows = Flows(prog)
    ctx.assume(ASSUME_RUSTC)
    ctx.assume(ASSUME_PATHS)
    gnp = prog.one("random::fast_gnp_random_graph")
    kd = prog.one("random::fast_gnp_random_graph_directed")
    ku = prog.one("random::fast_gnp_random_graph_undirected")
    fl = flows.of(gnp)

    # ------------------------------------------------------------------ R-C16-1
    ctx.rule("R-C16-1", "the generator and both kernels run only under p > 0 and p < 1; otherwise InvalidArgument")
    pname = gnp.local_name(2) or "edge_probability"
    want = {(">", 0.0), ("<", 1.0)}
    # the kernels, and wherever the generator is made: the factory helper if there is one, else the
    # seed_from_u64 / thread_rng calls written directly in fast_gnp_random_graph
    gen_paths = {b_.path for b_ in prog.find("random::get_random_number_generator")}
    work = [t for t in gnp.calls() if t.callee and (t.callee.target_path(prog) in ({kd.path, ku.path} | gen_paths) or t.callee.short.endswith("SeedableRng::seed_from_u64"))]
    if not ctx.floor("R-C16-1", "guarded_calls", len(work), 2):
        return
    for t in work:
        cons = set()
        for (te, v, a) in controlling_atoms(fl, t.bb):
            c = interval_constraint(panic.norm(te), v, pname)
            if c:
                cons.add(c)
        ctx.require(cons == want, "R-C16-1", "guard|" + t.callee.short.split("::")[-1], "%s runs only when %s" % (t.callee.short.split("::")[-1], sorted(want)), "%s runs under the constraints %s on %s (expected p > 0 and p < 1): an out-of-range probability is accepted or a valid one rejected" % (t.callee.short.split("::")[-1], sorted(cons), pname), loc_str(t.span))
    # ... and so does every way of returning a graph: an Ok(..) built here, or the Result of a callee handed on
    from guard import ok_producers

    prods = ok_producers(gnp) or []
    for k_, (pbb, what_, ps_) in enumerate(prods):
        cons = set()
        for (te, v, a) in controlling_atoms(fl, pbb):
            c = interval_constraint(panic.norm(te), v, pname)
            if c:
                cons.add(c)
        ctx.require(cons == want, "R-C16-1", "ok-exit|%d" % k_, "a graph is returned (%s) only when %s" % (what_, sorted(want)), "fast_gnp_random_graph returns a graph (%s) under the constraints %s on %s (expected p > 0 and p < 1): an out-of-range probability is accepted for some num_nodes" % (what_, sorted(cons), pname), loc_str(getattr(ps_, "span", None) or gnp.span))
    ctx.floor("R-C16-1", "ok_exits", len(prods), 1)
    inv = [(bb, s) for (bb, s, v) in errorkind_sites(gnp) if v == "InvalidArgument"]
    ctx.require(len(inv) == 1, "R-C16-1", "invalid-argument", "an out-of-range probability yields ErrorKind::InvalidArgument", "InvalidArgument is built %d times" % len(inv), loc_str(gnp.span))

    # ------------------------------------------------------------------ R-C16-4
    # "behaves as a draw from G(n,p) ... every possible pair can occur": without a seed the generator must take its
    # randomness from an entropy source.  If `None` is mapped to a fixed seed, every unseeded call returns the same graph
    # and the pairs absent from that one graph can never occur.
    ctx.rule("R-C16-4", "without a seed the generator is made from an entropy source: a call to thread_rng / from_entropy / OsRng is reachable from fast_gnp_random_graph and runs on the seed == None arm")
    ENTROPY4 = ("rand::thread_rng", "rand::random", "rand::rngs::OsRng", "rand::SeedableRng::from_entropy", "rand::SeedableRng::from_os_rng", "rand::rngs::ThreadRng", "getrandom::")
    found4, on_none4 = [], False
    for p4 in sorted(prog.reachable_bodies([gnp.path])):
        b4 = prog.bodies[p4]
        f4 = None
        for t4 in b4.calls():
            if t4.callee and any(t4.callee.short.startswith(e) for e in ENTROPY4):
                f4 = f4 or flows.of(b4)
                found4.append(t4)
                for (te4, v4, a4) in controlling_atoms(f4, t4.bb):
                    if isinstance(te4, tuple) and te4[0] == "discr" and "Option" in (te4[2] if len(te4) > 2 else "") and (v4 == (0,) or v4 == "otherwise"):
                        on_none4 = True
    ctx.require(bool(found4) and on_none4, "R-C16-4", "unseeded-entropy", "an entropy source (%s) is used on the seed == None arm" % ", ".join(sorted({t.callee.short.split("::")[-1] for t in found4})),
                "no entropy source is reached from fast_gnp_random_graph on the seed == None arm (%d entropy calls found): an unseeded call is then a fixed seed in disguise -- every call returns the same graph, and a pair that is absent from that graph can never occur" % len(found4), loc_str(gnp.span))

    # ------------------------------------------------------------------ R-C16-2
    ctx.rule("R-C16-2", "the directed and undirected skipping kernels agree on the frozen feature vector (cursor consumed by subtraction in the carry loop, ...)")
    feats = {}
    for k in (kd, ku):
        feats[k.short.split("::")[-1]] = kernel_features(prog, flows, k)
    names = list(feats)
    dd = feats.get("fast_gnp_random_graph_directed", {}).get("_diagonal_tests")
    if dd is not None:
        ctx.require(dd[0] >= 1 or dd == (0, 0), "R-C16-2", "feature|diagonal_skip_in_carry_loop", "directed kernel: the diagonal slot is stepped over inside the carry loop (%d test(s) inside, %d outside)" % dd,
                    "the directed kernel tests for the diagonal slot only outside the carry loop (%d inside, %d outside): when a carry lands on the last row's diagonal (n-1, n-1) the step over it makes w = n without the loop condition being tested again, and the pair (n-1, n) is pushed -- a node `n` that must not exist" % dd, loc_str(kd.span))
    KERNEL_EXPECTED = {
        "fast_gnp_random_graph_directed": {"_comparisons": ["cursor<n", "cursor==row", "lp<0", "row<n"], "_diagonal_increment_on_equal": True, "_carry_guards_necessary": True},
        "fast_gnp_random_graph_undirected": {"_comparisons": ["cursor<row", "lp<0", "row<n"], "_diagonal_increment_on_equal": None, "_carry_guards_necessary": True},
    }
    WHY = {"_comparisons": "the boundaries of the kernel's loop guards, push guard and skip guard (operands by role)", "_diagonal_increment_on_equal": "the cursor steps over the diagonal slot exactly when row == cursor", "_carry_guards_necessary": "the carry step runs only while both of its guards hold"}
    for kn, exp in KERNEL_EXPECTED.items():
        for fname, want in exp.items():
            got = feats.get(kn, {}).get(fname)
            ctx.require(got == want, "R-C16-2", "feature|%s|%s" % (kn.split("_")[-1], fname.strip("_")), "%s kernel: %s = %s" % (kn.split("_")[-1], fname.strip("_"), got),
                        "%s kernel deviates from the published skipping scheme on `%s` (%s): found %s, expected %s -- a cursor or row that passes its bound by one makes the kernel emit a pair outside the grid (a node n, a self-loop) or loop without end" % (kn.split("_")[-1], fname.strip("_"), WHY[fname], got, want), loc_str(prog.one("random::" + kn).span))
    for fname in sorted(set(feats[names[0]]) | set(feats[names[1]])):
        if fname.startswith("_"):
            continue
        v0, v1 = feats[names[0]].get(fname), feats[names[1]].get(fname)
        expected = EXPECTED.get(fname)
        ok = v0 == v1 and (expected is None or v0 == expected)
        ctx.require(ok, "R-C16-2", "feature|" + fname, "both kernels: %s = %s" % (fname, v0), "kernels disagree (or deviate from the published algorithm) on `%s`: directed=%s undirected=%s expected=%s" % (fname, v0, v1, expected), loc_str(ku.span))

    # ------------------------------------------------------------------ R-C16-3
    ctx.rule("R-C16-3", "complete_graph: nodes from 0..num_nodes; combinations(2) iff undirected, permutations(2) iff directed")
    cg = prog.one("classic::complete_graph")
    cf = flows.of(cg)
    ctor = [t for t in cg.calls() if t.callee and t.callee.short.endswith("Graph::new_from_nodes_and_edges")]
    if len(ctor) != 1:
        ctx.anchor_lost("R-C16-3", "constructor call in complete_graph")
        return
    nn = cg.param_local("num_nodes")
    sl = cf.slice_local(cf._op_reads(ctor[0].args[0]), data_only=True)
    ctx.require(L(nn) in sl, "R-C16-3", "nodes-from-n", "the node list handed to the constructor derives from num_nodes", "the node list does not depend on num_nodes: nodes exist only as endpoints of edges, so complete_graph(1, _) has no node", loc_str(ctor[0].span))
    for (meth, want_dir) in (("combinations", False), ("permutations", True)):
        cs = [t for t in cg.calls() if t.callee and t.callee.short.endswith("Itertools::" + meth)]
        ok = len(cs) == 1
        if ok:
            t = cs[0]
            k = t.args[1].const_int() if len(t.args) > 1 and t.args[1].is_const() else None
            at = [(te, v) for (te, v, a) in controlling_atoms(cf, t.bb) if isinstance(te, tuple) and te[0] == "place" and te[1] == "directed"]
            ok = k == 2 and at == [(("place", "directed"), want_dir)]
        ctx.require(ok, "R-C16-3", meth, "%s(2) is used exactly when directed == %s" % (meth, str(want_dir).lower()), "%s(2) is not tied to directed == %s" % (meth, str(want_dir).lower()), loc_str(cg.span))
    # specs directedness follows the flag
    for (ctor_name, want_dir) in (("GraphSpecs::undirected", False), ("GraphSpecs::directed", True)):
        cs = [t for t in cg.calls() if t.callee and t.callee.short.endswith(ctor_name)]
        ok = len(cs) == 1 and [(te, v) for (te, v, a) in controlling_atoms(cf, cs[0].bb) if isinstance(te, tuple) and te[0] == "place" and te[1] == "directed"] == [(("place", "directed"), want_dir)]
        ctx.require(ok, "R-C16-3", "specs|" + ctor_name, "%s() specs are used exactly when directed == %s" % (ctor_name, str(want_dir).lower()), "%s() is not tied to directed == %s" % (ctor_name, str(want_dir).lower()), loc_str(cg.span))


EXPECTED = {
    "nodes_created_first": True,
    "draw": "ln(1 - gen::<f64>())",
    "skip_quotient": "ln(1 - U) / ln(1 - p)",
    "cursor_advance": "saturating",
    "cursor_start": -1,
    "plain_arithmetic_on_saturated_cursor": None,
    "carry_cursor_op": "Sub",
    "carry_row_step": "+1",
    "push_under_row_lt_n": True,
    "finishes_with": "add_edge_tuples",
}


def root_local(k, operand):
    """the variable behind an operand: `x = x + 1` reads a temporary copy of x, `x += 1` reads x itself"""
    if operand.place is None or operand.place.proj:
        return None
    l = operand.place.local
    for _ in range(5):
        if k.local_name(l):
            return l
        ds = k.assigns_to(l)
        if len(ds) == 1 and getattr(ds[0][1], "rv", None) is not None and ds[0][1].rv.k == "use" and ds[0][1].rv.ops[0].place is not None and not ds[0][1].rv.ops[0].place.proj:
            l = ds[0][1].rv.ops[0].place.local
        else:
            break
    return l


def kernel_features(prog, flows, k):
    fl = flows.of(k)
    f = {}
    calls = [t for t in k.calls() if t.callee]
    # n nodes first: an add_node call in a loop over a range depending on num_nodes that dominates the skipping loop
    an = [t for t in calls if t.callee.short.endswith("Graph::add_node")]
    gens = [t for t in calls if t.callee.short.endswith("Rng::gen")]
    f["nodes_created_first"] = bool(an) and bool(gens) and all(not k.dominates(g.bb, a.bb) for g in gens for a in an) and all(g.bb in k.reachable_from(a.bb) for g in gens for a in an)
    # the draw
    lns = [t for t in calls if t.callee.short.endswith("f64::ln")]
    draw = None
    for t in lns:
        d = panic.norm(panic.expand_names(fl, panic.norm(fl.describe(t.args[0], depth=8))))
        if d[0] == "binop" and d[1] == "Sub" and const_f(d[2]) == 1.0 and d[3][0] == "call" and d[3][1].endswith("Rng::gen"):
            draw = "ln(1 - gen::<f64>())"
    f["draw"] = draw
    # the skip length: ln(1 - U) / ln(1 - p), the inverse geometric CDF -- the divisor is the logarithm of the probability
    # that a slot stays EMPTY
    quot = None
    pf = [k.local_name(i) for i in range(1, k.arg_count + 1) if k.local_ty(i) == "f64" and k.local_name(i)]
    for s in k.stmts():
        if s.k == "assign" and s.rv.k == "binop" and s.rv.j["op"] == "Div" and s.lhs.ty == "f64":
            num = panic.norm(panic.expand_names(fl, panic.norm(fl.describe(s.rv.ops[0], depth=8))))
            den = panic.norm(panic.expand_names(fl, panic.norm(fl.describe(s.rv.ops[1], depth=8))))

            def is_ln_one_minus(d, what):
                return isinstance(d, tuple) and d[0] == "call" and d[1].endswith("f64::ln") and d[2] and d[2][0][0] == "binop" and d[2][0][1] == "Sub" and const_f(d[2][0][2]) == 1.0 and what(d[2][0][3])

            ok_num = is_ln_one_minus(num, lambda x: x[0] == "call" and x[1].endswith("Rng::gen"))
            ok_den = is_ln_one_minus(den, lambda x: x[0] == "place" and x[1] in pf)
            quot = "ln(1 - U) / ln(1 - p)" if (ok_num and ok_den) else "%s / %s" % (fmt_desc(num)[:60], fmt_desc(den)[:60])
    f["skip_quotient"] = quot
    # cursor: the i32 local that receives the float-derived skip
    cast_locals = [s.lhs.local for s in k.stmts() if s.k == "assign" and s.rv.k == "cast" and s.rv.j["ck"] == "FloatToInt"]
    cursor = None
    adv = None
    for t in calls:
        if t.callee.short.endswith("::saturating_add") and len(t.args) > 1:
            sl = fl.slice_local(fl._op_reads(t.args[1]), data_only=True)
            if any(L(c) in sl for c in cast_locals):
                adv = "saturating"
                for (bb, d) in [(x.bb, x) for x in [t]]:
                    pass
                # the named local this result is stored in
                for s in k.stmts():
                    if s.k == "assign" and s.rv.k == "use" and s.rv.ops[0].place is not None and s.rv.ops[0].place.local == t.dest.local and k.local_name(s.lhs.local):
                        cursor = s.lhs.local
                if cursor is None and k.local_name(t.dest.local):
                    cursor = t.dest.local
    if adv is None:
        for s in k.stmts():
            if s.k == "assign" and s.rv.k == "binop" and s.rv.j["op"].startswith("Add"):
                sl = fl.slice_local(fl._op_reads(s.rv.ops[1]), data_only=True)
                if any(L(c) in sl for c in cast_locals):
                    adv = "unchecked"
    f["cursor_advance"] = adv
    # ... and nothing is added to the saturated value in the same expression: `w.saturating_add(skip) + 1` is i32::MAX + 1
    # for a sparse graph (the skip saturates exactly when p is small), where the published scheme just ends the loop
    plain = set()
    for s in k.stmts():
        if s.k == "assign" and s.rv.k == "binop" and s.rv.j["op"].replace("WithOverflow", "").replace("Unchecked", "") in ("Add", "Sub", "Mul") and k.local_ty(s.lhs.local).lstrip("(").startswith("i32"):
            for o in s.rv.ops:
                d = fl.describe(o, depth=8)
                if desc_mentions(d, lambda x: x[0] == "call" and x[1].split("::")[-1] in ("saturating_add", "saturating_sub", "saturating_mul")):
                    plain.add(s.rv.j["op"].replace("WithOverflow", ""))
    f["plain_arithmetic_on_saturated_cursor"] = "/".join(sorted(plain)) if plain else None
    if cursor is None:
        # fall back: the i32 local named in the pushed tuple's second component
        cands = [l["i"] for l in k.locals if l["ty"] == "i32" and l["name"] and l["i"] > k.arg_count and len(k.assigns_to(l["i"])) >= 3]
        cursor = cands[0] if cands else None
    # row variable: i32 local incremented by const 1 inside an inner loop
    row = None
    inner = None
    for t in calls:
        pass
    loops = []
    for blk in k.normal_blocks():
        for s_ in k.succ(blk.i):
            if k.dominates(s_, blk.i):
                loops.append(natural_loop_blocks(k, s_))
    loops = [l for l in loops if len(l) > 1]
    loops.sort(key=len)
    carry = None
    for lb in loops:
        for s in k.stmts():
            if s.bb in lb and s.k == "assign" and s.rv.k == "binop" and s.rv.j["op"].startswith("Add") and s.rv.ops[1].is_const() and s.rv.ops[1].const_int() == 1:
                base = root_local(k, s.rv.ops[0])
                if base is not None and k.local_name(base) and base != cursor and k.local_ty(base) == "i32":
                    row = base
                    carry = lb
                    break
        if carry:
            break
    f["carry_row_step"] = "+1" if row is not None else None
    op = None
    # the cursor may be worked on under another name inside a helper that was spliced in (`carry(v, w, n) -> (v, w)`):
    # every local connected to it by plain copies / moves is the cursor
    family = {cursor} if cursor is not None else set()
    changed = True
    while changed and cursor is not None:
        changed = False
        for s in k.stmts():
            if s.k == "assign" and not s.lhs.proj and s.rv.k == "use" and s.rv.ops[0].place is not None and not s.rv.ops[0].place.proj and k.local_ty(s.lhs.local) == "i32":
                a_, b_ = s.lhs.local, s.rv.ops[0].place.local
                if (a_ in family) != (b_ in family) and row not in (a_, b_) and root_local(k, s.rv.ops[0]) != row:
                    family |= {a_, b_}
                    changed = True
    if carry and cursor is not None:
        ops = set()
        for s in k.stmts():
            if s.bb in carry and s.k == "assign" and s.rv.k == "binop" and s.rv.j["op"].replace("WithOverflow", "").replace("Unchecked", "") in ("Add", "Sub", "Mul", "Div", "Rem") and (root_local(k, s.rv.ops[0]) in family) and not s.rv.ops[1].is_const():
                ops.add(s.rv.j["op"].replace("WithOverflow", ""))
        op = "/".join(sorted(ops)) if ops else None
    f["carry_cursor_op"] = op
    # the cursor starts one slot BEFORE the first slot (every draw advances it by 1 + skip): -1
    start = None
    if cursor is not None:
        for (bb_, d_) in k.assigns_to(cursor):
            rv_ = getattr(d_, "rv", None)
            if rv_ is not None and rv_.k == "use" and rv_.ops and rv_.ops[0].is_const() and all(k.dominates(bb_, x.bb) for x in gens):
                start = rv_.ops[0].const_int()
                if start is not None and start >= 2 ** 31:
                    start -= 2 ** 32
    f["cursor_start"] = start
    # the directed kernel walks the n x n grid including the diagonal and steps over slot (v, v).  After a carry the
    # cursor can land on the diagonal of the NEW row, and stepping over it can push the cursor out of the row again
    # (slot (n-1, n-1) -> w = n): so the diagonal test sits INSIDE the carry loop, whose condition is then re-tested
    diag_in = diag_out = 0
    if row is not None and cursor is not None:
        for blk in k.normal_blocks():
            if blk.term.k != "switch":
                continue
            at = fl.atom(blk.i)
            te = panic.norm(at["test"]) if at else None
            if isinstance(te, tuple) and te[0] == "binop" and te[1] in ("Eq", "Ne") and {fmt_desc(te[2]), fmt_desc(te[3])} == {k.local_name(row), k.local_name(cursor)}:
                if carry and blk.i in carry:
                    diag_in += 1
                else:
                    diag_out += 1
    f["_diagonal_tests"] = (diag_in, diag_out)
    # every ordering / equality test of the kernel, with its operands named by ROLE (row, cursor, n, lp) and written in
    # one canonical form: "x<y" stands for the boundary between x < y and x >= y whichever way round and whichever
    # polarity it is written (`v < n`, `n > v`, `!(v >= n)`); a boundary slip (`v <= n`) is the other boundary "n<v"
    roles = {}
    if row is not None:
        roles[k.local_name(row)] = "row"
    if cursor is not None:
        roles[k.local_name(cursor)] = "cursor"
    for i in range(1, k.arg_count + 1):
        if k.local_ty(i) == "i32" and k.local_name(i):
            roles[k.local_name(i)] = "n"
    for l_ in k.locals:
        if l_["ty"] == "f64" and l_["name"] and l_["i"] > k.arg_count:
            dv = panic.norm(panic.expand_names(fl, ("place", l_["name"])))
            if isinstance(dv, tuple) and dv[0] == "call" and dv[1].endswith("f64::ln") and dv[2] and dv[2][0][0] == "binop" and dv[2][0][3][0] == "place" and dv[2][0][3][1] in pf:
                roles[l_["name"]] = "lp"

    def opnd(d):
        if isinstance(d, tuple) and d[0] == "place":
            return roles.get(d[1], d[1])
        if isinstance(d, tuple) and d[0] == "const":
            c_ = const_f(d)
            return "0" if c_ == 0.0 else fmt_desc(d).replace("const ", "")
        return fmt_desc(d)[:40]

    cmps = set()
    eq_switches = []
    cmp_switches = {}
    for blk in k.normal_blocks():
        if blk.term.k != "switch":
            continue
        at = fl.atom(blk.i)
        te = panic.norm(at["test"]) if at else None
        neg = False
        while isinstance(te, tuple) and te[0] == "unop" and te[1] == "Not":
            neg = not neg
            te = te[2]
        if not (isinstance(te, tuple) and te[0] == "binop" and te[1] in ("Lt", "Le", "Gt", "Ge", "Eq", "Ne") and at["ty"] == "bool"):
            continue
        a_, b_ = opnd(te[2]), opnd(te[3])
        f_succ, t_succ = dict(at["targets"]).get(0), at["otherwise"]
        if neg:
            f_succ, t_succ = t_succ, f_succ
        if te[1] in ("Eq", "Ne"):
            key = "==".join(sorted([a_, b_]))
            eq_succ = t_succ if te[1] == "Eq" else f_succ
            eq_switches.append((blk.i, key, eq_succ))
        else:
            # canonical boundary and the successor on which "x<y" HOLDS
            if te[1] == "Lt":
                key, holds = "%s<%s" % (a_, b_), t_succ
            elif te[1] == "Ge":
                key, holds = "%s<%s" % (a_, b_), f_succ
            elif te[1] == "Gt":
                key, holds = "%s<%s" % (b_, a_), t_succ
            else:
                key, holds = "%s<%s" % (b_, a_), f_succ
            cmp_switches.setdefault(key, []).append((blk.i, holds, (t_succ if holds == f_succ else f_succ)))
        cmps.add(key)
    f["_comparisons"] = sorted(cmps)
    # the diagonal step: the cursor is incremented on the EQUAL outcome of row == cursor
    diag_ok = None
    for (bb_, key, eq_succ) in eq_switches:
        if key == "cursor==row" and cursor is not None:
            inc = [s_ for s_ in k.stmts() if s_.k == "assign" and s_.rv.k == "binop" and s_.rv.j["op"].startswith("Add") and root_local(k, s_.rv.ops[0]) == cursor and s_.rv.ops[1].is_const() and s_.rv.ops[1].const_int() == 1]
            other = [y for y in k.succ(bb_) if y != eq_succ]
            on_eq = any(s_.bb == eq_succ or (eq_succ is not None and s_.bb in k.reachable_from(eq_succ) and not (other and s_.bb in k.reachable_from(other[0], avoid=(eq_succ,)))) for s_ in inc)
            direct_other = any(other and s_.bb == other[0] for s_ in inc)
            diag_ok = (diag_ok is not False) and on_eq and not direct_other
    f["_diagonal_increment_on_equal"] = diag_ok
    # the carry step consumes the cursor only while BOTH its guards hold: with the holding edge of either guard deleted
    # the subtraction is unreachable from the carry loop's header
    nec = None
    if carry and cursor is not None:
        subs = [s_ for s_ in k.stmts() if s_.bb in carry and s_.k == "assign" and s_.rv.k == "binop" and s_.rv.j["op"].startswith("Sub") and root_local(k, s_.rv.ops[0]) in family]
        hdr = min(carry) if carry else None
        for blk_i in carry:
            if all(k.dominates(blk_i, x) for x in carry):
                hdr = blk_i
        guards_in_carry = [(key, sw) for key, lst in cmp_switches.items() for sw in lst if sw[0] in carry]
        if subs and guards_in_carry:
            nec = True
            for (key, (gbb, holds, fails)) in guards_in_carry:
                # which outcome continues the loop?  the one from which the subtraction is reachable without leaving the loop
                cont = holds if any(s_.bb in k.reachable_from(holds, avoid=tuple(x for x in range(len(k.blocks)) if x not in carry)) or s_.bb == holds for s_ in subs) else fails
                reach = k.reach_avoiding_edges([(gbb, cont)], hdr)
                if any(s_.bb in reach for s_ in subs):
                    nec = False
    f["_carry_guards_necessary"] = nec
    # push under row < n
    pushes = [t for t in calls if t.callee.short.endswith("Vec::push")]
    okp = False
    nn = k.param_local("num_nodes")
    for t in pushes:
        for (te, v, a) in controlling_atoms(fl, t.bb):
            te = panic.norm(te)
            if isinstance(te, tuple) and te[0] == "binop" and te[1] in ("Lt", "Gt") and v is True and row is not None:
                names = {fmt_desc(te[2]), fmt_desc(te[3])}
                if k.local_name(row) in names and k.local_name(nn) in names:
                    okp = True
    f["push_under_row_lt_n"] = okp
    fin = [t for t in calls if t.callee.short.endswith("Graph::add_edge_tuples")]
    f["finishes_with"] = "add_edge_tuples" if len(fin) == 1 else None
    return f
