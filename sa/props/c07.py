"""C07 -- parallel execution is unobservable (schedule / thread-count independence by construction).

Each parallel region computes r[i] = f(&graph, i) and gathers r in index order, then runs the
same sequential combination as the serial arm.  The rules below discharge, for every region
found in the MIR, the side conditions of that argument (DESIGN.md section 4, C07: P1..P7).
"""
import os
import re
import subprocess

from core import ASSUME_AT, ASSUME_RUSTC
from engines import all_calls, arm_blocks, closures_created_in, fmt_feature, ipdom, sibling_features
from flow import Flows, L
from effects import Effects
import hashord
from mir import loc_str, short, is_macro_expansion

LEVEL = "proof"
EXPLANATION = (
    "Static proof by construction of schedule/thread-count independence.  Obligations: (P1) no unsafe code "
    "(driver's HIR scan of unsafe blocks/fns/impls); (P3) no static mut, every static Freeze, no thread_local, no interior-"
    "mutable or unknown foreign type inside any crate ADT; (P4) every call into rayon is one of the order-preserving indexed "
    "forms into_par_iter(Range/Vec) -> map -> collect::<Vec>, or current_num_threads; no std::thread/sync use; (P5) the code "
    "run per work item (closure + transitive crate callees) calls no entropy/time/env/thread-identity source and captures only "
    "shared references or values, and the thread count flows only into branch conditions; (P6) both arms of every thread-count-"
    "dependent branch call the same crate functions with arguments of the same provenance under the same option tests (sibling "
    "check, recursing into paired iterator builders); (P7) no hash-order-sensitive sink over a randomly-seeded container inside a "
    "parallel region, and none after the join other than a collect into an unordered map.  (P2) compile-fail witnesses run in the "
    "thorough tier.  Not a run-time test: no graphrs code is executed."
)
TRUSTED = [
    "rustc type/borrow checker and MIR construction",
    "rayon: indexed into_par_iter().map().collect::<Vec<_>>() preserves index order; closures passed to map must be Fn + Sync + Send",
    "determinism of std Vec/BinaryHeap/VecDeque and IEEE f64 arithmetic for a fixed operation order",
    "nohash-hasher containers iterate in an order that depends only on their insertion history",
]

PUBLIC5 = [
    "dijkstra::all_pairs",
    "dijkstra::multi_source",
    "dijkstra::get_all_shortest_paths_involving",
    "betweenness::betweenness_centrality",
    "closeness::closeness_centrality",
]

RAYON_ALLOWED = {
    "rayon::iter::IntoParallelIterator::into_par_iter",
    "rayon::iter::ParallelIterator::map",
    "rayon::iter::ParallelIterator::collect",
    "rayon::current_num_threads",
}

# hidden inputs: nothing executed per work item may call into these
HIDDEN_INPUT_PREFIXES = (
    "rand::",
    "rand_core::",
    "rand_chacha::",
    "std::time::",
    "std::env::",
    "std::fs::",
    "std::io::",
    "std::thread::",
    "std::process::",
    "std::net::",
    "rayon::current_thread_index",
    "rayon::current_num_threads",
    "rayon::max_num_threads",
    "std::hash::RandomState::new",
    "getrandom::",
)

INTERIOR_MUT = (
    "std::cell::",
    "std::sync::Mutex",
    "std::sync::RwLock",
    "std::sync::atomic::",
    "std::sync::Once",
    "std::sync::OnceLock",
    "std::sync::LazyLock",
    "std::sync::Condvar",
    "std::sync::mpsc::",
    "std::sync::Barrier",
    "<rawptr>",
    "<dyn>",
)
ADT_ALLOW = {
    "std::vec::Vec",
    "std::collections::HashMap",
    "std::collections::HashSet",
    "std::sync::Arc",
    "std::option::Option",
    "std::string::String",
    "std::hash::BuildHasherDefault",
    "nohash::NoHashHasher",
    "std::hash::RandomState",
    "std::alloc::Global",
    "std::marker::PhantomData",
}


def run(ctx):
    prog = ctx.prog
    flows = Flows(prog)
    effects = Effects(prog, flows)
    ctx.assume(ASSUME_AT)
    ctx.assume(ASSUME_RUSTC)

    # ------------------------------------------------------------------ P1 no unsafe
    ctx.rule("P1", "no unsafe code anywhere in the crate (HIR scan: unsafe blocks, unsafe fns, unsafe impls)")
    n_unsafe = 0
    for p, it in prog.items.items():
        if it.get("unsafe"):
            n_unsafe += 1
            ctx.violation("P1", "unsafe-fn|" + short(p), "unsafe fn %s" % p, loc_str(it["span"]))
        h = it.get("hir")
        if h:
            for ub in h.get("unsafe_blocks", []):
                if ub["src"] == "UserProvided":
                    n_unsafe += 1
                    ctx.violation("P1", "unsafe-block|" + short(p), "unsafe block in %s" % p, loc_str(ub["span"]))
    for u in prog.facts.get("unsafe_items", []):
        n_unsafe += 1
        ctx.violation("P1", "unsafe-impl|" + loc_str(u["span"]).split(":")[0], u["what"], loc_str(u["span"]))
    if n_unsafe == 0:
        ctx.ok("P1", "crate", "no unsafe block / unsafe fn / unsafe impl in %d bodies" % len(prog.bodies))

    # ------------------------------------------------------------------ P3 no shared mutable state
    ctx.rule("P3", "no static mut / non-Freeze static / thread_local; no interior-mutable or unknown foreign type in any crate ADT")
    for s in prog.statics:
        ctx.require(not s["mut"] and s["freeze"], "P3", "static|" + short(s["path"]), "static %s is immutable and Freeze (%s)" % (s["path"], s["ty"]), site=loc_str(s["span"]))
    for p, b in prog.bodies.items():
        for st in b.stmts():
            if st.rv is not None and st.rv.k == "tlref":
                ctx.violation("P3", "thread_local|" + b.short, "thread-local access in %s" % p, loc_str(st.span))
    # types shared between threads: Graph and everything it contains (transitively through crate
    # ADTs), plus every type mentioned in a capture of a closure handed to rayon
    shared = ["graph::Graph"]
    cap_types = []
    for b, t in all_calls(prog):
        if t.callee.short == "rayon::iter::ParallelIterator::map":
            for a in t.args:
                m = re.search(r"\{closure@", a.place.ty if a.place is not None else "")
            for cb in closures_created_in(prog, b):
                for c in cb.item.get("captures", []):
                    cap_types.append((cb.short, c["name"], c["ty"]))
    for (cs, cn, cty) in cap_types:
        for tok in set(re.findall(r"[A-Za-z_][A-Za-z_0-9]*(?:::[A-Za-z_][A-Za-z_0-9]*)+", cty)):
            if tok in prog.adts and tok not in shared:
                shared.append(tok)
            elif tok not in prog.adts:
                okf = tok in ADT_ALLOW or tok in ("std::ops::Range",)
                bad = any(tok.startswith(m) for m in INTERIOR_MUT)
                if bad or not okf:
                    ctx.violation("P3", "capture-type|%s|%s" % (cs, cn), "parallel closure %s captures `%s`: %s mentioning %s type %s" % (cs, cn, cty, "interior-mutable" if bad else "unreviewed foreign", tok))
    n_fields = 0
    seen_adts = set()
    while shared:
        ap = shared.pop()
        if ap in seen_adts or ap not in prog.adts:
            continue
        seen_adts.add(ap)
        a = prog.adts[ap]
        for v in a["variants"]:
            for f in v["fields"]:
                n_fields += 1
                bad = [x for x in f["adts"] if any(x.startswith(m) for m in INTERIOR_MUT)]
                unknown = [x for x in f["adts"] if x not in ADT_ALLOW and x not in prog.adts and not any(x.startswith(m) for m in INTERIOR_MUT)]
                for x in f["adts"]:
                    if x in prog.adts and x not in seen_adts:
                        shared.append(x)
                key = "field|%s.%s" % (short(ap), f["name"])
                if bad:
                    ctx.violation("P3", key, "field %s.%s: %s contains interior-mutable/raw type %s" % (ap, f["name"], f["ty"], bad), loc_str(a["span"]))
                elif unknown:
                    ctx.violation("P3", key, "field %s.%s: %s contains a foreign type outside the reviewed allow-list: %s (fail closed)" % (ap, f["name"], f["ty"], unknown), loc_str(a["span"]))
                else:
                    ctx.ok("P3", key, "field %s.%s: %s has no interior mutability (generic T/A are the caller's value types)" % (short(ap), f["name"], f["ty"]))
    ctx.counters["shared_adts"] = sorted(seen_adts)
    ctx.count("adt_fields_walked", 0)
    ctx.counters["adt_fields_walked"] = n_fields
    ctx.floor("P3", "graph_fields", len(prog.adts.get("graph::Graph", {"variants": [{"fields": []}]})["variants"][0]["fields"]), 12)

    # ------------------------------------------------------------------ P4 rayon inventory
    ctx.rule("P4", "every call into rayon/std::thread is an order-preserving indexed form: into_par_iter on Range/Vec, map, collect::<Vec>, current_num_threads")
    counts = {}
    par_maps = []
    for b, t in all_calls(prog):
        nm = t.callee.short
        krate = t.callee.krate or ""
        if nm.startswith("rayon") or krate.startswith("rayon") or nm.startswith("std::thread::") or nm.startswith("std::sync::mpsc"):
            counts[nm] = counts.get(nm, 0) + 1
            key = "%s|%s" % (b.short, nm)
            site = loc_str(t.span)
            if nm not in RAYON_ALLOWED:
                ctx.violation("P4", key, "call to %s in %s is not an order-preserving indexed form" % (nm, b.short), site)
                continue
            if nm.endswith("into_par_iter"):
                self_ty = t.callee.args[0] if t.callee.args else "?"
                ok = self_ty.startswith("std::ops::Range<") or self_ty.startswith("std::vec::Vec<")
                ctx.require(ok, "P4", key, "into_par_iter on indexed source %s" % self_ty, "into_par_iter on non-indexed source %s" % self_ty, site)
            elif nm.endswith("::collect"):
                ok = t.dest.ty.startswith("std::vec::Vec<")
                ctx.require(ok, "P4", key, "parallel collect into Vec (index order preserved)", "parallel collect into %s (order not guaranteed)" % t.dest.ty, site)
            elif nm.endswith("::map"):
                ctx.ok("P4", key, "ParallelIterator::map", site)
                par_maps.append((b, t))
            else:
                ctx.ok("P4", key, nm, site)
    for nm, floor in (
        ("rayon::iter::IntoParallelIterator::into_par_iter", 4),
        ("rayon::iter::ParallelIterator::map", 4),
        ("rayon::iter::ParallelIterator::collect", 4),
        ("rayon::current_num_threads", 4),
    ):
        ctx.floor("P4", nm.split("::")[-1], counts.get(nm, 0), floor)

    # ------------------------------------------------------------------ P5 per-item code has no hidden input
    ctx.rule("P5", "code executed per work item reaches no entropy/time/env/thread-identity source; captures are shared refs or values; thread count flows only into branch conditions")
    region_bodies = set()
    regions = []
    for b, t in par_maps:
        fl = flows.of(b)
        clos = None
        for a in t.args:
            c = effects._closure_of(fl, a)
            if c:
                clos = c[0]
            elif a.is_const() and a.c and "closure" in a.c:
                clos = a.c["closure"]
        if clos is None:
            ctx.violation("P5", "closure|" + b.short, "cannot identify the closure given to ParallelIterator::map in %s (fail closed)" % b.short, loc_str(t.span))
            continue
        reach = prog.reachable_bodies([clos])
        regions.append((b, t, clos, reach))
        region_bodies |= reach
        bad = []
        for rb, rt in all_calls(prog, reach):
            nm = rt.callee.short
            if any(nm.startswith(h) for h in HIDDEN_INPUT_PREFIXES):
                bad.append((rb, rt))
        key = "region|" + b.short
        if bad:
            for rb, rt in bad:
                ctx.violation("P5", key + "|" + rt.callee.short, "per-item code of the parallel region in %s reaches hidden input %s (in %s)" % (b.short, rt.callee.short, rb.short), loc_str(rt.span))
        else:
            ctx.ok("P5", key, "parallel region in %s: closure %s + %d reachable bodies call no hidden-input source" % (b.short, short(clos), len(reach)), loc_str(t.span))
        caps = prog.items[clos].get("captures", [])
        for c in caps:
            k = c["kind"]
            okc = "Mutable" not in k and "UniqueImmutable" not in k and "&mut" not in c["ty"]
            ctx.require(okc, "P5", "capture|%s|%s" % (b.short, c["name"]), "capture `%s`: %s by %s" % (c["name"], c["ty"], k), "mutable capture `%s`: %s by %s in a parallel closure" % (c["name"], c["ty"], k), loc_str(t.span))
        # writes performed by the region through its environment / arguments
        w = [x for x in effects.summaries().get(clos, ()) if x[0] == 1]
        ctx.require(not w, "P5", "envwrite|" + b.short, "parallel closure writes nothing through its environment", "parallel closure writes through its environment: %s" % sorted(w, key=str)[:3], loc_str(t.span))
    ctx.floor("P5", "parallel_regions", len(regions), 2)

    thread_count_arms(ctx, prog, flows, "P5", "P6")

    # ------------------------------------------------------------------ P7 hash order
    ctx.rule("P7", "no hash-order-sensitive sink over a RandomState container inside a parallel region; after the join only collect-into-map (and the documented set-like Vec of get_all_shortest_paths_involving)")
    sites = hashord.find_sites(prog, flows, effects, bodies=region_bodies)
    n_in = 0
    for s in sites:
        n_in += 1
        w = s.worst()
        key = "region|" + s.key()
        if s.random and w != "SAFE":
            ctx.violation("P7", key, "hash-order-sensitive (%s) consumer of a RandomState container inside a parallel region: %s" % (w, [x[2] for x in s.consumers][:2]), loc_str(s.create.span))
        else:
            ctx.ok("P7", key, "%s iteration in parallel region is %s (%s)" % ("RandomState" if s.random else "nohash (deterministic)", w, s.body.short), loc_str(s.create.span))
    roots = []
    for suffix in PUBLIC5:
        roots.append(prog.one(suffix))
    post_bodies = set()
    for r in roots:
        post_bodies.add(r.path)
        for c in prog.closures_of(r.path):
            if c.path not in region_bodies:
                post_bodies.add(c.path)
    # helper bodies that run after the join on the caller's thread
    for sfx in ("dijkstra::convert_shortest_path_info_vec_to_t_map", "dijkstra::convert_shortest_path_info_index_to_t", "betweenness::rescale", "betweenness::accumulate_betweenness", "betweenness::get_scale"):
        for x in prog.find(sfx):
            post_bodies.add(x.path)
            for c in prog.closures_of(x.path):
                post_bodies.add(c.path)
    for s in hashord.find_sites(prog, flows, effects, bodies=post_bodies):
        w = s.worst()
        key = "post|" + s.key()
        if not s.random or w == "SAFE":
            ctx.ok("P7", key, "post-join hash iteration in %s is %s" % (s.body.short, w), loc_str(s.create.span))
        elif "get_all_shortest_paths_involving" in s.body.short and w == "ORDER":
            ctx.ok("P7", key, "get_all_shortest_paths_involving returns a Vec in map order: the statement compares entries as a set", loc_str(s.create.span))
        else:
            ctx.violation("P7", key, "post-join %s sink over RandomState container in %s: %s" % (w, s.body.short, [x[2] for x in s.consumers][:2]), loc_str(s.create.span))
    ctx.counters["bodies_in_parallel_regions"] = len(region_bodies)
    ctx.counters["hash_sites_in_regions"] = n_in
    ctx.floor("P7", "bodies_in_parallel_regions", len(region_bodies), 8)


def thread_count_arms(ctx, prog, flows, rid5, rid6):
    """the branches that depend on rayon::current_num_threads(): the count flows only into conditions (rid5) and both
    arms of every such branch are siblings (rid6).  Shared with C17 (same answer under every thread count)."""
    tc_switches = []
    # thread count flows only into branch conditions
    for b, t in all_calls(prog):
        if t.callee.short != "rayon::current_num_threads":
            continue
        tainted = {t.dest.local}
        changed = True
        bad_use = []
        while changed:
            changed = False
            for s in b.stmts():
                if s.k != "assign":
                    continue
                used = any(o.place is not None and o.place.local in tainted for o in s.rv.ops) or (s.rv.place is not None and s.rv.place.local in tainted)
                if used and s.lhs.local not in tainted:
                    if s.lhs.proj or s.lhs.local == 0:
                        bad_use.append(s)
                    tainted.add(s.lhs.local)
                    changed = True
        for t2 in b.calls():
            if any(a.place is not None and a.place.local in tainted for a in t2.args):
                bad_use.append(t2)
        sw = [blk.i for blk in b.normal_blocks() if blk.term.k == "switch" and blk.term.discr.place is not None and blk.term.discr.place.local in tainted]
        # control-dependent data: locals assigned under those switches that are themselves bools
        # feeding later switches (the `&&` lowering): follow one level of control-to-data
        extra = True
        while extra:
            extra = False
            cd = b.control_deps()
            for blk in b.normal_blocks():
                if any(a in sw for (a, s_) in cd.get(blk.i, ())):
                    for s in blk.stmts:
                        if s.k == "assign" and not s.lhs.proj and b.local_ty(s.lhs.local) == "bool" and s.lhs.local not in tainted and s.rv.k == "use" and s.rv.ops and s.rv.ops[0].is_const():
                            tainted.add(s.lhs.local)
                            extra = True
            changed = True
            while changed:
                changed = False
                for s in b.stmts():
                    if s.k == "assign" and s.rv.k == "use" and s.rv.ops[0].place is not None and s.rv.ops[0].place.local in tainted and s.lhs.local not in tainted and not s.lhs.proj:
                        tainted.add(s.lhs.local)
                        changed = True
            sw2 = [blk.i for blk in b.normal_blocks() if blk.term.k == "switch" and blk.term.discr.place is not None and blk.term.discr.place.local in tainted]
            if set(sw2) != set(sw):
                sw = sw2
                extra = True
        key = "threadcount|" + b.short
        ctx.require(not bad_use, rid5, key, "current_num_threads() in %s flows only into branch conditions (%d switches)" % (b.short, len(sw)), "current_num_threads() in %s flows into a value: %s" % (b.short, [repr(x)[:80] for x in bad_use[:3]]), loc_str(t.span))
        tc_switches.append((b, sw))

    # ------------------------------------------------------------------ P6 serial and parallel arms are siblings
    ctx.rule(rid6, "both arms of every thread-count-dependent branch call the same crate functions with same-provenance arguments under the same option tests")
    n_pairs = 0
    for b, sws in tc_switches:
        for sw in sws:
            blk = b.blocks[sw]
            succs = b.succ(sw)
            if len(succs) != 2:
                continue
            arms = [arm_blocks(b, sw, s) for s in succs]
            feats = [sibling_features(flows, b.path, b, blocks=a) for a in arms]
            if not feats[0] and not feats[1]:
                continue  # the `&&` short-circuit switch: no work on either arm
            n_pairs += 1
            key = "arms|%s" % b.short
            ok, why = compare_features(flows, feats[0], feats[1])
            site = loc_str(blk.term.span)
            if ok:
                ctx.ok(rid6, key, "serial/parallel arms of %s agree: %s" % (b.short, "; ".join(sorted(fmt_feature(f) for f in feats[0]))[:300]), site)
            else:
                ctx.violation(rid6, key, "serial and parallel arms of %s differ: %s" % (b.short, why), site)
    ctx.floor(rid6, "thread_count_branches", n_pairs, 2)



def compare_features(flows, A, B, depth=0):
    if A == B:
        return True, ""
    da = sorted(A - B, key=str)
    db = sorted(B - A, key=str)
    # try pairing differing callees with identical argument provenance: they must be sibling bodies
    if len(da) == len(db) and depth < 2:
        rem = list(db)
        allok = True
        whys = []
        for fa in da:
            match = None
            for fb in rem:
                if fa[1] == fb[1] and fa[2] == fb[2] and fa[3:] == fb[3:] and fa[0] != fb[0]:
                    match = fb
                    break
            if match is None:
                allok = False
                break
            rem.remove(match)
            pa = [b for b in flows.prog.bodies.values() if b.short == fa[0]]
            pb = [b for b in flows.prog.bodies.values() if b.short == match[0]]
            if len(pa) != 1 or len(pb) != 1:
                allok = False
                break
            fa_feats = sibling_features(flows, pa[0].path, pa[0])
            fb_feats = sibling_features(flows, pb[0].path, pb[0])
            ok, why = compare_features(flows, fa_feats, fb_feats, depth + 1)
            if not ok:
                allok = False
                whys.append("paired builders %s / %s differ: %s" % (fa[0].split("::")[-1], match[0].split("::")[-1], why))
                break
        if allok:
            return True, ""
        if whys:
            return False, "; ".join(whys)
    return False, "only in one arm: %s | only in the other: %s" % ([fmt_feature(f) for f in da][:4], [fmt_feature(f) for f in db][:4])


def run_once(ctx):
    """tier-dependent extras that are not per-config"""
    if ctx.tier != "thorough":
        ctx.note("P2 (compile-fail witnesses) and the rustc -F unsafe_code cross-check run in the thorough tier")
        return
    import witness

    witness.run_witnesses(ctx, "P2", ["C07"])
    witness.unsafe_lint_crosscheck(ctx, "P1")
