"""C18 -- eigenvector centrality: the convergence contract only."""
from core import ASSUME_RUSTC, ASSUME_PATHS
from engines import errorkind_sites
from flow import Flows, L, fmt_desc, desc_mentions
from guard import ok_producers
from hashord import natural_loop_blocks
import panic
from props.c01 import controlling_atoms
from mir import loc_str, short

LEVEL = "other"
EXPLANATION = (
    "Decides ONE clause of C18 for all inputs: eigenvector_centrality returns Ok only under the convergence test, otherwise "
    "PowerIterationFailedConvergence -- never a non-converged vector.  R-C18-1: every Ok(..) is control-dependent on the TRUE edge of a "
    "strict/non-strict `<` comparison whose operands depend on the tolerance parameter and on a sum of absolute differences between "
    "the current and the previous iterate; it lies inside the loop whose bound depends on max_iter; the only other exit of the "
    "function builds ErrorKind::PowerIterationFailedConvergence and is reached through the loop's exhaustion edge; the normalisation "
    "(sqrt of a sum, division of every entry) dominates the convergence test, so the vector that is returned is the normalised one.  "
    "R-C18-2: the function (and its closures) never reads the raw by-index adjacency lists, whose entries are per-pair cache values "
    "(an undirected self-loop is listed twice), so the matrix it iterates is the one of the stored edges.  "
    "R-C18-3 holds in both directions (constant => unweighted or NaN; stored weight => weighted and a number).  R-C18-6: the Ok payload is the map the normalising division writes into.  NOT decided: unit norm, non-negativity, fixed-point quality (numerical)."
)
TRUSTED = ["rustc MIR construction", "over-approximated dependence"]


def run(ctx):
    prog = ctx.prog
    flows = Flows(prog)
    ctx.assume(ASSUME_RUSTC)
    ctx.assume(ASSUME_PATHS)
    b = prog.one("eigenvector::eigenvector_centrality")
    fl = flows.of(b)
    ctx.rule("R-C18-1", "Ok only under the tolerance test inside the max_iter-bounded loop; exhaustion returns PowerIterationFailedConvergence; result is normalised")
    tol = b.param_local("tolerance")
    mit = b.param_local("max_iter")
    if tol is None or mit is None:
        ctx.anchor_lost("R-C18-1", "parameters tolerance / max_iter")
        return
    prods = [(bb, w, s) for (bb, w, s) in (ok_producers(b) or []) if w == "Ok(..)"]
    if not ctx.floor("R-C18-1", "ok_returns", len(prods), 1):
        return
    # the outer loop: header = next() over a range that depends on max_iter
    loops = []
    for t in b.calls():
        if t.callee and t.callee.short == "std::iter::Iterator::next":
            lb = natural_loop_blocks(b, t.bb)
            if len(lb) > 1:
                sl = fl.slice_local(fl._op_reads(t.args[0]), data_only=True)
                loops.append((t, lb, L(mit) in sl))
    outer = [x for x in loops if x[2]]
    ctx.require(len(outer) == 1, "R-C18-1", "bounded-loop", "the power iteration is a loop whose range depends on max_iter", "no loop bounded by max_iter found (%d loops, %d depending on max_iter)" % (len(loops), len(outer)), loc_str(b.span))
    if len(outer) != 1:
        return
    hdr, lblocks, _ = outer[0]
    for (bb, w, s) in prods:
        atoms = controlling_atoms(fl, bb)
        conv = None
        for (t, v, a) in atoms:
            if isinstance(t, tuple) and t[0] == "binop" and t[1] in ("Lt", "Le", "Gt", "Ge"):
                sl = fl.slice_local(fl.atom_reads(a), data_only=True)
                dep_tol = L(tol) in sl
                cal = {b.blocks[n[1]].term.callee.short.split("::")[-1] for n in sl if n[0] == "CALL" and b.blocks[n[1]].term.callee}
                dep_diff = "sum" in cal and any(n[0] == "CLOS" for n in sl)
                if dep_tol and dep_diff:
                    # direction: diff < bound  (Lt(diff, bound) true, or Gt(bound, diff) true, ...)
                    x, y = t[2], t[3]
                    conv = (t[1], v, a)
        key = "ok-under-test"
        if conv is None:
            ctx.violation("R-C18-1", key, "an Ok(..) return is not conditional on a comparison of the iterate difference with the tolerance: a non-converged vector can be returned", loc_str(s.span))
            continue
        op, val, a = conv
        # polarity: which operand is the difference?
        d = fl.atom_def(a)
        while d is not None and getattr(d, "rv", None) is not None and d.rv.k == "use" and d.rv.ops[0].place is not None and not d.rv.ops[0].place.proj:
            d = fl.single_def(d.rv.ops[0].place.local)
        lhs_diff = None
        if d is not None and getattr(d, "rv", None) is not None and d.rv.k == "binop":
            s0 = fl.slice_local(fl._op_reads(d.rv.ops[0]), data_only=True)
            s1 = fl.slice_local(fl._op_reads(d.rv.ops[1]), data_only=True)
            lhs_diff = (L(tol) not in s0) and (L(tol) in s1)
            rhs_diff = (L(tol) in s0) and (L(tol) not in s1)
            if not lhs_diff and not rhs_diff:
                lhs_diff = None
        if lhs_diff is None:
            ctx.undecided("R-C18-1", key, "convergence comparison found but operand roles not recognised", loc_str(fl.atom_span(a)))
        else:
            def is_good(v_):
                return (lhs_diff and ((op in ("Lt", "Le") and v_ is True) or (op in ("Gt", "Ge") and v_ is False))) or ((not lhs_diff) and ((op in ("Gt", "Ge") and v_ is True) or (op in ("Lt", "Le") and v_ is False)))

            good = is_good(val)
            # ... and on EVERY path: with the "converged" edge of that comparison deleted, the Ok(..) must be unreachable
            # (`if diff < bound || last_iteration { return Ok(x) }` has another way in)
            if good and not isinstance(a, tuple):
                at_ = fl.atom(a)
                conv_succ = at_["otherwise"] if is_good(True) else dict(at_["targets"]).get(0)
                neg_ = False
                tt_ = at_["test"]
                while isinstance(tt_, tuple) and tt_[0] == "unop" and tt_[1] == "Not":
                    neg_ = not neg_
                    tt_ = tt_[2]
                if neg_:
                    conv_succ = dict(at_["targets"]).get(0) if is_good(True) else at_["otherwise"]
                if conv_succ is not None and bb in b.reach_avoiding_edges([(a, conv_succ)]):
                    good = False
            ctx.require(good, "R-C18-1", key, "Ok(..) is returned only when difference < tolerance-derived bound", "Ok(..) can be returned when the difference is NOT below the bound (comparison %s; a path into the return avoids its converged edge)" % op, loc_str(s.span))
        ctx.require(bb in lblocks or any(b.dominates(x, bb) for x in lblocks if x == hdr.bb), "R-C18-1", "ok-in-loop", "the Ok(..) return is inside the bounded loop", "an Ok(..) return lies outside the iteration loop", loc_str(s.span))
        # normalisation dominates the test
        sq = [t for t in b.calls() if t.callee and t.callee.short.endswith("f64::sqrt") and t.bb in lblocks]
        dv = []
        for t in b.calls():
            if t.bb in lblocks and t.callee and t.callee.short.split("::")[-1] in ("for_each", "map", "fold") :
                for a_ in t.args:
                    if a_.place is not None and a_.place.local in fl.closure_locals:
                        cb = prog.bodies[fl.closure_locals[a_.place.local]]
                        if any(st.k == "assign" and st.rv.k == "binop" and st.rv.j["op"] == "Div" for st in cb.stmts()):
                            dv.append(t)
        # the same division written as a plain loop in the function body
        dvb = [st.bb for st in b.stmts() if st.bb in lblocks and st.k == "assign" and st.rv.k == "binop" and st.rv.j["op"] == "Div" and st.rv.ty == "f64"]
        ab = fl.atom_block(a)
        # a division inside an inner loop does not dominate the test (the loop may run zero times); what matters is
        # that within one iteration of the outer loop it comes BEFORE the test and never after it
        before = [x for x in dvb if ab in b.reachable_from(x, avoid=(hdr.bb,)) and x not in b.reachable_from(ab, avoid=(hdr.bb,))]
        okn = bool(sq) and (bool(dv) or bool(before)) and all(b.dominates(t.bb, ab) for t in sq[:1] + dv[:1]) and (bool(dv) or len(before) == len(dvb))
        ctx.require(okn, "R-C18-1", "normalised", "sqrt-of-sum normalisation and the division of every entry dominate the convergence test", "the returned vector is not (always) normalised before the convergence test (sqrt calls %d, dividing passes %d)" % (len(sq), len(dv)), loc_str(s.span))
    # the other exit
    kinds = errorkind_sites(b)
    pf = [(bb, s) for (bb, s, v) in kinds if v == "PowerIterationFailedConvergence"]
    ctx.require(len(pf) == 1, "R-C18-1", "failure-kind", "exhaustion builds ErrorKind::PowerIterationFailedConvergence", "PowerIterationFailedConvergence is built %d times" % len(pf), loc_str(b.span))
    if pf:
        ebb = pf[0][0]
        # reachable only by leaving the loop through the header's None edge
        exits = [(x, s_) for x in lblocks for s_ in b.succ(x) if s_ not in lblocks]
        via = [e for e in exits if ebb in b.reachable_from(e[1])]
        sw_after_hdr = hdr.target
        ok = bool(via) and all(x == sw_after_hdr for (x, s_) in via)
        ctx.require(ok, "R-C18-1", "failure-on-exhaustion", "the failure exit is reached only when the iterator over 0..max_iter is exhausted", "the failure exit can be reached from inside an iteration (%s)" % via, loc_str(pf[0][1].span))
    # every non-Ok, non-failure return? (none expected)
    errs = [v for (bb, s, v) in kinds if v != "PowerIterationFailedConvergence" and v != "WrongMethod"]
    ctx.require(not errs, "R-C18-1", "no-other-kinds", "no other error kind is built", "other error kinds: %s" % errs, loc_str(b.span))


    # ------------------------------------------------------------------ R-C18-2
    ctx.rule("R-C18-2", "the iteration multiplies by the adjacency matrix of the STORED edges: eigenvector_centrality does not read the raw by-index adjacency lists")
    acc = {prog.one("query::Graph::get_successor_nodes_by_index").path, prog.one("query::Graph::get_predecessor_nodes_by_index").path}
    bad = []
    srcs = set()
    for cb in [b] + prog.closures_of(b.path):
        for t in cb.calls():
            tp = t.callee.target_path(prog) if t.callee else None
            if tp in acc:
                bad.append(loc_str(t.span))
            if tp:
                srcs.add(short(tp).split("::")[-1])
        for st in cb.stmts():
            if st.k == "assign" and st.rv.place is not None and any(isinstance(e, dict) and e.get("f") in ("successors_vec", "predecessors_vec") for e in st.rv.place.proj):
                bad.append(loc_str(st.span))
    ctx.require(not bad, "R-C18-2", "matrix-source", "neighbours and weights come from the de-duplicated neighbour API and the edge store (%s)" % sorted(srcs & {"get_successors_or_neighbors", "get_edge", "get_edges", "get_all_edges", "get_neighbor_nodes", "get_successor_nodes", "get_sparse_adjacency_matrix"}), "eigenvector_centrality walks the raw adjacency list at %s: that list repeats a neighbour for an undirected self-loop and holds one policy weight per pair, so the matrix entry becomes 2w (or the minimum of parallel weights) instead of the stored edge's weight" % bad[:2], loc_str(b.span))

    # ------------------------------------------------------------------ R-C18-3
    # R-C18-5: "normalise" means: divide by the Euclidean norm.  The norm may be replaced by a constant only when it is
    # zero; flooring / capping it (max, min, clamp) leaves vectors of norm below the floor un-normalised
    ctx.rule("R-C18-5", "the divisor of the normalisation step is the norm itself (sqrt of the sum of squares), not passed through max / min / clamp")
    ec5 = prog.one("eigenvector::eigenvector_centrality")
    n5 = 0
    for b5 in [ec5] + list(prog.closures_of(ec5.path)):
        f5 = flows.of(b5)
        for st5 in b5.stmts():
            if st5.k == "assign" and st5.rv.k == "binop" and st5.rv.j["op"] == "Div" and (st5.rv.ops[1].place is not None and st5.rv.ops[1].place.ty == "f64"):
                sl5 = flows.slice(b5.path, f5._op_reads(st5.rv.ops[1]), up=True, down=False, data_only=True, roots=(ec5.path,))
                cal5 = set()
                for (bp5, nd5) in sl5:
                    if nd5[0] == "CALL":
                        t5 = prog.bodies[bp5].blocks[nd5[1]].term
                        if t5.callee:
                            cal5.add(t5.callee.short.split("::")[-1])
                if "sqrt" not in cal5:
                    continue
                n5 += 1
                lim5 = sorted(cal5 & {"max", "min", "clamp", "floor", "ceil", "round", "abs", "recip"})
                ctx.require(not lim5, "R-C18-5", "norm|%s" % b5.short.split("::{closure")[0], "the vector is divided by sqrt(sum of squares)", "the divisor of the normalisation passes through %s: a vector whose norm lies on the other side of that bound is returned un-normalised (norm != 1), and the convergence test then compares un-normalised vectors" % lim5, loc_str(st5.span))
    ctx.floor("R-C18-5", "normalising_divisions", n5, 1)
    # R-C18-7: "the sum of |x - xlast|": the absolute value is taken of EVERY difference, inside what is summed.  Taken of
    # the sum instead, differences of opposite sign cancel: the test passes as soon as the entry SUM stands still,
    # however much centrality still moves between the nodes.
    ctx.rule("R-C18-7", "the convergence measure sums absolute differences: abs is applied to each term, not to the sum")
    from engines import mapped_closure_of

    fe7 = flows.of(ec5)
    n7 = 0
    for t7 in ec5.calls():
        if not (t7.callee and t7.callee.short.split("::")[-1] in ("sum", "fold") and t7.dest.ty == "f64"):
            continue
        cp7 = mapped_closure_of(fe7, t7)
        if cp7 is None or cp7 not in prog.bodies:
            continue
        cb7 = prog.bodies[cp7]
        cf7 = flows.of(cb7)
        # the difference closure: subtracts a looked-up previous value
        subs7 = [s_ for s_ in cb7.stmts() if s_.k == "assign" and s_.rv.k == "binop" and s_.rv.j["op"] == "Sub" and s_.lhs.ty == "f64"]
        subs7 += [t_ for t_ in cb7.calls() if t_.callee and t_.callee.short.split("::")[-1] == "sub" and "f64" in t_.dest.ty]
        if not subs7:
            continue
        n7 += 1
        names7 = {cb7.blocks[n_[1]].term.callee.short.split("::")[-1] for n_ in cf7.slice_local([L(0)], data_only=True) if n_[0] == "CALL" and cb7.blocks[n_[1]].term.callee}
        ctx.require("abs" in names7, "R-C18-7", "abs-per-term|%d" % n7, "each summed term is an absolute difference", "the terms summed by the convergence measure are signed differences (no abs inside the summed closure): positive and negative changes cancel, so the iteration is declared converged while centrality still moves between nodes -- the returned vector is not an approximate fixed point", loc_str(t7.span))
    ctx.counters["convergence_sums"] = n7
    # ... and the norm is replaced by a constant ONLY when it is zero: a constant definition of an f64 variable that is
    # compared with 0 sits on the `== 0` outcome of that comparison
    from props.c01 import controlling_atoms as _ca5

    f5r = flows.of(ec5)
    for l5 in ec5.locals:
        if l5["ty"] != "f64" or not l5["name"] or l5["i"] <= ec5.arg_count:
            continue
        defs5 = ec5.assigns_to(l5["i"])
        if len(defs5) < 2 or not any(n_[0] == "CALL" and ec5.blocks[n_[1]].term.callee and ec5.blocks[n_[1]].term.callee.short.endswith("f64::sqrt") for n_ in f5r.slice_local([L(l5["i"])], data_only=True)):
            continue
        cdefs5 = []
        for (bb5, d5) in defs5:
            rv5 = getattr(d5, "rv", None)
            if rv5 is None or rv5.k != "use" or not rv5.ops:
                continue
            if rv5.ops[0].is_const():
                cdefs5.append((bb5, d5))
            elif rv5.ops[0].place is not None and not rv5.ops[0].place.proj and ec5.local_name(rv5.ops[0].place.local) is None:
                # `norm = match .. { true => 1.0, false => norm }`: the arms assign a temporary
                for (bb6, d6) in ec5.assigns_to(rv5.ops[0].place.local):
                    rv6 = getattr(d6, "rv", None)
                    if rv6 is not None and rv6.k == "use" and rv6.ops and rv6.ops[0].is_const():
                        cdefs5.append((bb6, d6))
        for (bb5, d5) in cdefs5:
            zero_arm = None
            for (te5, v5, a5) in _ca5(f5r, bb5):
                if isinstance(te5, tuple) and te5[0] == "binop" and te5[1] in ("Eq", "Ne") and desc_mentions(te5, lambda x: x[0] == "place" and x[1] == l5["name"]) and desc_mentions(te5, lambda x: x[0] == "const" and x[1].replace("const ", "").startswith("0")):
                    zero_arm = (te5[1] == "Eq") == bool(v5)
            if zero_arm is not None:
                ctx.require(zero_arm, "R-C18-5", "zero-norm-only|%s" % l5["name"], "`%s` is replaced by a constant only when it is zero" % l5["name"],
                            "`%s` is replaced by a constant on the outcome on which it is NOT zero: every non-zero vector is divided by that constant instead of by its norm, so the result is not normalised" % l5["name"], loc_str(d5.span))
    # R-C18-6: what is returned is the vector that was just normalised -- not the copy of the previous iterate the
    # convergence test compares it with (that one is un-normalised on the first pass: 1/n per node, norm 1/sqrt(n))
    ctx.rule("R-C18-6", "the Ok payload is the map the normalising division writes into, not a copy taken before the iteration step")
    normalised = set()
    for b6 in [ec5] + list(prog.closures_of(ec5.path)):
        f6 = flows.of(b6)
        for st6 in b6.stmts():
            if not (st6.k == "assign" and st6.rv.k == "binop" and st6.rv.j["op"] == "Div" and st6.lhs.ty == "f64" and st6.lhs.has_deref()):
                continue
            if b6.path == ec5.path:
                for nd6 in f6.slice_local([L(st6.lhs.local)], data_only=True):
                    if nd6[0] == "CALL":
                        t6 = b6.blocks[nd6[1]].term
                        if t6.callee and t6.callee.short.split("::")[-1] in ("values_mut", "iter_mut", "get_mut", "entry", "index_mut") and t6.args:
                            normalised |= {o[1] for o in f6.mut_reach(t6.args[0]) if o[0] == "L"}
            else:
                fp = flows.of(ec5)
                for (pp, s_) in flows.closure_sites(b6.path):
                    if pp != ec5.path:
                        continue
                    cl = fp.copies_of(s_.lhs.local) | {s_.lhs.local}
                    for t6 in ec5.calls():
                        if t6.callee and t6.callee.short.split("::")[-1] in ("for_each", "map", "fold") and any(a.place is not None and a.place.local in cl for a in t6.args[1:]):
                            for nd6 in fp.slice_local(fp._op_reads(t6.args[0]), data_only=True):
                                if nd6[0] == "CALL":
                                    t7 = ec5.blocks[nd6[1]].term
                                    if t7.callee and t7.callee.short.split("::")[-1] in ("values_mut", "iter_mut") and t7.args:
                                        normalised |= {o[1] for o in fp.mut_reach(t7.args[0]) if o[0] == "L"}
    fe6 = flows.of(ec5)
    n6 = 0
    for (bb6, w6, s6) in (ok_producers(ec5) or []):
        if w6 != "Ok(..)" or not s6.rv.ops or s6.rv.ops[0].place is None:
            continue
        n6 += 1
        l6 = s6.rv.ops[0].place.local
        for _ in range(6):
            d6 = fe6.single_def(l6)
            if d6 is not None and getattr(d6, "rv", None) is not None and d6.rv.k == "use" and d6.rv.ops[0].place is not None and not d6.rv.ops[0].place.proj and ec5.local_name(l6) is None:
                l6 = d6.rv.ops[0].place.local
            else:
                break
        if not normalised:
            ctx.undecided("R-C18-6", "payload|%d" % n6, "the map written by the normalising division could not be identified", loc_str(s6.span))
            continue
        ctx.require(l6 in normalised, "R-C18-6", "payload|%d" % n6, "Ok(%s) returns the normalised map" % (ec5.local_name(l6) or "_%d" % l6),
                    "eigenvector_centrality returns `%s`, which is not the map the normalisation writes into (%s): when the test passes on the first pass the start vector (1/n per node) is returned, whose Euclidean norm is 1/sqrt(n), not 1" % (ec5.local_name(l6) or "_%d" % l6, sorted(ec5.local_name(x) or "_%d" % x for x in normalised)), loc_str(s6.span))
    ctx.floor("R-C18-6", "ok_payloads", n6, 1)
    # R-C18-4: the iteration walks the index-keyed adjacency maps (get_successors_or_neighbors); an entry of those maps
    # must never be replaced by a fresh one for a node that already has edges
    from graphrules import adjacency_entries_only_for_new_nodes

    adjacency_entries_only_for_new_nodes(ctx, prog, flows, "R-C18-4", "so the power iteration runs on a matrix that lacks the edges of `%s` for that node and converges to the eigenvector of another graph")
    # R-C18-8 (shared with R-C02-3): the weighted iteration reads an edge's weight with get_edge(u, v); it is the weight
    # of THE stored edge only if add_edge and the lookups canonicalise the pair alike (otherwise a re-added pair is
    # stored, or tested for, under a second key and the weight read is not the one the dedupe policy kept)
    from props.c02 import key_discipline

    ae8 = prog.one("creation::Graph::add_edge")
    only8 = set(prog.reachable_bodies([ae8.path])) | set(prog.reachable_bodies([b.path]))
    key_discipline(ctx, prog, flows, "R-C18-8", only8, 2, 2, why=" -- restricted to add_edge and to what eigenvector_centrality calls: the matrix entry is the weight found by get_edge")
    ctx.rule("R-C18-3", "the matrix entry of an edge is its stored weight; it is replaced by 1 only when the call is unweighted or the weight is NaN")
    n_w = 0
    for cb in [b] + prog.closures_of(b.path):
        cfl = flows.of(cb)
        muls = [(st, st.rv.ops) for st in cb.stmts() if st.k == "assign" and st.rv.k == "binop" and st.rv.j["op"] == "Mul" and st.rv.ty == "f64"]
        muls += [(t, t.args) for t in cb.calls() if t.callee and t.callee.short.endswith("ops::Mul::mul") and "f64" in t.dest.ty]
        for (st, ops_) in muls:
            # the factor that is not the previous iterate
            cand = []
            for o in ops_:
                if o.place is None or o.place.proj:
                    continue
                wl_ = o.place.local
                for _ in range(5):
                    d1 = cb.assigns_to(wl_)
                    if len(d1) == 1 and getattr(d1[0][1], "rv", None) is not None and d1[0][1].rv.k == "use" and d1[0][1].rv.ops[0].place is not None and not d1[0][1].rv.ops[0].place.proj:
                        wl_ = d1[0][1].rv.ops[0].place.local
                    else:
                        break
                defs = cb.assigns_to(wl_)
                rd = [d for (dbb, d) in defs if getattr(d, "rv", None) is not None and d.rv.k == "use" and d.rv.ops[0].place is not None and d.rv.ops[0].place.fields()[-1:] == ["weight"]]
                if rd:
                    cand.append((wl_, defs))
            for (wl, defs) in cand:
                n_w += 1
                import pathsens

                kinds = []
                for (dbb, d) in defs:
                    rv = getattr(d, "rv", None)
                    dsc = panic.norm(cfl.describe_def(d, depth=6)) if rv is not None else ("call",)
                    kinds.append("const" if (isinstance(dsc, tuple) and dsc[0] == "const") else ("weight" if (rv is not None and rv.k == "use" and rv.ops[0].place is not None and rv.ops[0].place.fields()[-1:] == ["weight"]) else "other"))
                # path-sensitive: in every abstract state that reaches a constant definition, `weighted` is false
                # or `is_nan(weight)` is true (whatever the boolean expression that selects it looks like)
                ex = pathsens.Explorer(cb, cfl, prog, keep=lambda k: isinstance(k, str) and (k.endswith("weighted") or k.startswith("is_nan(")))
                ex.run()
                bad = []
                for k_, (dbb, d) in zip(kinds, defs):
                    if k_ == "other":
                        bad.append("the factor is also computed as %s" % fmt_desc(panic.norm(cfl.describe_def(d, depth=6)))[:80])
                    if k_ == "const":
                        states = ex.at_block.get(dbb, set())
                        if ex.truncated or not states:
                            bad.append("the condition under which the weight is replaced by a constant could not be evaluated")
                        for (facts, marks) in states:
                            fd = dict(facts)
                            unw = any(k.endswith("weighted") and v is False for k, v in fd.items() if isinstance(k, str))
                            nan = any(k.startswith("is_nan(") and "weight" in k and v is True for k, v in fd.items() if isinstance(k, str))
                            if not (unw or nan):
                                bad.append("the weight is replaced by a constant on a path where the call is weighted and the weight is not known to be NaN (known: %s)" % sorted((str(k), v) for k, v in fd.items()))
                    if k_ == "weight":
                        # ... and conversely: the stored weight is the factor only when the call IS weighted and the
                        # weight is a number ("edge weights are ignored when weighted == false")
                        states = ex.at_block.get(dbb, set())
                        if ex.truncated or not states:
                            bad.append("the condition under which the stored weight is used could not be evaluated")
                        for (facts, marks) in states:
                            fd = dict(facts)
                            unw = any(k.endswith("weighted") and v is False for k, v in fd.items() if isinstance(k, str))
                            nan = any(k.startswith("is_nan(") and "weight" in k and v is True for k, v in fd.items() if isinstance(k, str))
                            if unw or nan:
                                bad.append("the stored weight is the factor on a path where %s (known: %s): an unweighted call then iterates with the weighted matrix" % ("the call is unweighted" if unw else "the weight is NaN", sorted((str(k), v) for k, v in fd.items())))
                ctx.require(not bad, "R-C18-3", "weight-factor|%s" % cb.short.split("::{closure")[0], "the edge factor is edge.weight, or 1 under `!weighted` / `weight.is_nan()` only", "%s: a stored weight that is not NaN (for example 0.0) is not the matrix entry the iteration uses" % "; ".join(sorted(set(bad))[:3]), loc_str(st.span))
    ctx.floor("R-C18-3", "weight_factors", n_w, 1)
