"""C02 -- every read API describes one and the same graph (structural clauses)."""
from core import ASSUME_AT, ASSUME_RUSTC, ASSUME_PATHS
from effects import Effects
from engines import errorkind_sites
from flow import Flows, L, fmt_desc, desc_mentions
from graphrules import INDEX_FIELDS, NODE, EDGE, SUCC, PRED, SLOT_KINDS, index_events, self_param, direct_index_access, field_of
from guard import Guards, check_refusal, ok_producers
import panic
from props.c01 import controlling_atoms
from mir import loc_str, short

LEVEL = "other"
EXPLANATION = (
    "Decides structural clauses of C02.  R-C02-1 who may write: the eleven index fields are private, no reachable function "
    "returns a mutable reference into them, the Graph struct literal appears only in Graph::new, and direct mutable access to an "
    "index field occurs only in the two atomic mutators.  R-C02-2 paired updates: a path-sensitive written-set dataflow over "
    "add_edge shows that on every path to Ok(()) the name-keyed and position-keyed stores of a group are written together (EDGE "
    "both or none; SUCC always, twice on undirected paths; PRED all three exactly on directed paths).  R-C02-3 canonical "
    "orientation: for every keyed access to `edges` (name pairs) the key's VALUE depends on specs.directed and on a comparison of "
    "NAMES and on no comparison of positions, and for every access to `edges_map` on specs.directed and a comparison of POSITIONS "
    "and no name comparison (value slices ignore guards of which only one outcome reaches the access; accesses that can only run "
    "on directed graphs are exempt).  R-C02-4 kind refusals of the query API (table frozen from the statement) guard every "
    "non-error return; every NodeNotFound/EdgeNotFound is conditional on a failed lookup.  R-C02-5 parallel edges are appended "
    "(push) in both stores and read back in list order.  R-C02-10 in add_edge the position-keyed adjacency sets receive, under the same test of specs.directed, the update the name-keyed ones receive (same endpoint as key and as member).  R-C02-11 a node list taken from the raw traversal rows is de-duplicated on every path that returns it.  R-C02-12: breadth_first_search expands a node through its successors on directed graphs.  R-C02-4 also ties the error KIND to the store of the failed lookup (NodeNotFound: node stores; EdgeNotFound: edge stores).  NOT decided: that queries return the right sets (value-level)."
)
TRUSTED = ["rustc MIR construction and privacy checking", "std HashMap/Vec semantics", "over-approximated dependence (absence of dependence is definite)"]

KIND_TABLE = [
    ("query::Graph::get_edge", "multi_edges", True, "multi-edge graphs"),
    ("query::Graph::get_edges", "multi_edges", False, "single-edge graphs"),
    ("query::Graph::get_in_edges_for_node", "directed", False, "undirected graphs"),
    ("query::Graph::get_in_edges_for_nodes", "directed", False, "undirected graphs"),
    ("query::Graph::get_out_edges_for_node", "directed", False, "undirected graphs"),
    ("query::Graph::get_out_edges_for_nodes", "directed", False, "undirected graphs"),
    ("query::Graph::get_predecessor_nodes", "directed", False, "undirected graphs"),
    ("query::Graph::get_predecessor_node_names", "directed", False, "undirected graphs"),
    ("query::Graph::get_successor_nodes", "directed", False, "undirected graphs"),
    ("query::Graph::get_successor_node_names", "directed", False, "undirected graphs"),
    ("degree::Graph::get_in_degree_for_all_nodes", "directed", False, "undirected graphs"),
    ("degree::Graph::get_out_degree_for_all_nodes", "directed", False, "undirected graphs"),
    ("degree::Graph::get_weighted_in_degree_for_all_nodes", "directed", False, "undirected graphs"),
    ("degree::Graph::get_weighted_out_degree_for_all_nodes", "directed", False, "undirected graphs"),
]

KEYED = ("HashMap::get", "HashMap::insert", "HashMap::entry", "HashMap::contains_key", "HashMap::remove", "HashMap::get_mut")


def run(ctx):
    prog = ctx.prog
    flows = Flows(prog)
    effects = Effects(prog, flows)
    for a in (ASSUME_AT, ASSUME_RUSTC, ASSUME_PATHS):
        ctx.assume(a)
    ctx.assume("histories consist of the public add_*/constructor calls; the public `specs` field is not mutated by the caller after construction")
    rule1(ctx, prog, flows, effects)
    rule2(ctx, prog, flows, effects)
    rule3(ctx, prog, flows)
    rule4(ctx, prog, flows)
    rule5(ctx, prog, flows, effects)
    rule6(ctx, prog, flows)
    rule7(ctx, prog, flows)
    rule11(ctx, prog, flows)
    rule13(ctx, prog, flows)
    rule15(ctx, prog, flows)
    rule14(ctx, prog, flows)
    rule16(ctx, prog, flows)
    from props.c10 import bfs_expansion

    bfs_expansion(ctx, prog, flows, "R-C02-12", "on a directed graph the search then lists nodes that no chain of get_successor_nodes steps reaches: breadth_first_search disagrees with the successor queries and with the stored edges' direction")
    from graphrules import no_edge_identity_collections

    no_edge_identity_collections(ctx, prog, "R-C02-9", ("graph::",), "on a multi-edge graph not all parallel edges are retrievable through this query, and it disagrees with get_all_edges()")
    from graphrules import adjacency_name_maps_only_keyed

    adjacency_name_maps_only_keyed(ctx, prog, flows, "R-C02-8", ("graph::query", "graph::degree", "graph::convert", "graph::subgraph", "graph::density", "graph::ensure", "graph::matrix"),
                                   "so a query that enumerates them answers from a different node list than get_all_nodes()", floor=2)


# ---------------------------------------------------------------------------------------- R-C02-1


def rule1(ctx, prog, flows, effects):
    ctx.rule("R-C02-1", "index fields are private, never handed out mutably, built only in Graph::new, and mutated directly only by the atomic mutators")
    g = prog.adts.get("graph::Graph")
    if not g:
        ctx.anchor_lost("R-C02-1", "struct graph::Graph")
        return
    fields = {f["name"]: f for f in g["variants"][0]["fields"]}
    for f in INDEX_FIELDS:
        if f not in fields:
            ctx.anchor_lost("R-C02-1", "Graph field " + f)
            continue
        ctx.require(not fields[f]["pub"], "R-C02-1", "private|" + f, "Graph.%s is private" % f, "Graph.%s is public: any caller can desynchronise the indexes" % f)
    new_fields = [f for f in fields if f not in INDEX_FIELDS and f != "specs"]
    for f in new_fields:
        ctx.violation("R-C02-1", "unknown-field|" + f, "Graph has a field `%s` that the index-consistency rules do not know (fail closed)" % f)
    allowed = {prog.one("creation::Graph::add_edge").path, prog.one("creation::Graph::add_node").path}
    direct = direct_index_access(prog)
    for p, fs in sorted(direct.items()):
        b = prog.bodies[p]
        ctx.require(p in allowed, "R-C02-1", "direct|" + b.short, "direct mutable access to %s in atomic mutator %s" % (sorted(fs), b.short.split("::")[-1]), "%s takes mutable access to index field(s) %s outside the atomic mutators" % (b.short, sorted(fs)), loc_str(list(fs.values())[0][0].span))
    ctx.floor("R-C02-1", "atomic_mutators_with_direct_access", len([p for p in direct if p in allowed]), 2)
    # struct literal only in new
    lit = []
    for p, b in prog.bodies.items():
        for s in b.stmts():
            if s.k == "assign" and s.rv.k == "aggr" and s.rv.j["ak"] == "adt" and s.rv.j["adt"] == "graph::Graph":
                lit.append((b, s))
    for (b, s) in lit:
        ctx.require(b.short.endswith("creation::Graph::new"), "R-C02-1", "literal|" + b.short, "Graph struct literal in Graph::new (all stores empty)", "Graph struct literal built in %s" % b.short, loc_str(s.span))
    ctx.floor("R-C02-1", "graph_literals", len(lit), 1)
    # no reachable fn returns &mut / a mutable handle into a Graph
    n = 0
    for b in prog.public_fns():
        out = b.item.get("output", "")
        n += 1
        if "&mut" in out or "IterMut" in out or "ValuesMut" in out or "Entry<" in out:
            if any("graph::Graph<" in t for t in b.item.get("inputs", [])):
                ctx.violation("R-C02-1", "mutref|" + b.short, "public %s returns a mutable handle (%s)" % (b.short, out), loc_str(b.span))
    ctx.counters["public_signatures_scanned"] = n
    # writers through parameters: any body whose summary writes an index field of a Graph parameter
    writers = set()
    for p in prog.bodies:
        b = prog.bodies[p]
        if b.kind == "closure":
            continue
        if index_events(effects, b):
            writers.add(b.short.split("::")[-1])
    expected = {"add_edge", "add_node", "add_edges", "add_nodes", "add_edge_tuple", "add_edge_tuples"}
    ctx.require(writers <= expected, "R-C02-1", "writers", "only the add_* methods can write a graph they are handed (%s)" % sorted(writers), "unexpected functions write a graph passed to them: %s" % sorted(writers - expected))


# ---------------------------------------------------------------------------------------- R-C02-2


REAL = {"HashSet::insert", "HashMap::insert", "Vec::push", "assign", "add_to_adjacency_vec"}


def rule2(ctx, prog, flows, effects, rid="R-C02-2"):
    ctx.rule(rid, "add_edge: on every path to Ok the stores of a group are written together (EDGE both/none, SUCC always and twice when undirected, PRED exactly when directed)")
    b = prog.one("creation::Graph::add_edge")
    fl = flows.of(b)
    sp = self_param(b)

    def tag(e):
        (bb, site, obj, kind) = e
        if obj[0] != "P" or obj[1] != sp:
            return None
        f = field_of(obj)
        if f not in INDEX_FIELDS or f in NODE - {"successors_map", "predecessors_map", "successors_vec", "predecessors_vec"}:
            return None
        via = site.callee.short.split("::")[-1] if getattr(site, "k", None) == "call" and site.callee else "assign"
        if via == "add_node":
            return None
        if kind in SLOT_KINDS and via != "add_to_adjacency_vec":
            return None
        return (f, bb)

    IN, OUT = effects.written_sets(b.path, tag)
    n_paths = 0
    bad = []
    shapes = set()
    for (bb, w, s) in ok_producers(b) or []:
        if w != "Ok(..)":
            continue
        for st in IN.get(bb, ()):
            n_paths += 1
            cnt = {}
            for (f, wbb) in st:
                cnt.setdefault(f, set()).add(wbb)
            c = {f: len(v) for f, v in cnt.items()}
            edge = {f for f in EDGE if c.get(f)}
            succ = {f: c.get(f, 0) for f in SUCC}
            pred = {f: c.get(f, 0) for f in PRED}
            shape = None
            if not st:
                shape = "nothing (silent drop)"
            elif edge not in (set(), EDGE):
                bad.append("EDGE group split: only %s written" % sorted(edge))
            elif all(v == 1 for v in succ.values()) and all(v == 1 for v in pred.values()):
                shape = "directed: SUCC x1, PRED x1, EDGE %s" % ("yes" if edge else "no")
            elif all(v == 2 for v in succ.values()) and all(v == 0 for v in pred.values()):
                shape = "undirected: SUCC x2, PRED x0, EDGE %s" % ("yes" if edge else "no")
            else:
                bad.append("adjacency stores out of step: successors %s predecessors %s" % (succ, pred))
            if shape:
                shapes.add(shape)
    ctx.counters["add_edge_ok_path_sets"] = n_paths
    if bad:
        ctx.violation(rid, "add_edge-groups", "add_edge has a success path that updates the redundant stores inconsistently: %s" % sorted(set(bad))[:3], loc_str(b.span))
    else:
        ctx.ok(rid, "add_edge-groups", "all %d per-path written sets at Ok have a consistent shape: %s" % (n_paths, sorted(shapes)), loc_str(b.span))
    ctx.require(any(x.startswith("directed") for x in shapes) and any(x.startswith("undirected") for x in shapes), rid, "both-kinds", "directed and undirected update shapes both occur", "a whole update shape is missing: %s" % sorted(shapes), loc_str(b.span))
    # PRED writes only under specs.directed == true; the doubled SUCC writes only under false
    for (bb, site, f, kind) in index_events(effects, b):
        via = site.callee.short.split("::")[-1] if getattr(site, "k", None) == "call" and site.callee else "assign"
        if via == "add_node":
            continue
        if f in PRED:
            atoms = controlling_atoms(fl, bb)
            ok = any(isinstance(t, tuple) and t[0] == "place" and t[1].endswith("specs.directed") and v is True for (t, v, a) in atoms)
            ctx.require(ok, rid, "pred-directed|%s|%s" % (f, via), "`%s` is written (%s) only when specs.directed" % (f, via), "`%s` is written (%s) without a specs.directed == true test" % (f, via), loc_str(site.span))
    # EDGE writes: name-keyed and position-keyed store get the same kind of write on the same path
    kinds_by_path = {}
    for (bb, site, f, kind) in index_events(effects, b):
        if f in EDGE and kind in ("HashMap::insert", "Vec::push"):
            atoms = tuple(sorted((fmt_desc(t), str(v)) for (t, v, a) in controlling_atoms(fl, bb)))
            kinds_by_path.setdefault(atoms, set()).add((f, kind))
    for atoms, ks in kinds_by_path.items():
        fk = {f: k for (f, k) in ks}
        ok = set(fk) == EDGE and len(set(fk.values())) == 1
        ctx.require(ok, rid, "edge-pair|" + ",".join(sorted("%s:%s" % x for x in ks)), "under the same conditions both edge stores get the same write (%s)" % sorted(ks), "edge stores written differently under the same conditions: %s" % sorted(ks), loc_str(b.span))


# ---------------------------------------------------------------------------------------- R-C02-3


def value_slice(flows, b, fl, site_bb, operand):
    """VALUE dependence of an operand at a site: data dependence plus the control dependence of its
    defining assignments, excluding switches of which only one successor can reach the site"""

    def sw_filter(bp, a):
        if bp != b.path:
            return True
        n = sum(1 for s in b.succ(a) if site_bb in b.reachable_from(s) or s == site_bb)
        return n >= 2

    root = b
    while root.kind == "closure":
        root = flows.prog.bodies[root.item["parent"]]
    # climb out of closures into the enclosing function, but not into its callers; descend into
    # callees' return values (Edge::ordered)
    return flows.slice(b.path, fl._op_reads(operand), up=True, down=True, data_only=False, sw_filter=sw_filter, roots=(root.path,), value_only=True)


def comparison_facts(prog, sl):
    """(names compared?, positions compared?, reads specs.directed?) in a slice"""
    names = pos = directed = False
    where = []
    for (bp, n) in sl:
        b = prog.bodies[bp]
        if n[0] == "CALL":
            t = b.blocks[n[1]].term
            if t.callee:
                nm = t.callee.short
                if nm.split("::")[-1] in ("gt", "lt", "ge", "le", "cmp", "partial_cmp", "max", "min") and ("cmp::PartialOrd" in nm or "cmp::Ord" in nm):
                    aty = t.callee.args[0] if t.callee.args else ""
                    if aty in ("usize", "&usize"):
                        pos = True
                    else:
                        names = True
                        where.append(loc_str(t.span))
        elif n[0] == "SRC":
            if ".".join(f for f in n[2] if f != "*").endswith("specs.directed"):
                directed = True
        elif n[0] == "L":
            for (dbb, d) in b.assigns_to(n[1]):
                rv = getattr(d, "rv", None)
                if rv is not None and rv.k == "binop" and rv.j["op"] in ("Gt", "Lt", "Ge", "Le"):
                    tys = [o.place.ty if o.place is not None else (o.c or {}).get("ty", "") for o in rv.ops]
                    if any(t == "usize" for t in tys):
                        pos = True
                    elif any(t in ("f64", "i32", "bool") for t in tys):
                        pass
                    else:
                        names = True
    return names, pos, directed


def rule3(ctx, prog, flows):
    key_discipline(ctx, prog, flows, "R-C02-3", None, 5, 7)


def key_discipline(ctx, prog, flows, RID, only, floor_e, floor_m, why=""):
    """the key-canonicalisation rule, for all bodies or for the bodies in `only` (other properties
    re-use it for the part of the crate their own clause relies on)"""
    ctx.rule(RID, "keys of `edges` are canonicalised by NAME order and keys of `edges_map` by POSITION order, both depending on specs.directed" + why)
    guards = Guards(prog, flows)
    n_e = n_m = 0
    for p in sorted(prog.bodies):
        if only is not None and p not in only:
            continue
        b = prog.bodies[p]
        fl = flows.of(b)
        for t in b.calls():
            if not t.callee or not any(t.callee.short.endswith(k) for k in KEYED) or len(t.args) < 2:
                continue
            recv = t.args[0]
            if recv.place is None:
                continue
            # which store? resolve the receiver to Graph fields
            stores = set()
            for o in fl._operand_pts(recv):
                f = field_of(o) if o[0] == "P" else None
                if f in ("edges", "edges_map"):
                    stores.add(f)
            if not stores:
                # closures: receiver through an upvar `self`
                fp = fl.field_path(recv.place)
                if fp.endswith(".edges"):
                    stores.add("edges")
                elif fp.endswith(".edges_map"):
                    stores.add("edges_map")
            if not stores:
                continue
            store = sorted(stores)[0]
            if store == "edges_map" and not t.callee.args[0].startswith("usize") and "edges_map" not in fl.field_path(recv.place):
                # inner map of edges_map: receiver type IntMap<usize, Vec<..>> reached through the outer lookup
                pass
            key = t.args[1]
            root = b
            while root.kind == "closure":
                root = prog.bodies[root.item["parent"]]
            keyid = "%s|%s|%s|%s" % (store, b.short, t.callee.short.split("::")[-1], panic.shape_str(panic.norm(fl.describe(key, depth=8))))
            # exemption 1: the access can only run on directed graphs (dominating specs.directed == true,
            # here or at every creation/call site)
            from props.c20 import spec_discharge

            ex = spec_discharge(prog, flows, guards, b, t.bb, "directed", False)
            sl = value_slice(flows, b, fl, t.bb, key)
            names, pos, directed = comparison_facts(prog, sl)
            # exemption 2: the key is built from members of a directed-only store (predecessors*)
            from_pred = any(n[0] == "SRC" and field_of(("P", n[1], n[2])) in PRED for (bp, n) in sl) and not any(n[0] == "SRC" and field_of(("P", n[1], n[2])) in SUCC for (bp, n) in sl)
            if store == "edges":
                n_e += 1
                if ex:
                    ctx.ok(RID, keyid, "access to `edges` runs only on directed graphs (%s): stored orientation is the given one" % ex[:120], loc_str(t.span))
                elif from_pred:
                    ctx.ok(RID, keyid, "key built from members of `predecessors`, a store written only on directed graphs", loc_str(t.span))
                else:
                    ok = names and directed and not pos
                    ctx.require(ok, RID, keyid, "key of `edges` in %s is ordered by a NAME comparison under specs.directed" % b.short.split("::", 2)[-1],
                                "key of `edges` in %s: name comparison=%s, position comparison=%s, depends on specs.directed=%s -- on an undirected graph the pair is looked up under an orientation it is not stored under whenever name order and insertion order differ" % (b.short, names, pos, directed), loc_str(t.span))
            else:
                n_m += 1
                if ex:
                    ctx.ok(RID, keyid, "access to `edges_map` runs only on directed graphs (%s)" % ex[:120], loc_str(t.span))
                else:
                    ok = pos and directed and not names
                    ctx.require(ok, RID, keyid, "key of `edges_map` in %s is ordered by a POSITION comparison under specs.directed" % b.short.split("::", 2)[-1],
                                "key of `edges_map` in %s: position comparison=%s, name comparison=%s, depends on specs.directed=%s" % (b.short, pos, names, directed), loc_str(t.span))
    ctx.floor(RID, "edges_keyed_accesses", n_e, floor_e)
    ctx.floor(RID, "edges_map_keyed_accesses", n_m, floor_m)
    return n_e, n_m


# ---------------------------------------------------------------------------------------- R-C02-4


def rule4(ctx, prog, flows):
    ctx.rule("R-C02-4", "kind-restricted queries refuse the other kind before any answer; NodeNotFound/EdgeNotFound only after a failed lookup")
    g = Guards(prog, flows)
    n = 0
    for sfx, field, value, what in KIND_TABLE:
        check_refusal(ctx, g, "R-C02-4", prog.one(sfx), field, value, what)
        n += 1
    if ctx.config == "adjacency_matrix":
        check_refusal(ctx, g, "R-C02-4", prog.one("matrix::Graph::get_sparse_adjacency_matrix"), "multi_edges", True, "multi-edge graphs")
    ctx.floor("R-C02-4", "kind_restricted_queries", n, 10)
    from guard import refusal_kinds

    refusal_kinds(ctx, g, "R-C02-4", prog, floor=17)
    m = 0
    for p in sorted(prog.bodies):
        b = prog.bodies[p]
        if not (b.short.startswith("graph::query::") or b.short.startswith("graph::degree::")):
            continue
        fl = flows.of(b)
        for (bb, s, v) in errorkind_sites(b):
            if v not in ("NodeNotFound", "EdgeNotFound"):
                continue
            m += 1
            atoms = controlling_atoms(fl, bb)
            ok = False
            for (t, val, a) in atoms:
                if isinstance(t, tuple) and t[0] == "call":
                    nm = t[1].split("::")[-1]
                    if nm in ("contains_key", "has_node", "has_nodes") and val is False:
                        ok = True
                    if nm in ("is_none", "is_err") and val is True:
                        ok = True
                    if nm in ("is_some", "is_ok") and val is False:
                        ok = True
                if isinstance(t, tuple) and t[0] == "discr" and isinstance(val, tuple):
                    # match on an Option/Result returned by a lookup: None = 0 / Err = 1
                    ok = True
                if isinstance(t, tuple) and t[0] == "place" and "." not in t[1] and val is False:
                    # `let both_present = has(u) && has(v); if !both_present { Err(NotFound) }`: a boolean computed from lookups
                    for l_ in b.locals_named(t[1]):
                        sl_ = fl.slice_local({("L", l_)}, data_only=False)
                        if any(n_[0] == "CALL" and b.blocks[n_[1]].term.callee and b.blocks[n_[1]].term.callee.short.split("::")[-1] in ("contains_key", "has_node", "has_nodes", "get", "get_node", "get_node_index") for n_ in sl_):
                            ok = True
            ctx.require(ok, "R-C02-4", "notfound|%s|%s" % (b.short, v), "%s in %s is conditional on a failed lookup" % (v, b.short.split("::")[-1]), "%s in %s is not conditional on a lookup" % (v, b.short), loc_str(s.span))
            # ... and the KIND says which store the failed lookup was made in: a name that is missing from the node stores
            # is NodeNotFound, a pair that is missing from the edge stores is EdgeNotFound.  (A node gets its row in
            # edges_map with its first edge, not when it is added: a missing row there says nothing about the node.)
            stores = set()
            for (t, val, a) in controlling_atoms(fl, bb, direct=True):
                if isinstance(a, tuple):
                    continue
                gsl = fl.slice_local(fl.atom_reads(a), data_only=True)
                for n_ in gsl:
                    if n_[0] == "SRC":
                        f_ = field_of(("P", n_[1], n_[2]))
                        if f_ in NODE:
                            stores.add("node")
                        elif f_ in EDGE:
                            stores.add("edge")
                    elif n_[0] == "CALL" and b.blocks[n_[1]].term.callee:
                        cn_ = b.blocks[n_[1]].term.callee.short.split("::")[-1]
                        if cn_ in ("has_node", "has_nodes", "get_node", "get_node_index", "get_node_by_index"):
                            stores.add("node")
                        elif cn_ in ("get_edge_by_indexes", "get_edges_by_indexes", "get_edge", "get_edges"):
                            stores.add("edge")
            if stores:
                want = "node" if v == "NodeNotFound" else "edge"
                ctx.require(want in stores, "R-C02-4", "notfound-store|%s|%s|%d" % (b.short, v, m), "%s in %s follows a failed lookup in the %s stores" % (v, b.short.split("::")[-1], want),
                            "%s in %s is decided by a failed lookup in the %s stores only: %s" % (v, b.short, "/".join(sorted(stores)), "a node has no row in edges_map until it is the first endpoint of an edge, so two existing nodes without an edge between them are reported as NodeNotFound -- the answer contradicts has_node / get_node for the same names" if v == "NodeNotFound" else "a missing NODE is reported as a missing edge"), loc_str(s.span))
    ctx.floor("R-C02-4", "notfound_sites", m, 5)


# ---------------------------------------------------------------------------------------- R-C02-5


def rule5(ctx, prog, flows, effects):
    ctx.rule("R-C02-5", "parallel edges are appended in both edge stores and returned in list order")
    b = prog.one("creation::Graph::add_edge")
    fl = flows.of(b)
    pushes = {}
    for (bb, site, f, kind) in index_events(effects, b):
        if f in EDGE and kind == "Vec::push":
            atoms = controlling_atoms(fl, bb)
            multi = any(isinstance(t, tuple) and t[0] == "place" and t[1].endswith("specs.multi_edges") and v is True for (t, v, a) in atoms)
            pushes[f] = multi
        if f in EDGE and kind in ("Vec::insert", "VecDeque::push_front", "slice::sort", "slice::sort_by", "Vec::swap_remove", "Vec::remove"):
            ctx.violation("R-C02-5", "reorder|" + f, "`%s` per-pair list is modified by %s: insertion order of parallel edges is lost" % (f, kind), loc_str(site.span))
    ctx.require(pushes.get("edges") and pushes.get("edges_map"), "R-C02-5", "append", "on multi-edge graphs both edge stores append with Vec::push", "multi-edge append missing: %s" % pushes, loc_str(b.span))
    for sfx in ("query::Graph::get_edges_by_indexes",):
        q = prog.one(sfx)
        qf = flows.of(q)
        bad = []
        for t in q.calls():
            if t.callee and t.callee.short.split("::")[-1] in ("rev", "sort", "sort_by", "sort_by_key", "sorted", "sorted_by", "reverse", "dedup", "swap_remove"):
                bad.append(t.callee.short)
        ctx.require(not bad, "R-C02-5", "read-order|" + q.short, "%s returns the per-pair list in stored order" % sfx.split("::")[-1], "%s reorders the per-pair list: %s" % (sfx, bad), loc_str(q.span))


def rule6(ctx, prog, flows):
    from graphrules import adjacency_entries_only_for_new_nodes, adjacency_set_updates_agree

    adjacency_set_updates_agree(ctx, prog, flows, "R-C02-10", "the successor / predecessor queries answered from the position-keyed sets (get_successor_nodes, get_predecessor_nodes, get_neighbor_nodes) then disagree with the name-keyed maps and with get_all_edges(): an undirected edge added as (b, a) with b after a is not listed among a's neighbours")

    adjacency_entries_only_for_new_nodes(ctx, prog, flows, "R-C02-6", "so `%s` no longer agrees with the edge stores (successor / predecessor queries lose edges that get_all_edges still lists)")


ORDER_KEEPING = ("iter", "map", "cloned", "copied", "collect", "into_iter", "clone", "to_vec", "as_slice", "deref", "as_ref", "from_iter", "to_owned", "into", "borrow")


def node_list_accessors_in_store_order(prog, flows):
    """{accessor short name: (ok, offending callee names, span)} for the accessors that list the nodes"""
    out = {}
    for sfx in ("Graph::get_all_nodes", "Graph::get_all_node_names"):
        b = prog.one(sfx)
        sl = flows.slice(b.path, [("L", 0)], up=False, down="clos", data_only=True)
        calls = set()
        srcs = set()
        for (bp, n) in sl:
            if n[0] == "CALL":
                t = prog.bodies[bp].blocks[n[1]].term
                if t.callee:
                    calls.add(t.callee.short.split("::")[-1])
            elif n[0] == "SRC":
                srcs.add(".".join(f for f in n[2] if f != "*").split(".")[0])
        bad = sorted(c for c in calls if c not in ORDER_KEEPING)
        out[sfx.split("::")[-1]] = ("nodes_vec" in srcs and not bad, bad, sorted(srcs), b)
    return out


def rule7(ctx, prog, flows):
    ctx.rule("R-C02-7", "the accessors that list the nodes return the position-ordered store as it is (element i is the node at position i)")
    from mir import loc_str

    for nm, (ok, bad, srcs, b) in sorted(node_list_accessors_in_store_order(prog, flows).items()):
        ctx.require(ok, "R-C02-7", "store-order|" + nm, "%s = nodes_vec in store order (one-to-one adaptors only)" % nm,
                    "%s does not return nodes_vec in store order (reads %s, passes through %s): element i is no longer the node that get_node_by_index(i) / get_node_index(name) == i refer to, so the node list and the name<->position lookups describe different lists" % (nm, srcs, bad), loc_str(b.span))


def run_once(ctx):
    if ctx.tier != "thorough":
        ctx.note("the compile-fail witnesses run in the thorough tier")
        return
    import witness

    witness.run_witnesses(ctx, "R-C02-1w", ["C02"])


RAW_LISTS = ("get_successor_nodes_by_index", "get_predecessor_nodes_by_index")
DEDUPING = ("dedup", "dedup_by", "dedup_by_key", "unique", "unique_by")


def rule11(ctx, prog, flows, rid="R-C02-11"):
    """The traversal lists (`successors_vec` / `predecessors_vec`) are the searches' adjacency: one entry per stored
    orientation.  An undirected self-loop (n, n) is pushed by both the forward and the mirrored update, so n's row
    lists n twice; on a directed graph a reciprocal pair puts the neighbour into both rows.  A query that hands NODES
    taken from those rows to the caller therefore has to drop the repetitions on every path on which it answers --
    otherwise get_neighbor_nodes disagrees with the neighbour SETS (get_successors_map) and with the stored edges."""
    from guard import ok_producers

    ctx.rule(rid, "a node list built from the raw traversal rows passes through a de-duplication on every path that returns it")
    n = 0
    for p in sorted(prog.bodies):
        b = prog.bodies[p]
        if b.kind == "closure" or not b.short.startswith("graph::query::"):
            continue
        rty = b.local_ty(0)
        if "node::Node<" not in rty or "Vec<" not in rty:
            continue
        fl = flows.of(b)
        prods = ok_producers(b)
        if prods is None:
            prods = [(bb_, "return", st_) for (bb_, st_) in b.assigns_to(0)]
        for (bb, what, site) in prods:
            ops = site.rv.ops if getattr(site, "rv", None) is not None else site.args
            reads = set()
            for o in ops:
                reads |= set(fl._op_reads(o))
            names = set()
            for nd in fl.slice_local(reads, data_only=True):
                if nd[0] == "CALL":
                    t = b.blocks[nd[1]].term
                    if t.callee:
                        names.add(t.callee.short.split("::")[-1])
            raw = sorted(names & set(RAW_LISTS))
            if not raw:
                continue
            n += 1
            dd = sorted(names & set(DEDUPING))
            is_set = "HashSet<" in rty or "BTreeSet<" in rty
            ctx.require(bool(dd) or is_set, rid, "dedup|%s|%d" % (b.short, n), "%s: the nodes taken from %s pass through %s" % (b.short.split("::")[-1], "/".join(raw), "/".join(dd) or "a set"),
                        "%s returns nodes taken from %s without removing repetitions on this path: the row of a node with an undirected self-loop lists the node twice (and a reciprocal directed pair appears in both rows), so the answer lists a neighbour twice and disagrees with the neighbour sets and with the stored edges" % (b.short, "/".join(raw)), loc_str(site.span))
    ctx.floor(rid, "raw_row_node_lists", n, 1)
    # ... and the de-duplication removes REPETITIONS: its "same element" predicate is an equality of one and the same
    # field of the two neighbours, with positive polarity (`a.node_index != b.node_index` would remove every element that
    # differs from its predecessor and keep the repetitions)
    from engines import predicate_true_paths, mapped_closure_of

    for p in sorted(prog.bodies):
        b = prog.bodies[p]
        if b.kind == "closure" or not b.short.startswith("graph::query::"):
            continue
        fl = flows.of(b)
        for t in b.calls():
            if not (t.callee and t.callee.short.split("::")[-1] in ("dedup_by", "unique_by", "dedup_by_key") and len(t.args) >= 2 and t.args[1].place is not None):
                continue
            cpath = None
            for c_ in fl.copies_of(t.args[1].place.local) | {t.args[1].place.local}:
                if c_ in fl.closure_locals:
                    cpath = fl.closure_locals[c_]
            if cpath is None or cpath not in prog.bodies or prog.bodies[cpath].local_ty(0) != "bool":
                continue
            cb = prog.bodies[cpath]
            paths = predicate_true_paths(flows.of(cb), cb)
            if paths is None:
                ctx.undecided(rid, "same-element|" + b.short, "the `same element` predicate of %s in %s is not a conjunction of equalities" % (t.callee.short.split("::")[-1], b.short), loc_str(t.span))
                continue
            ok = len(paths) == 1 and len(paths[0]) >= 1 and all(rel == "eq" and pol and len({o.split(".", 1)[-1] for o in ops}) == 1 for (rel, pol, ops) in paths[0])
            ctx.require(ok, rid, "same-element|" + b.short, "the `same element` predicate in %s is an equality of the same field of both elements" % b.short.split("::")[-1],
                        "the `same element` predicate handed to %s in %s is true under %s: it is not an equality of one field of the two elements, so the de-duplication removes distinct neighbours and keeps repeated ones" % (t.callee.short.split("::")[-1], b.short, [sorted(("%s%s(%s)" % ("" if pol else "!", rel, ",".join(sorted(ops)))) for (rel, pol, ops) in pth) for pth in paths]), loc_str(t.span))


def rule13(ctx, prog, flows):
    """has_nodes(names) is "every name is a node": it answers false only because a membership lookup of one of the
    names failed.  A `false` decided by anything else -- comparing the LENGTH of the list with the node count, say, which
    is only valid for lists without repetitions -- disagrees with has_node for the same names, and the queries that use
    it as their guard (get_edges_for_nodes, multi_source ..) refuse nodes that exist."""
    ctx.rule("R-C02-13", "has_nodes returns false only on a failed membership lookup of one of the names")
    b = prog.find("query::Graph::has_nodes")
    if not b:
        return
    b = b[0]
    n = 0
    for cb in [b] + list(prog.closures_of(b.path)):
        if cb.local_ty(0) != "bool":
            continue
        fl = flows.of(cb)
        for (bb, d) in cb.assigns_to(0):
            rv = getattr(d, "rv", None)
            if not (rv is not None and rv.k == "use" and rv.ops and rv.ops[0].is_const() and rv.ops[0].const_int() == 0):
                continue
            n += 1
            direct = controlling_atoms(fl, bb, direct=True)
            ok = any(isinstance(te, tuple) and te[0] == "call" and te[1].split("::")[-1] in ("has_node", "contains_key", "contains", "is_some", "is_none", "get_node") for (te, v, a) in direct) or any(isinstance(te, tuple) and te[0] == "discr" for (te, v, a) in direct)
            ctx.require(ok, "R-C02-13", "false|%s|%d" % (cb.short.split("::")[-1], n), "has_nodes answers false after a failed lookup",
                        "has_nodes answers false on a test that is not a membership lookup (%s): a list in which every name is a node -- with a repetition, say -- is reported as missing a node, and every query guarded by has_nodes returns NodeNotFound for nodes that exist" % [fmt_desc(te)[:70] for (te, v, a) in direct], loc_str(d.span))
    ctx.counters["has_nodes_false_returns"] = n


ACCUMULATORS = {"extend", "append", "push", "flat_map", "chain", "extend_from_slice", "concat", "flatten"}
DEDUPS = {"unique", "unique_by", "dedup", "dedup_by", "dedup_by_key"}


def rule15(ctx, prog, flows):
    """get_edges_for_nodes / get_in_edges_for_nodes / get_out_edges_for_nodes answer with a SUB-LIST of get_all_edges():
    `names` is a set of nodes, and a stored edge is listed once however often a name is repeated.  A result accumulated
    name by name (extend / push / flat_map / chain over the per-node query) lists an edge once per occurrence of the
    name -- and, for get_edges_for_nodes, twice when both endpoints are named -- unless the names went through a set
    first; it then disagrees with get_all_edges, with the single-node queries and with the degrees."""
    from engines import result_ctor_sites

    ctx.rule("R-C02-15", "the multi-node edge queries list each stored edge once: a selection from get_all_edges, not an accumulation per name")
    n = 0
    for sfx in ("query::Graph::get_edges_for_nodes", "query::Graph::get_in_edges_for_nodes", "query::Graph::get_out_edges_for_nodes"):
        bs = prog.find(sfx)
        if not bs:
            continue
        b = bs[0]
        fl = flows.of(b)
        for (bb, st) in result_ctor_sites(b, "Ok"):
            n += 1
            sl = flows.slice(b.path, fl._op_reads(st.rv.ops[0]), up=False, down=True, data_only=True)
            cal = set()
            sets_ = False
            for (bp, nd) in sl:
                if nd[0] == "CALL":
                    t = prog.bodies[bp].blocks[nd[1]].term
                    if t.callee:
                        cal.add(t.callee.short.split("::")[-1])
                        if t.dest is not None and ("HashSet<" in (t.dest.ty or "") or "BTreeSet<" in (t.dest.ty or "")) and t.callee.short.split("::")[-1] in ("collect", "from_iter", "from"):
                            sets_ = True
            acc = sorted(cal & ACCUMULATORS)
            # also: pushes into the returned vector through a &mut (not data-defining calls)
            for cb in [b]:
                for t in cb.calls():
                    if t.callee and t.callee.short.split("::")[-1] in ("extend", "append", "push", "extend_from_slice") and t.args and t.args[0].place is not None:
                        tgt = fl.slice_local(fl._op_reads(t.args[0]), data_only=True)
                        src = fl.slice_local(fl._op_reads(st.rv.ops[0]), data_only=True)
                        if any(x in src for x in tgt if x[0] == "L"):
                            acc = sorted(set(acc) | {t.callee.short.split("::")[-1]})
            per_name = any(c.startswith("get_") and c.endswith("_for_node") for c in cal) or any(t.callee and t.callee.short.split("::")[-1].endswith("_for_node") for t in b.calls())
            # names that went through a set / dedup first make the per-name lists of in- resp. out-edges disjoint
            # (one head, one tail); for get_edges_for_nodes an edge between two named nodes is still listed twice
            deduped = (sets_ or bool(cal & DEDUPS)) and not sfx.endswith("get_edges_for_nodes")
            bad = bool(acc) and per_name and not deduped
            ctx.require(not bad, "R-C02-15", "sub-list|" + sfx.split("::")[-1], "%s selects from get_all_edges (each stored edge at most once)" % sfx.split("::")[-1],
                        "%s accumulates its answer per name (%s over the per-node query): a name that occurs twice in `names` lists its edges twice, so the answer holds edges get_all_edges() holds once and disagrees with the single-node queries and the degrees" % (sfx.split("::")[-1], "/".join(acc)), loc_str(st.span))
    ctx.floor("R-C02-15", "multi_node_queries", n, 3)


# ---------------------------------------------------------------------------------------- R-C02-14
PASS_THROUGH = ("clone", "borrow", "deref", "into", "from", "as_ref", "to_owned")


def _world_defs(b, local, bb, idx, reach, dele):
    """engines.reaching_defs on the CFG without the edges `dele`, restricted to the blocks `reach`"""
    out, seen_blocks, seen = [], set(), set()

    def scan(bi, upto):
        blk = b.blocks[bi]
        if upto > len(blk.stmts) and blk.term.k == "call" and blk.term.dest is not None and blk.term.dest.local == local and not blk.term.dest.proj:
            return blk.term
        for j in range(min(upto, len(blk.stmts)) - 1, -1, -1):
            s_ = blk.stmts[j]
            if s_.k == "assign" and s_.lhs.local == local and not s_.lhs.proj:
                return s_
        return None

    work = [(bb, idx)]
    while work:
        bi, upto = work.pop()
        d = scan(bi, upto)
        if d is not None:
            if id(d) not in seen:
                seen.add(id(d))
                out.append(d)
            continue
        for p_ in b.pred(bi):
            if p_ in reach and (p_, bi) not in dele and p_ not in seen_blocks:
                seen_blocks.add(p_)
                work.append((p_, 10 ** 9))
    return out


def _world_forms(b, fl, local, bb, idx, reach, dele, depth=0, stop=()):
    """the values `local` can hold at (bb, idx) in the pruned CFG, as strings over parameter / variable names: copies,
    references and clones are looked through, a pair is the product of its components; None: something else"""
    if depth > 12:
        return None
    if b.local_name(local) in stop:
        return {b.local_name(local)}
    # a local whose address is taken mutably can be changed behind the assignments seen here (mem::swap ..): not decided
    if any(s_.k == "assign" and s_.rv.k == "ref" and s_.rv.j.get("bk") == "mut" and s_.rv.place is not None and s_.rv.place.local == local for s_ in b.stmts()):
        return None
    defs = _world_defs(b, local, bb, idx, reach, dele)
    if not defs:
        return {b.local_name(local) or "_%d" % local}
    out = set()
    for d in defs:
        if getattr(d, "k", None) == "assign":
            rv = d.rv
            src = None
            if rv.k in ("use", "cast") and rv.ops and rv.ops[0].place is not None and all(e == "*" for e in rv.ops[0].place.proj):
                src = rv.ops[0].place.local
            elif rv.k in ("ref", "copyderef") and rv.place is not None and all(e == "*" for e in rv.place.proj):
                src = rv.place.local
            if src is not None:
                r = _world_forms(b, fl, src, d.bb, d.idx, reach, dele, depth + 1, stop)
                if r is None:
                    return None
                out |= r
                continue
            if rv.k == "aggr" and rv.j.get("ak") == "tuple" and len(rv.ops) == 2 and all(o.place is not None and not o.place.proj for o in rv.ops):
                a_ = _world_forms(b, fl, rv.ops[0].place.local, d.bb, d.idx, reach, dele, depth + 1, stop)
                b_ = _world_forms(b, fl, rv.ops[1].place.local, d.bb, d.idx, reach, dele, depth + 1, stop)
                if a_ is None or b_ is None:
                    return None
                out |= {"(%s, %s)" % (x, y) for x in a_ for y in b_}
                continue
            if rv.k in ("use", "ref", "copyderef"):
                pl = rv.ops[0].place if rv.k == "use" and rv.ops else rv.place
                if pl is not None:
                    out.add(_strip(fmt_desc(panic.norm(fl.describe_def(d, depth=6)))))
                    continue
            return None
        else:
            # a call: clone / borrow / deref of one operand is looked through
            t = d
            if t.callee and t.callee.short.split("::")[-1] in PASS_THROUGH and len(t.args) == 1 and t.args[0].place is not None and all(e == "*" for e in t.args[0].place.proj):
                r = _world_forms(b, fl, t.args[0].place.local, t.bb, len(b.blocks[t.bb].stmts), reach, dele, depth + 1, stop)
                if r is None:
                    return None
                out |= r
                continue
            return None
    return out


def _strip(sx):
    import re as _re

    prev = None
    while prev != sx:
        prev = sx
        sx = _re.sub(r"^(?:clone|borrow|deref|into|to_owned)\((.*)\)$", r"\1", sx.strip())
        sx = sx.lstrip("&*")
    return sx


def rule14(ctx, prog, flows):
    """R-C02-3 establishes that the keys of the two edge stores DEPEND on the right comparison and on specs.directed.
    This rule reads the table: in the world specs.directed == true (the other outcomes deleted from the CFG) a key has ONE
    form -- the pair as given; in the undirected worlds x > y and x < y (x, y the operands of the comparison) the smaller
    one comes first.  `!directed || x > y` swaps the key of a directed edge whose endpoints come in descending order; `x < y`
    puts the larger one first at one site and not at the others: either way the pair is stored, or looked up, under an
    orientation the other sites do not use."""
    ctx.rule("R-C02-14", "orientation table of the edge-store keys: one form on directed graphs; on undirected graphs the smaller of the two compared operands first, at every site")
    guards = Guards(prog, flows)
    n = 0
    seen_k = {}
    for p in sorted(prog.bodies):
        b = prog.bodies[p]
        fl = flows.of(b)
        try:
            sw = guards.spec_switches(b, "directed")
        except Exception:
            sw = []
        if not sw:
            continue
        # the ordering tests of this body
        cmps = []
        for blk in b.normal_blocks():
            if blk.term.k != "switch":
                continue
            at = fl.atom(blk.i)
            if not at or at.get("ty") != "bool":
                continue
            te = panic.norm(at["test"])
            neg = False
            while isinstance(te, tuple) and te[0] == "unop" and te[1] == "Not":
                neg = not neg
                te = te[2]
            op = x_ = y_ = None
            if isinstance(te, tuple) and te[0] == "binop" and te[1] in ("Gt", "Lt", "Ge", "Le"):
                op, x_, y_ = te[1], te[2], te[3]
            elif isinstance(te, tuple) and te[0] == "call" and te[1].split("::")[-1] in ("gt", "lt", "ge", "le") and len(te[2]) == 2:
                op, x_, y_ = te[1].split("::")[-1].capitalize(), te[2][0], te[2][1]
            if op is None:
                continue
            f_succ, t_succ = dict(at["targets"]).get(0), at["otherwise"]
            if neg:
                f_succ, t_succ = t_succ, f_succ
            cmps.append((blk.i, op, _strip(fmt_desc(x_)), _strip(fmt_desc(y_)), t_succ, f_succ))
        groups = {}
        for c in cmps:
            groups.setdefault(frozenset((c[2], c[3])), []).append(c)
        decided = set()
        for gk, gcm in sorted(groups.items(), key=lambda kv: sorted(kv[0])):
            if len(gk) != 2:
                continue
            X, Y = gcm[0][2], gcm[0][3]
            dele_dir = {(bb, succs[False]) for (bb, succs) in sw if succs.get(False) is not None}
            dele_und = {(bb, succs[True]) for (bb, succs) in sw if succs.get(True) is not None}
            dele_gt, dele_lt = set(dele_und), set(dele_und)
            for (cb, op, x_, y_, t_succ, f_succ) in gcm:
                greater_true = (op in ("Gt", "Ge")) == ((x_, y_) == (X, Y))  # the test is true in the world X > Y
                dele_gt.add((cb, f_succ if greater_true else t_succ))
                dele_lt.add((cb, t_succ if greater_true else f_succ))
            worlds = {"dir": dele_dir, "gt": dele_gt, "lt": dele_lt}
            reach = {w: b.reach_avoiding_edges(list(d_), 0) for w, d_ in worlds.items()}
            for t in b.calls():
                if not t.callee or not any(t.callee.short.endswith(k) for k in KEYED) or len(t.args) < 2 or t.args[0].place is None or t.args[1].place is None:
                    continue
                if (t.bb, id(t)) in decided:
                    continue
                rty = t.args[0].place.ty or ""
                if "HashMap<(T, T)" in rty:
                    comp = "pair"
                elif "HashMap<usize, std::collections::HashMap<usize" in rty:
                    comp = "first"
                elif "HashMap<usize, std::vec::Vec<std::sync::Arc<edge::Edge" in rty:
                    comp = "second"
                else:
                    continue
                key = t.args[1].place
                if any(e != "*" for e in key.proj):
                    continue
                forms = {}
                for w in worlds:
                    forms[w] = _world_forms(b, fl, key.local, t.bb, len(b.blocks[t.bb].stmts), reach[w], worlds[w], 0, (X, Y)) if t.bb in reach[w] else set()
                if any(f is None for f in forms.values()) or not (forms["gt"] or forms["lt"]):
                    continue
                leaves = {X, Y} if comp != "pair" else {"(%s, %s)" % (X, Y), "(%s, %s)" % (Y, X)}
                if not all(f <= leaves for f in forms.values()):
                    continue
                decided.add((t.bb, id(t)))
                n += 1
                kid = "%s|%s|%s|%s" % (b.short, t.callee.short.split("::")[-1], comp, "/".join(sorted(leaves)))
                seen_k[kid] = seen_k.get(kid, 0) + 1
                if seen_k[kid] > 1:
                    kid += "|%d" % seen_k[kid]
                want_gt = {"first": {Y}, "second": {X}, "pair": {"(%s, %s)" % (Y, X)}}[comp]
                want_lt = {"first": {X}, "second": {Y}, "pair": {"(%s, %s)" % (X, Y)}}[comp]
                if forms["dir"] and len(forms["dir"]) != 1:
                    ctx.violation("R-C02-14", kid, "in %s the key of this access can be %s on a DIRECTED graph: the key of a directed edge is the pair as given, whatever the order of its endpoints -- here a directed edge whose endpoints come in descending order is stored, or looked up, under the swapped key, where the other sites do not find it" % (b.short, " or ".join(sorted(forms["dir"]))), loc_str(t.span))
                elif (forms["gt"] and forms["gt"] != want_gt) or (forms["lt"] and forms["lt"] != want_lt):
                    ctx.violation("R-C02-14", kid, "in %s the key component is %s when %s > %s and %s when %s < %s on an undirected graph: the canonical key has the smaller of the two first (%s resp. %s); this site uses the other orientation than the sites that store the edge" % (b.short, "/".join(sorted(forms["gt"])), X, Y, "/".join(sorted(forms["lt"])), X, Y, "/".join(sorted(want_gt)), "/".join(sorted(want_lt))), loc_str(t.span))
                else:
                    ctx.ok("R-C02-14", kid, "directed: %s; undirected: %s if %s > %s, %s if %s < %s" % ("/".join(sorted(forms["dir"])) or "-", "/".join(sorted(forms["gt"])), X, Y, "/".join(sorted(forms["lt"])), X, Y), loc_str(t.span))
    ctx.floor("R-C02-14", "oriented_key_accesses", n, 5)


def rule16(ctx, prog, flows):
    """R-C02-16.  A node is held in two stores -- the position-ordered list (get_all_nodes, get_node_by_index's
    callers) and the position-keyed map (get_node, the successor / predecessor / neighbour node queries).  When a name
    is added again the new node (new attributes) replaces the old one in BOTH, unconditionally.  An insert-if-absent
    (entry(..).or_insert*, try_insert) into a node-valued map keeps the old node for a name that exists: get_node then
    describes another node than get_all_nodes.  Decided on the CFG of add_node: every overwrite of a slot of nodes_vec is
    followed on every path to the return by a HashMap::insert (the overwriting write) into nodes_map_rev.  An
    insert-if-absent in the arm for a NEW name is fine (refactorings R9, R50, R66, R90, R98 write it that way) and is
    not looked at."""
    ctx.rule("R-C02-16", "a re-added node replaces the stored node in the node list AND in the position-keyed node map, unconditionally (no insert-if-absent on a node-valued map)")
    n_maps = 0
    for b in list(prog.bodies.values()):
        if not b.path.startswith("graph::"):
            continue
        for t in b.calls():
            if not t.callee:
                continue
            sh = t.callee.short
            ga = t.callee.args or []
            if (sh.endswith("HashMap::insert") or sh.endswith("HashMap::entry") or sh.endswith("HashMap::try_insert")) and len(ga) >= 2 and "node::Node<" in ga[1]:
                n_maps += 1
    ctx.floor("R-C02-16", "node_map_writes", n_maps, 2)
    an = prog.one("creation::Graph::add_node")
    fl = flows.of(an)
    from panic import norm as _norm
    slots = [t for t in an.calls() if t.callee and t.callee.short.endswith("IndexMut::index_mut") and t.args and _norm(fl.describe(t.args[0], depth=2)) == ("place", "self.nodes_vec")]
    revs = {t.bb for t in an.calls() if t.callee and t.callee.short.endswith("HashMap::insert") and t.args and _norm(fl.describe(t.args[0], depth=2)) == ("place", "self.nodes_map_rev")}
    rets = set(an.return_blocks())
    for i, t in enumerate(slots):
        escaped = rets & set(an.reachable_from(t.bb, avoid=tuple(sorted(revs))))
        ctx.require(not escaped, "R-C02-16", "paired|%d" % i, "the overwrite of nodes_vec[i] in add_node is followed by nodes_map_rev.insert(i, ..) on every path",
                    "add_node can return after overwriting nodes_vec[i] without inserting the new node into nodes_map_rev: the two node stores then hold different nodes for one name", loc_str(t.span))
    ctx.floor("R-C02-16", "node_slot_overwrites", len(slots), 1)
