"""C15 -- derived graphs (subgraph, reverse, reweight, collapse): structural clauses."""
from core import ASSUME_RUSTC, ASSUME_PATHS, ASSUME_AT
from effects import Effects
from flow import Flows, L, fmt_desc, desc_mentions
from graphrules import field_of, INDEX_FIELDS
from guard import Guards, check_refusal, ok_producers
import panic
from props.c01 import controlling_atoms
from props.c08 import canon_condition
from mir import loc_str, short

LEVEL = "other"
EXPLANATION = (
    "Decides structural clauses of C15.  R-C15-1 the four functions take &self and write nothing through it (effect summaries; "
    "interior mutability is excluded by C07-P3): the source graph is untouched.  R-C15-2 the returned graph is the payload of "
    "Graph::new_from_nodes_and_edges and nothing else, so it satisfies C01-C03 whenever they hold; its specs are a clone of the "
    "source's specs (to_single_edges: a struct update overriding only multi_edges = false).  R-C15-3 the node list derives from the "
    "position-ordered store nodes_vec (never from the hash-ordered nodes_map) and, for get_subgraph, is filtered by membership in S "
    "only.  R-C15-4 reverse passes every edge through Edge::reversed (which swaps u and v and keeps the rest); set_all_edge_weights "
    "assigns exactly its parameter to every weight; to_single_edges builds one edge per key of the pair store with the sum of that "
    "key's weights; get_subgraph keeps an edge iff both endpoints are members.  R-C15-5 reverse refuses undirected graphs and "
    "to_single_edges single-edge graphs before any answer.  NOT decided: the arithmetic of the sums, reverse(reverse(g)) == g as an "
    "equality of graphs."
)
TRUSTED = ["rustc MIR construction", "C01-C03 for the constructor", "Arc::clone preserves node attributes"]

FUNCS = ["subgraph::Graph::get_subgraph", "convert::Graph::reverse", "convert::Graph::set_all_edge_weights", "convert::Graph::to_single_edges"]


def callees_in(prog, sl):
    out = set()
    for (bp, n) in sl:
        if n[0] == "CALL":
            t = prog.bodies[bp].blocks[n[1]].term
            if t.callee:
                out.add(t.callee.short)
    return out


def fields_in(sl):
    out = set()
    for (bp, n) in sl:
        if n[0] == "SRC":
            f = field_of(("P", n[1], n[2]))
            if f:
                out.add(f)
    return out


def single_edges_specs(b, fl, c):
    """(ok, overrides): every constructor call of to_single_edges gets the source's specs with exactly
    multi_edges overridden to false (a struct update `GraphSpecs { multi_edges: false, ..self.specs.clone() }`,
    possibly bound to a variable first)"""
    # the aggregate that reaches the specs argument (through copies / moves)
    l = c.args[2].place.local if c.args[2].place is not None and not c.args[2].place.proj else None
    aggr = None
    for _ in range(6):
        if l is None:
            break
        d = fl.single_def(l)
        rv = getattr(d, "rv", None) if d is not None else None
        if rv is None:
            break
        if rv.k == "aggr" and rv.j.get("adt", "").endswith("GraphSpecs"):
            aggr = d
            break
        if rv.k == "use" and rv.ops and rv.ops[0].place is not None and not rv.ops[0].place.proj:
            l = rv.ops[0].place.local
            continue
        break
    if aggr is None:
        return False, []
    over = []
    ok = True
    for fname, o in zip(aggr.rv.j["fields"], aggr.rv.ops):
        if o.is_const():
            over.append((fname, o.const_int()))
        else:
            sl = fl.slice_local(fl._op_reads(o), data_only=True)
            if not any(nd[0] == "SRC" and "specs" in nd[2] for nd in sl):
                ok = False
    return ok and over == [("multi_edges", 0)], over



def subgraph_edge_source(ctx, prog, flows, rid, consequence):
    """where get_subgraph's candidate edges come from: the whole edge store (get_all_edges), selected by membership
    only.  A per-node or fallible accessor has its own contract (NodeNotFound for an unknown name, a self-loop listed
    twice on directed graphs, a particular key orientation).  Shared with C12 (modularity counts L_c on the result) and
    C20 (the constructor result is unwrapped: a repeated edge makes it DuplicateEdge)."""
    b = prog.one("subgraph::Graph::get_subgraph")
    fl = flows.of(b)
    ctor = prog.one("creation::Graph::new_from_nodes_and_edges")
    calls = [t for t in b.calls() if t.callee and t.callee.target_path(prog) == ctor.path]
    if len(calls) != 1:
        ctx.anchor_lost(rid, "one new_from_nodes_and_edges call in get_subgraph")
        return
    c = calls[0]
    esl = flows.slice(b.path, fl._op_reads(c.args[1]), up=False, down=True, data_only=False)
    efs = fields_in(esl)
    own = {b.path} | {cb_.path for cb_ in prog.closures_of(b.path)}
    direct = set()
    for (bp_, n_) in esl:
        if bp_ in own and n_[0] == "CALL":
            tt_ = prog.bodies[bp_].blocks[n_[1]].term
            tp_ = tt_.callee.target_path(prog) if tt_.callee else None
            if tp_ and prog.items[tp_]["kind"] != "closure":
                direct.add(short(tp_))
    other = sorted(x.split("::")[-1] for x in direct if x.startswith("graph::") and x.split("::")[-1] not in ("get_all_edges", "has_node", "has_nodes", "get_all_nodes", "get_all_node_names", "new_from_nodes_and_edges"))
    adj_src = sorted(efs & {"successors", "predecessors", "successors_map", "predecessors_map", "successors_vec", "predecessors_vec", "edges_map"})
    ctx.require(any(x.endswith("get_all_edges") for x in direct) and not other and not adj_src, rid, "edge-source|get_subgraph", "get_subgraph's candidate edges are get_all_edges(): every stored edge once",
                "get_subgraph takes its candidate edges from %s instead of get_all_edges() alone -- an accessor with its own contract (an error for an unknown name, a self-loop listed twice, a key orientation): %s" % (other + adj_src, consequence), loc_str(c.span))

def run(ctx):
    prog = ctx.prog
    flows = Flows(prog)
    from graphrules import no_edge_identity_collections

    no_edge_identity_collections(ctx, prog, "R-C15-6", ("graph::convert", "graph::subgraph"), "the derived graph loses parallel edges (reverse twice no longer restores the graph, the induced subgraph misses stored edges)")
    effects = Effects(prog, flows)
    for a in (ASSUME_RUSTC, ASSUME_PATHS, ASSUME_AT):
        ctx.assume(a)
    ctor = prog.one("creation::Graph::new_from_nodes_and_edges")
    ctx.rule("R-C15-1", "the derived-graph functions take &self and write nothing through it")
    ctx.rule("R-C15-2", "the result is the constructor's payload; specs are the source's (to_single_edges overrides only multi_edges)")
    ctx.rule("R-C15-3", "the node list comes from the position-ordered store, filtered only by membership")
    ctx.rule("R-C15-4", "edge arguments: reversed / reweighted by the parameter / one summed edge per pair / both endpoints members")
    ctx.rule("R-C15-5", "reverse refuses undirected graphs, to_single_edges single-edge graphs")
    for sfx in FUNCS:
        b = prog.one(sfx)
        fl = flows.of(b)
        name = sfx.split("::")[-1]
        # R-C15-1
        self_ty = b.item.get("inputs", [""])[0]
        w = [x for x in effects.summaries().get(b.path, ()) if x[0] == 1]
        ctx.require(self_ty.startswith("&graph::Graph<") and not w, "R-C15-1", name, "%s takes &self and has no write effect on it" % name, "%s can modify its source graph (self: %s, writes %s)" % (name, self_ty, sorted(w, key=str)[:3]), loc_str(b.span))
        # R-C15-2: every definition of the returned value derives from the constructor call
        calls = [t for t in b.calls() if t.callee and t.callee.target_path(prog) == ctor.path]
        if len(calls) != 1:
            ctx.anchor_lost("R-C15-2", "one new_from_nodes_and_edges call in " + name)
            continue
        c = calls[0]
        rty = b.local_ty(0)
        srcs = []
        if rty.startswith("std::result::Result<"):
            prods = ok_producers(b) or []
            ok = bool(prods) and all(getattr(s, "k", None) == "call" and s.bb == c.bb for (bb, wt, s) in prods)
            srcs = [wt for (bb, wt, s) in prods]
        else:
            oc = None
            defs = b.assigns_to(0)
            ok = bool(defs)
            for (bb, d) in defs:
                if getattr(d, "k", None) == "call":
                    o = panic.origin_call(fl, d.args[0]) if d.callee and d.callee.short in panic.UNWRAPS and d.args else (d if d.bb == c.bb else None)
                    if o is None or o.bb != c.bb:
                        ok = False
                else:
                    ok = False
        ctx.require(ok, "R-C15-2", "ctor|" + name, "%s returns exactly what Graph::new_from_nodes_and_edges built" % name, "%s can return a graph that did not come from the checked constructor (%s)" % (name, srcs), loc_str(c.span))
        # specs argument
        sd = panic.norm(fl.describe(c.args[2], depth=8))
        if name == "to_single_edges":
            okspec, over = single_edges_specs(b, fl, c)
            ctx.require(okspec, "R-C15-2", "specs|" + name, "to_single_edges keeps the source's specs except multi_edges = false", "to_single_edges builds its specs differently (overrides %s)" % over, loc_str(c.span))
        else:
            okspec = fmt_desc(panic.shape(sd)) == "_.specs" or (sd[0] == "place" and sd[1].endswith(".specs"))
            ctx.require(okspec, "R-C15-2", "specs|" + name, "%s passes a clone of the source's specs" % name, "%s builds the result with specs `%s`, not the source's" % (name, fmt_desc(sd)), loc_str(c.span))
        # R-C15-3 node argument
        sl = flows.slice(b.path, fl._op_reads(c.args[0]), up=False, down=True, data_only=True)
        fs = fields_in(sl)
        okn = "nodes_vec" in fs and not (fs & {"nodes_map", "nodes_map_rev", "successors", "predecessors", "edges"})
        ctx.require(okn, "R-C15-3", "nodes|" + name, "node list of %s derives from nodes_vec (position order)" % name, "node list of %s derives from %s: original order is not preserved" % (name, sorted(fs)), loc_str(c.span))
        cal = {x.split("::")[-1] for x in callees_in(prog, sl)}
        bad = cal & {"sorted", "sort", "sort_by", "rev", "sorted_by", "dedup", "reverse"}
        ctx.require(not bad, "R-C15-3", "order|" + name, "the node list is not reordered", "the node list is reordered by %s" % sorted(bad), loc_str(c.span))
        # R-C15-4 edge argument
        esl = flows.slice(b.path, fl._op_reads(c.args[1]), up=False, down=True, data_only=False)
        ecal = callees_in(prog, esl)
        efs = fields_in(esl)
        if name in ("reverse", "set_all_edge_weights"):
            # every stored edge has its counterpart in the result: between the edge store and the constructor no
            # operation selects some of them (first / take / filter / dedup ..)
            dsl = flows.slice(b.path, fl._op_reads(c.args[1]), up=False, down=True, data_only=True)
            dropping = sorted({x.split("::")[-1] for x in callees_in(prog, dsl)} & {"first", "last", "take", "skip", "nth", "step_by", "find", "find_map", "min", "max", "min_by", "max_by", "min_by_key", "max_by_key", "take_while", "skip_while", "pop", "truncate", "filter", "filter_map", "dedup", "dedup_by", "dedup_by_key", "unique", "unique_by", "retain", "drain", "split_off", "first_mut", "last_mut", "get"})
            ctx.require(not dropping, "R-C15-4", "edges-all|" + name, "%s hands every stored edge to the constructor (no selecting operation on the way)" % name,
                        "%s passes its edges through %s between the edge store and the constructor: only some of the stored edges (one per pair, a prefix ..) reach the result, so on a multi-edge graph the derived graph has fewer edges than its source" % (name, "/".join(dropping)), loc_str(c.span))
        if name == "reverse":
            ok4 = any(x.endswith("Edge::reversed") for x in ecal) and "edges" in efs
            ctx.require(ok4, "R-C15-4", "edges|reverse", "every edge of the result passes through Edge::reversed", "reverse does not map its edges through Edge::reversed", loc_str(c.span))
            rv = prog.one("edge::Edge::reversed")
            ag = [s for s in rv.stmts() if s.k == "assign" and s.rv.k == "aggr" and s.rv.j.get("adt", "").endswith("edge::Edge")]
            okr = False
            if len(ag) == 1:
                rf = flows.of(rv)
                m = {}
                for fname, o in zip(ag[0].rv.j["fields"], ag[0].rv.ops):
                    m[fname] = fmt_desc(panic.shape(panic.norm(rf.describe(o, depth=8))))
                okr = m.get("u", "").endswith(".v") and m.get("v", "").endswith(".u") and m.get("weight", "").endswith(".weight") and m.get("attributes", "").endswith(".attributes")
            ctx.require(okr, "R-C15-4", "reversed-body", "Edge::reversed swaps u and v and keeps weight and attributes", "Edge::reversed builds %s" % (m if len(ag) == 1 else "?"), loc_str(rv.span))
        elif name == "set_all_edge_weights":
            wl = b.param_local("weight")
            okw = False
            anchors_w = set()
            n_w = 0
            for cb in [b] + list(prog.closures_of(b.path)):
                cf = flows.of(cb)
                for s in cb.stmts():
                    if s.k == "assign" and s.lhs.has_deref() and s.lhs.fields()[-1:] == ["weight"]:
                        n_w += 1
                        srcsl = cf.slice_local(cf._op_reads(s.rv.ops[0]), data_only=True) if s.rv.ops else set()
                        if cb.kind == "closure":
                            ups = {n[1] for n in srcsl if n[0] == "UPV"}
                            other = [n for n in srcsl if n[0] == "CALL" or (n[0] == "SRC" and not (n[2] and n[2][0] == "^weight"))]
                        else:
                            ups = {cb.local_name(n[1]) for n in srcsl if n[0] == "L" and isinstance(n[1], int) and 1 <= n[1] <= cb.arg_count}
                            other = [n for n in srcsl if n[0] in ("CALL", "SRC")]
                        # the only tests allowed in front of the assignment are those of the loop that walks the edges
                        # (`next()` returned Some)
                        conds = [te for (te, v, a) in controlling_atoms(cf, s.bb) if not (isinstance(te, tuple) and te[0] == "discr" and "next(" in fmt_desc(te))]
                        good = ups == {"weight"} and not other and not conds
                        okw = good if n_w == 1 else (okw and good)
                        # ... and the constructor is reached only through that per-edge step: the call that maps the
                        # assigning closure over the edges (or the loop holding the assignment) is on every path to it
                        if cb.kind == "closure":
                            cname_ = cb.path.split("::")[-1]
                            for t_ in b.calls():
                                if any(a_.place is not None and ("{closure" in (a_.place.ty or "")) and (cname_ in (a_.place.ty or "") or len(prog.closures_of(b.path)) == 1 or True) for a_ in t_.args) and t_.callee and t_.callee.short.split("::")[-1] in ("map", "for_each", "map_init") and _closure_arg_is(prog, b, t_, cb):
                                    anchors_w.add(t_.bb)
                        else:
                            from props.c06 import root_loops

                            inner_ = [(h_, lb_) for (h_, lb_) in root_loops(b) if s.bb in lb_]
                            if inner_:
                                anchors_w.add(min(inner_, key=lambda x_: len(x_[1]))[0])
            if okw and anchors_w:
                byp_ = c.bb in (b.reachable_from(0, avoid=tuple(anchors_w)) | {0})
                if byp_:
                    # a constructor call of its own behind `edges.is_empty()` / `len() == 0`: nothing to re-weight there
                    from flow import desc_mentions as _dm15

                    for (te_, v_, a_) in controlling_atoms(fl, c.bb):
                        if isinstance(te_, tuple) and _dm15(te_, lambda x: isinstance(x, tuple) and x[0] == "call" and x[1].split("::")[-1] in ("get_all_edges", "number_of_edges", "is_empty", "len")) and _dm15(te_, lambda x: isinstance(x, tuple) and ((x[0] == "call" and x[1].split("::")[-1] == "is_empty") or (x[0] == "const" and x[1].replace("const ", "").startswith("0")))) and _dm15(te_, lambda x: isinstance(x, tuple) and ((x[0] == "call" and x[1].split("::")[-1] in ("get_all_edges", "number_of_edges")) or (x[0] == "place" and "edges" in x[1]))):
                            byp_ = False
                ctx.require(not byp_, "R-C15-4", "edges-always|set_all_edge_weights", "the constructor call of set_all_edge_weights is reached only through the per-edge weight assignment",
                            "set_all_edge_weights can reach its constructor call without mapping the weight assignment over the edges (a short cut around it): on that path the edges keep their stored weights, so not every weight of the result is `weight`", loc_str(c.span))
            ctx.require(okw and "edges" in efs, "R-C15-4", "edges|set_all_edge_weights", "every edge's weight is assigned exactly the `weight` parameter, unconditionally",
                        ("set_all_edge_weights no longer builds its edges by cloning the stored edge and assigning `.weight` (no such assignment found): whatever else the stored edge carries -- its attributes -- is not carried over, so the result is not the source graph with new weights" if n_w == 0 else "the new weight is not simply the parameter"), loc_str(c.span))
        elif name == "to_single_edges":
            # the body that builds the collapsed edge: a helper (collapse_edges), a closure, or to_single_edges itself
            ce = None
            for rp in sorted(prog.reachable_bodies([b.path])):
                rb = prog.bodies[rp]
                if "graph::convert" not in rb.short:
                    continue
                if any(t.callee and t.callee.short.endswith("Edge::with_weight") for t in rb.calls()):
                    ce = rb
            if ce is None:
                ctx.anchor_lost("R-C15-4", "the Edge::with_weight call that builds a collapsed edge in to_single_edges")
                continue
            cf = flows.of(ce)
            ww = [t for t in ce.calls() if t.callee and t.callee.short.endswith("Edge::with_weight")]
            okc = False
            if len(ww) == 1:
                wsl = flows.slice(ce.path, cf._op_reads(ww[0].args[2]), up=False, down="clos", data_only=True)
                wc = {x.split("::")[-1] for x in callees_in(prog, wsl)}
                def through_bindings(d_):
                    # `let (u, v) = endpoints;` -- a pattern binding is the place it binds
                    from engines import value_of_named

                    for _ in range(4):
                        if isinstance(d_, tuple) and d_[0] == "place" and "." not in d_[1]:
                            v_ = value_of_named(cf, d_[1])
                            if isinstance(v_, tuple):
                                v_ = panic.norm(v_)
                            if isinstance(v_, tuple) and v_[0] == "place":
                                d_ = v_
                                continue
                        break
                    return d_

                k0 = fmt_desc(panic.shape(through_bindings(panic.norm(cf.describe(ww[0].args[0], depth=8)))))
                k1 = fmt_desc(panic.shape(through_bindings(panic.norm(cf.describe(ww[0].args[1], depth=8)))))
                okc = "sum" in wc and k0.endswith(".0") and k1.endswith(".1")
            ok4 = okc and any(x.endswith("convert::collapse_edges") for x in ecal) or (okc and "edges" in efs)
            uses_ce = True  # `ce` was found among the bodies reachable from to_single_edges
            ctx.require(okc and uses_ce and "edges" in efs, "R-C15-4", "edges|to_single_edges", "one edge per key of the pair store, named by the key, weight = sum over that key's list", "to_single_edges does not build (key.0, key.1, sum of weights) per pair", loc_str(c.span))
        elif name == "get_subgraph":
            subgraph_edge_source(ctx, prog, flows, "R-C15-4", "the induced subgraph loses or repeats stored edges")
            # the edge filter closure: true only if both endpoints are members
            okf = False
            detail = ""
            for cb in prog.closures_of(b.path):
                cf = flows.of(cb)
                cs = [t for t in cb.calls() if t.callee and t.callee.short.endswith("HashSet::contains")]
                if len(cs) != 2:
                    continue
                want = set()
                conds_all = []
                for (bb, d) in cb.assigns_to(0):
                    rv = getattr(d, "rv", None)
                    if rv is not None and rv.k == "use" and rv.ops[0].is_const() and rv.ops[0].const_int() == 0:
                        continue
                    conds = set()
                    for (t, v, a) in controlling_atoms(cf, bb):
                        if isinstance(t, tuple) and t[0] == "call" and t[1].endswith("HashSet::contains") and v is True:
                            conds.add(fmt_desc(panic.shape(t[2][1])).split(".")[-1])
                    dd = panic.norm(cf.describe_def(d, depth=8))
                    if dd[0] == "call" and dd[1].endswith("HashSet::contains") and len(dd[2]) > 1:
                        # the value returned on this path IS the second membership test
                        conds.add(fmt_desc(panic.shape(dd[2][1])).split(".")[-1])
                    conds_all.append(conds)
                okf = bool(conds_all) and all(c_ == {"u", "v"} for c_ in conds_all)
                detail = str(conds_all)
            if not okf:
                # the same selection written as a loop: every push onto the vector that becomes the edge
                # argument is controlled by contains(.., e.u) == true and contains(.., e.v) == true
                edge_locals = {n[1] for (bp, n) in esl if bp == b.path and n[0] == "L"}
                pushes = []
                for t in b.calls():
                    if t.callee and t.callee.short.endswith("Vec::push") and t.args and any(o[0] == "L" and o[1] in edge_locals and "Edge<" in b.local_ty(o[1]) for o in fl._operand_pts(t.args[0])):
                        pushes.append(t)
                conds_all = []
                for t in pushes:
                    conds = set()
                    for (te, v, a) in controlling_atoms(fl, t.bb):
                        if isinstance(te, tuple) and te[0] == "call" and te[1].endswith("HashSet::contains") and v is True:
                            conds.add(fmt_desc(panic.shape(panic.norm(te[2][1]))).split(".")[-1])
                    conds_all.append(conds)
                if pushes:
                    okf = all(c_ >= {"u", "v"} for c_ in conds_all)
                    detail = str(conds_all)
            ctx.require(okf, "R-C15-4", "edges|get_subgraph", "an edge is kept only if both its endpoints are members of S", "the edge filter keeps an edge under %s" % detail, loc_str(c.span))
    g = Guards(prog, flows)
    check_refusal(ctx, g, "R-C15-5", prog.one("convert::Graph::reverse"), "directed", False, "undirected graphs")
    check_refusal(ctx, g, "R-C15-5", prog.one("convert::Graph::to_single_edges"), "multi_edges", False, "single-edge graphs")


def run_once(ctx):
    if ctx.tier != "thorough":
        ctx.note("the compile-fail witnesses run in the thorough tier")
        return
    import witness

    witness.run_witnesses(ctx, "R-C15-1w", ["C15"])


def _closure_arg_is(prog, b, t, cb):
    """does call `t` of body `b` receive the closure whose body is `cb`?  (an argument is a local to which the
    closure aggregate of `cb` is assigned, directly or through copies)"""
    locs = set()
    for s_ in b.stmts():
        if s_.k == "assign" and s_.rv.k == "aggr" and s_.rv.j.get("ak") == "closure" and (s_.rv.j.get("closure") == cb.path or cb.path.endswith(str(s_.rv.j.get("closure"))) or str(s_.rv.j.get("closure")).endswith(cb.path.split("::", 1)[-1])):
            locs.add(s_.lhs.local)
    changed = True
    while changed:
        changed = False
        for s_ in b.stmts():
            if s_.k == "assign" and s_.rv.k == "use" and s_.rv.ops and s_.rv.ops[0].place is not None and s_.rv.ops[0].place.local in locs and not s_.lhs.proj and s_.lhs.local not in locs:
                locs.add(s_.lhs.local)
                changed = True
    return any(a.place is not None and a.place.local in locs for a in t.args)
