"""C13 -- Louvain: the structural clauses only (non-empty list of levels, non-empty communities,
louvain_communities = last level).  Termination, nesting and monotone modularity are NOT decided."""
from core import ASSUME_RUSTC, ASSUME_PATHS
from engines import errorkind_sites
from flow import Flows, L, fmt_desc
from guard import ok_producers
import panic
import pathsens
from mir import loc_str, short

LEVEL = "other"
EXPLANATION = (
    "Decides three structural clauses of C13 and nothing else.  R-C13-1 (path-sensitive predicate abstraction): on every path of "
    "louvain_partitions to Ok(levels) at least one level has been pushed -- the list of levels is never empty.  R-C13-2: the two "
    "partitions returned by compute_one_level pass through a filter that drops empty communities, and the initial partition consists "
    "of one-element sets.  R-C13-3: louvain_communities returns the LAST level of louvain_partitions (Vec::pop on its result, behind "
    "an emptiness test) or NoPartitions, and propagates its errors.  R-C13-4: within a level, communities are only changed by moving "
    "a node's whole member set (difference / union with the same set).  NOT decided, stated plainly: that Louvain terminates, that each "
    "level is a coarsening of the previous one as a value-level fact, and that modularity never decreases -- these depend on run-time "
    "floating-point gains and are outside static reach."
)
TRUSTED = ["rustc MIR construction"]


def run(ctx):
    prog = ctx.prog
    flows = Flows(prog)
    ctx.assume(ASSUME_RUSTC)
    ctx.assume(ASSUME_PATHS)
    lp = prog.one("louvain::louvain_partitions")
    fl = flows.of(lp)
    # the vector that is returned in Ok(..)
    ctx.rule("R-C13-1", "every Ok(levels) of louvain_partitions is preceded by at least one push of a level")
    marks = {}
    ret_slice = set()
    prods = [(bb, w, s) for (bb, w, s) in (ok_producers(lp) or [])]
    for (bb, w, s) in prods:
        marks.setdefault(bb, set()).add("OK")
        for o in (s.rv.ops if getattr(s, "rv", None) is not None else s.args):
            ret_slice |= fl.slice_local(fl._op_reads(o), data_only=True)
    n_push = 0
    for t in lp.calls():
        if t.callee and t.callee.short.endswith("Vec::push") and t.args and t.args[0].place is not None:
            objs = [o for o in fl._operand_pts(t.args[0]) if o[0] == "L"]
            if any(("L", o[1]) in ret_slice for o in objs):
                marks.setdefault(t.bb, set()).add("PUSH")
                n_push += 1
    if not ctx.floor("R-C13-1", "level_pushes", n_push, 1):
        return
    ex = pathsens.Explorer(lp, fl, prog, markers=marks, keep=lambda k: False)
    ex.run()
    bad = []
    n_ok = 0
    for (bb, w, s) in prods:
        for (facts, m) in ex.at_block.get(bb, ()):
            n_ok += 1
            if "PUSH" not in m:
                bad.append(loc_str(s.span))
    ctx.require(n_ok > 0 and not bad and not ex.truncated, "R-C13-1", "nonempty-levels", "all %d abstract paths into an Ok(levels) return have pushed a level" % n_ok, "louvain_partitions can return Ok with an empty list of levels (Ok at %s reachable without a push)" % sorted(set(bad)), loc_str(lp.span))

    ctx.rule("R-C13-2", "communities handed back by compute_one_level have had empty sets filtered out; the initial partition is made of singletons")
    co = prog.one("louvain::compute_one_level")
    cf = flows.of(co)
    ag = [s for s in co.stmts() if s.k == "assign" and s.rv.k == "aggr" and s.rv.j["ak"] == "tuple" and s.lhs.local == 0]
    if len(ag) != 1:
        ctx.anchor_lost("R-C13-2", "the result tuple of compute_one_level")
    else:
        for i, o in enumerate(ag[0].rv.ops[:2]):
            sl = flows.slice(co.path, cf._op_reads(o), up=False, down="clos", data_only=True)
            cal = set()
            has_empty_test = False
            for (bp, n) in sl:
                if n[0] == "CALL":
                    t = prog.bodies[bp].blocks[n[1]].term
                    if t.callee:
                        cal.add(t.callee.short.split("::")[-1])
                        if t.callee.short.endswith("HashSet::is_empty") and prog.bodies[bp].kind == "closure":
                            # the closure returns !is_empty
                            cb = prog.bodies[bp]
                            has_empty_test = any(st.k == "assign" and st.lhs.local == 0 and st.rv.k == "unop" and st.rv.j["op"] == "Not" for st in cb.stmts())
            ctx.require("filter" in cal and has_empty_test, "R-C13-2", "filtered|%d" % i, "returned partition #%d passes filter(|part| !part.is_empty())" % i, "returned partition #%d is not filtered for empty communities" % i, loc_str(ag[0].span))
    mh = prog.one("louvain::map_node_names_to_hashsets")
    ok = any(t.callee and t.callee.short.endswith("HashSet::insert") for c in [mh] + prog.closures_of(mh.path) for t in c.calls())
    ctx.require(ok, "R-C13-2", "singletons", "the initial partition maps every node to a set into which it is inserted", None, loc_str(mh.span))

    ctx.rule("R-C13-3", "louvain_communities returns the last level of louvain_partitions, or NoPartitions; errors are propagated")
    lc = prog.one("louvain::louvain_communities")
    lf = flows.of(lc)
    calls = [t for t in lc.calls() if t.callee and t.callee.target_path(prog) == lp.path]
    pops = [t for t in lc.calls() if t.callee and t.callee.short.endswith("Vec::pop")]
    okp = False
    if len(calls) == 1 and len(pops) == 1:
        sl = lf.slice_local(lf._op_reads(pops[0].args[0]), data_only=True)
        okp = ("CALL", calls[0].bb) in sl
        # same argument order
        args_ok = [fmt_desc(panic.norm(lf.describe(a, depth=4))) for a in calls[0].args] == list(lc.param_names())
        okp = okp and args_ok
        prods = ok_producers(lc) or []
        for (bb, w, s) in prods:
            if w == "Ok(..)":
                ps = lf.slice_local(lf._op_reads(s.rv.ops[0]), data_only=True)
                okp = okp and ("CALL", pops[0].bb) in ps
    ctx.require(okp, "R-C13-3", "last-level", "louvain_communities = louvain_partitions(same arguments)?.pop()", "louvain_communities does not return the popped last level of louvain_partitions called with its own arguments", loc_str(lc.span))
    nop = [(bb, s) for (bb, s, v) in errorkind_sites(lc) if v == "NoPartitions"]
    okn = False
    if len(nop) == 1 and pops:
        for (bb, test, t_succ, f_succ) in panic.bool_atoms(lf):
            if isinstance(test, tuple) and test[0] == "call" and test[1].endswith("::is_empty"):
                okn = panic.passes_true_edge(lc, bb, t_succ, nop[0][0]) and panic.passes_true_edge(lc, bb, f_succ, pops[0].bb)
    ctx.require(okn, "R-C13-3", "nopartitions", "NoPartitions exactly when the list is empty; pop only when it is not", "the emptiness test does not separate NoPartitions from pop()", loc_str(lc.span))

    ctx.rule("R-C13-4", "within a level a community changes only by removing / adding a node's whole member set")
    names = co.locals_named("_partition")
    okm = False
    detail = ""
    if len(names) == 1:
        v = names[0]
        writes = [s for s in co.stmts() if s.k == "assign" and s.lhs.has_deref() and ("L", v) in cf.resolve(s.lhs)]
        kinds = []
        coms = set()
        for s in writes:
            sl = cf.slice_local(cf._op_reads(s.rv.ops[0]) if s.rv.ops else set(), data_only=True)
            from engines import producers

            pr = {x.split("::")[-1] for x in producers(flows, co, s.rv.ops[0])} if s.rv.ops else set()
            kinds.append("difference" if pr == {"difference"} else ("union" if pr == {"union"} else "other:%s" % sorted(pr)))
            for n in sl:
                if n[0] == "L" and co.local_name(n[1]) == "com":
                    coms.add(n[1])
        okm = sorted(kinds) == ["difference", "union"] and len(coms) == 1
        detail = "%s with member set %s" % (kinds, sorted(co.local_name(c) for c in coms))
    ctx.require(okm, "R-C13-4", "whole-set-moves", "the level partition is updated by one difference and one union with the same member set", "the level partition is updated by %s" % detail, loc_str(co.span))
