"""C13 -- Louvain: the structural clauses only (non-empty list of levels, non-empty communities,
louvain_communities = last level).  Termination, nesting and monotone modularity are NOT decided."""
from core import ASSUME_RUSTC, ASSUME_PATHS
from engines import errorkind_sites
from flow import Flows, L, fmt_desc
from props.c01 import controlling_atoms
from guard import ok_producers
import panic
import pathsens
from mir import loc_str, short

LEVEL = "other"
EXPLANATION = (
    "Decides three structural clauses of C13 and nothing else.  R-C13-1 (path-sensitive predicate abstraction): on every path of "
    "louvain_partitions to Ok(levels) at least one level has been pushed -- the list of levels is never empty.  R-C13-2: the two "
    "partitions returned by compute_one_level pass through a filter that drops empty communities, and the initial partition consists "
    "of one-element sets.  R-C13-3: louvain_communities returns the LAST level of louvain_partitions (Vec::pop on its result, behind "
    "an emptiness test) or NoPartitions, and propagates its errors.  R-C13-4: within a level, communities are only changed by moving "
    "a node's whole member set (difference / union with the same set).  R-C13-10: a community node's member set is built from its members' attribute sets.  R-C13-11: the neighbour-weight loops have no exit but the exhaustion of their iterator.  NOT decided, stated plainly: that Louvain terminates, that each "
    "level is a coarsening of the previous one as a value-level fact, and that modularity never decreases -- these depend on run-time "
    "floating-point gains and are outside static reach."
)
TRUSTED = ["rustc MIR construction"]


INPLACE_SET_OPS = ("retain", "retain_mut", "extend", "append", "insert", "remove", "clear", "drain", "take")


def run(ctx):
    prog = ctx.prog
    flows = Flows(prog)
    ctx.assume(ASSUME_RUSTC)
    ctx.assume(ASSUME_PATHS)
    lp = prog.one("louvain::louvain_partitions")
    fl = flows.of(lp)
    # the vector that is returned in Ok(..)
    ctx.rule("R-C13-1", "every Ok(levels) of louvain_partitions is preceded by at least one push of a level")
    marks = {}
    ret_slice = set()
    prods = [(bb, w, s) for (bb, w, s) in (ok_producers(lp) or [])]
    for (bb, w, s) in prods:
        marks.setdefault(bb, set()).add("OK")
        for o in (s.rv.ops if getattr(s, "rv", None) is not None else s.args):
            ret_slice |= fl.slice_local(fl._op_reads(o), data_only=True)
    n_push = 0
    for t in lp.calls():
        if t.callee and t.callee.short.endswith("Vec::push") and t.args and t.args[0].place is not None:
            objs = [o for o in fl._operand_pts(t.args[0]) if o[0] == "L"]
            if any(("L", o[1]) in ret_slice for o in objs):
                marks.setdefault(t.bb, set()).add("PUSH")
                n_push += 1
    if not ctx.floor("R-C13-1", "level_pushes", n_push, 1):
        return
    ex = pathsens.Explorer(lp, fl, prog, markers=marks, keep=lambda k: False)
    ex.run()
    bad = []
    n_ok = 0
    for (bb, w, s) in prods:
        for (facts, m) in ex.at_block.get(bb, ()):
            n_ok += 1
            if "PUSH" not in m:
                bad.append(loc_str(s.span))
    ctx.require(n_ok > 0 and not bad and not ex.truncated, "R-C13-1", "nonempty-levels", "all %d abstract paths into an Ok(levels) return have pushed a level" % n_ok, "louvain_partitions can return Ok with an empty list of levels (Ok at %s reachable without a push)" % sorted(set(bad)), loc_str(lp.span))

    ctx.rule("R-C13-2", "communities handed back by compute_one_level have had empty sets filtered out; the initial partition is made of singletons")
    co = prog.one("louvain::compute_one_level")
    cf = flows.of(co)
    ag = [s for s in co.stmts() if s.k == "assign" and s.rv.k == "aggr" and s.rv.j["ak"] == "tuple" and s.lhs.local == 0]
    if len(ag) != 1:
        ctx.anchor_lost("R-C13-2", "the result tuple of compute_one_level")
    else:
        for i, o in enumerate(ag[0].rv.ops[:2]):
            sl = flows.slice(co.path, cf._op_reads(o), up=False, down="clos", data_only=True)
            cal = set()
            has_empty_test = False
            for (bp, n) in sl:
                if n[0] == "CALL":
                    t = prog.bodies[bp].blocks[n[1]].term
                    if t.callee:
                        cal.add(t.callee.short.split("::")[-1])
                        if t.callee.short.endswith("HashSet::is_empty") and prog.bodies[bp].kind == "closure":
                            # the closure returns !is_empty
                            cb = prog.bodies[bp]
                            cfl = flows.of(cb)
                            rds = [panic.norm(cfl.describe_def(d_, depth=6)) for (_, d_) in cb.assigns_to(0)]
                            if rds and all(d_[0] == "unop" and d_[1] == "Not" and d_[2][0] == "call" and d_[2][1].endswith("::is_empty") for d_ in rds):
                                has_empty_test = True
            ctx.require("filter" in cal and has_empty_test, "R-C13-2", "filtered|%d" % i, "returned partition #%d passes filter(|part| !part.is_empty())" % i, "returned partition #%d is not filtered for empty communities" % i, loc_str(ag[0].span))
    mh = prog.one("louvain::map_node_names_to_hashsets")
    ok = any(t.callee and t.callee.short.endswith("HashSet::insert") for c in [mh] + prog.closures_of(mh.path) for t in c.calls())
    ctx.require(ok, "R-C13-2", "singletons", "the initial partition maps every node to a set into which it is inserted", None, loc_str(mh.span))

    ctx.rule("R-C13-3", "louvain_communities returns the last level of louvain_partitions, or NoPartitions; errors are propagated")
    lc = prog.one("louvain::louvain_communities")
    lf = flows.of(lc)
    calls = [t for t in lc.calls() if t.callee and t.callee.target_path(prog) == lp.path]
    pops = [t for t in lc.calls() if t.callee and t.callee.short.endswith("Vec::pop")]
    okp = False
    if len(calls) == 1 and len(pops) == 1:
        sl = lf.slice_local(lf._op_reads(pops[0].args[0]), data_only=True)
        okp = ("CALL", calls[0].bb) in sl
        # same argument order
        args_ok = [fmt_desc(panic.norm(lf.describe(a, depth=4))) for a in calls[0].args] == list(lc.param_names())
        okp = okp and args_ok
        prods = ok_producers(lc) or []
        for (bb, w, s) in prods:
            if w == "Ok(..)":
                ps = lf.slice_local(lf._op_reads(s.rv.ops[0]), data_only=True)
                okp = okp and ("CALL", pops[0].bb) in ps
    ctx.require(okp, "R-C13-3", "last-level", "louvain_communities = louvain_partitions(same arguments)?.pop()", "louvain_communities does not return the popped last level of louvain_partitions called with its own arguments", loc_str(lc.span))
    nop = [(bb, s) for (bb, s, v) in errorkind_sites(lc) if v == "NoPartitions"]
    okn = False
    if len(nop) == 1 and pops:
        for (bb, test, t_succ, f_succ) in panic.bool_atoms(lf):
            if isinstance(test, tuple) and test[0] == "call" and test[1].endswith("::is_empty"):
                okn = panic.passes_true_edge(lc, bb, t_succ, nop[0][0]) and panic.passes_true_edge(lc, bb, f_succ, pops[0].bb)
    ctx.require(okn, "R-C13-3", "nopartitions", "NoPartitions exactly when the list is empty; pop only when it is not", "the emptiness test does not separate NoPartitions from pop()", loc_str(lc.span))

    ctx.rule("R-C13-4", "within a level a community changes only by removing / adding a node's whole member set")
    # the level partition: the Vec<HashSet<..>> that reaches the FIRST component of the returned tuple and is
    # updated in place (identified by data flow, not by its name)
    okm = False
    detail = "no in-place updated vector of sets reaches the first returned component"
    first = None
    for (dbb, d) in co.assigns_to(0):
        rv = getattr(d, "rv", None)
        if rv is not None and rv.k == "aggr" and rv.j.get("ak") == "tuple" and rv.ops:
            first = rv.ops[0]
    cands = []
    if first is not None:
        sl0 = cf.slice_local(cf._op_reads(first), data_only=True)
        for n in sl0:
            if n[0] == "L" and "Vec<std::collections::HashSet<" in co.local_ty(n[1]) and not co.local_ty(n[1]).startswith("&"):
                ws = [s for s in co.stmts() if s.k == "assign" and s.lhs.has_deref() and ("L", n[1]) in cf.resolve(s.lhs)]
                # ... or changed in place: `part[i].retain(|m| !set.contains(m))` / `part[i].extend(set.iter().cloned())`
                ms_calls = [t for t in co.calls() if t.callee and t.callee.short.split("::")[-1] in INPLACE_SET_OPS and t.args and t.args[0].place is not None and "HashSet<" in t.args[0].place.ty and ("L", n[1]) in cf.mut_reach(t.args[0])]
                if ws or ms_calls:
                    cands.append((n[1], ws, ms_calls))
    if len(cands) == 1:
        v, writes, inplace = cands[0]
        kinds = []
        member_sets = []
        from engines import producers

        for t in inplace:
            nm = t.callee.short.split("::")[-1]
            kinds.append("difference" if nm in ("retain", "retain_mut") else ("union" if nm in ("extend", "append") else "other:[%s]" % nm))
            # the set the operation takes its members from: the NEAREST named set behind the argument (through iterator
            # adaptors, re-borrows and closure captures), not everything that set was computed from
            near, work, seen_l = set(), [a.place.local for a in t.args[1:] if a.place is not None], set()
            while work:
                l_ = work.pop()
                if l_ in seen_l:
                    continue
                seen_l.add(l_)
                if co.local_name(l_) and "HashSet<" in co.local_ty(l_) and not co.local_ty(l_).startswith("std::vec::Vec<") and "Graph<" not in co.local_ty(l_):
                    near.add(("L", l_))
                    continue
                for (_bb, d_) in co.assigns_to(l_):
                    if getattr(d_, "k", None) == "call":
                        work += [a_.place.local for a_ in d_.args[:1] if a_.place is not None]
                    else:
                        rv_ = d_.rv
                        work += [o_.place.local for o_ in rv_.ops if o_.place is not None]
                        if rv_.place is not None:
                            work.append(rv_.place.local)
            member_sets.append(frozenset(near))

        for s in writes:
            pr = {x.split("::")[-1] for x in producers(flows, co, s.rv.ops[0])} if s.rv.ops else set()
            kinds.append("difference" if pr == {"difference"} else ("union" if pr == {"union"} else "other:%s" % sorted(pr)))
            sl = cf.slice_local(cf._op_reads(s.rv.ops[0]) if s.rv.ops else set(), data_only=True)
            ms = set()
            for n in sl:
                if n[0] == "CALL":
                    t = co.blocks[n[1]].term
                    if t.callee and t.callee.short.split("::")[-1] in ("difference", "union") and len(t.args) > 1:
                        ms |= {o for o in cf._operand_pts(t.args[1]) if o[0] == "L"}
            member_sets.append(frozenset(ms))
        same = len(member_sets) == 2 and member_sets[0] and member_sets[0] == member_sets[1]
        okm = sorted(kinds) == ["difference", "union"] and same
        detail = "%s with member sets %s" % (kinds, [sorted(co.local_name(o[1]) or "_%d" % o[1] for o in m) for m in member_sets])
    elif len(cands) > 1:
        detail = "%d vectors of sets reach the first returned component" % len(cands)
    ctx.require(okm, "R-C13-4", "whole-set-moves", "the level partition is updated by one difference and one union with the same member set", "the level partition is updated by %s" % detail, loc_str(co.span))

    # ------------------------------------------------------------------ R-C13-5
    # The working graphs of Louvain are Graph<usize, _>: node NAMES and node POSITIONS have the same type, so
    # the compiler cannot tell them apart here (elsewhere T is abstract and it can).  Domain discipline:
    # an argument bound to a parameter the Graph API declares as `usize` (a position) must derive from a
    # position source.
    ctx.rule("R-C13-5", "where the node name type is usize (Louvain's working graphs), position parameters of the Graph API get positions")
    POS_SOURCES = ("get_node_index", "enumerate", "position", "number_of_nodes")
    n_calls = n_pos = 0
    for p in sorted(prog.bodies):
        cb = prog.bodies[p]
        root = cb
        while root.kind == "closure":
            root = prog.bodies[root.item["parent"]]
        if "community::louvain::" not in root.short:
            continue
        cfl = flows.of(cb)
        for t in cb.calls():
            tp = t.callee.target_path(prog) if t.callee else None
            if not tp:
                continue
            it = prog.items[tp]
            if not str(it.get("impl_self") or "").startswith("graph::Graph<") or not t.callee.args or t.callee.args[0] != "usize":
                continue
            n_calls += 1
            ins = it.get("inputs", [])
            for i, ty in enumerate(ins):
                if i == 0 or i >= len(t.args):
                    continue
                decl = ty.replace("&", "").replace("mut ", "").strip()
                if decl != "usize":
                    continue
                # provenance inside this function and the crate helpers it calls (not the whole history of the graph)
                sl = flows.slice(cb.path, cfl._op_reads(t.args[i]), up=False, down=True, data_only=True, max_nodes=60000, max_stack=2)
                cal = set()
                name_field = False
                for (bp, n) in sl:
                    if n[0] == "CALL":
                        tt = prog.bodies[bp].blocks[n[1]].term
                        if tt.callee:
                            cal.add(tt.callee.short.split("::")[-1])
                    elif n[0] == "SRC" and n[2] and [f for f in n[2] if f != "*"][-1:] in (["name"], ["u"], ["v"]):
                        name_field = True
                from_pos = bool(cal & set(POS_SOURCES))
                key = "%s|%s|arg%d" % (cb.short.split("::{closure")[0], short(tp).split("::")[-1], i)
                if decl == "usize":
                    n_pos += 1
                    ctx.require(from_pos, "R-C13-5", key, "position argument of %s derives from a position source" % short(tp).split("::")[-1], "%s takes a node POSITION but is given a value that derives from no position source (%s) in %s: on a working graph whose nodes were not created in name order the wrong node is addressed" % (short(tp).split("::")[-1], "a node name" if name_field else "calls: %s" % sorted(cal)[:6], cb.short), loc_str(t.span))
                # (the converse is not a rule: generate_graph names the nodes of the next level by their
                # enumeration index, so a name argument may legitimately derive from `enumerate`)
    ctx.counters["graph_api_calls_with_usize_names"] = n_calls
    ctx.counters["position_arguments"] = n_pos
    ctx.floor("R-C13-5", "graph_api_calls_with_usize_names", n_calls, 5)

    # ------------------------------------------------------------------ R-C13-6
    # Termination of the local-move loop rests on one argument: no move decreases modularity (ties go to the
    # lowest community number), and there are finitely many partitions.  One structural fact is necessary for
    # that argument (it is NOT sufficient, and termination itself is not decided): on a directed graph the weight
    # between a node and a community counts the edges in BOTH directions (the directed modularity gain is
    # symmetric in in- and out-links); with the successors only, what the loop maximises is not the modularity
    # change, and it need not stop (observed: two directed 3-cycles joined by one edge never returned).
    ctx.rule("R-C13-6", "local moves: on directed graphs the neighbour-community weights count outgoing AND incoming edges")
    ub = prog.one("louvain::update_best_com")
    uf = flows.of(ub)
    calls = [t for t in co.calls() if t.callee and t.callee.target_path(prog) == ub.path]
    if len(calls) != 1:
        ctx.anchor_lost("R-C13-6", "one update_best_com call in compute_one_level")
    else:
        t = calls[0]
        # the weights argument: the by-value map from community to weight
        wargs = [i for i, a in enumerate(t.args) if a.place is not None and a.place.ty.startswith("std::collections::HashMap<usize, f64")]
        if len(wargs) != 1:
            ctx.anchor_lost("R-C13-6", "the community-weights argument of update_best_com")
        else:
            wi = wargs[0]
            wsl = flows.slice(co.path, cf._op_reads(t.args[wi]), up=False, down=True, data_only=True, max_stack=2, max_nodes=80000)
            wcal = set()
            for (bp, n) in wsl:
                if n[0] == "CALL":
                    tt = prog.bodies[bp].blocks[n[1]].term
                    if tt.callee:
                        wcal.add(tt.callee.short.split("::")[-1])
            both = ("get_successors_map" in wcal or "get_successor_nodes" in wcal or "get_out_edges_for_node" in wcal) and ("get_predecessors_map" in wcal or "get_predecessor_nodes" in wcal or "get_in_edges_for_node" in wcal)
            alle = bool(wcal & {"get_all_edges", "get_edges_for_node"})
            ctx.require(both or alle, "R-C13-6", "both-directions", "the neighbour-community weights are built from outgoing and incoming edges", "the neighbour-community weights are built from %s only: on a directed graph the incoming edges of a node are ignored, the maximised quantity is not the modularity change and the local-move loop has no monotone potential (it can run forever, e.g. on two directed 3-cycles joined by one edge)" % sorted(wcal & {"get_successors_map", "get_predecessors_map", "get_successor_nodes", "get_predecessor_nodes"}), loc_str(t.span))

    # ------------------------------------------------------------------ R-C13-9
    # the graph of communities must carry ALL the weight of the level below (also the self-loops that stand for the
    # weight inside a community): its edges are accumulated in one pass over the stored edges, each visited once
    ctx.rule("R-C13-9", "generate_graph accumulates the community edges in a loop over get_all_edges() (every stored edge once), not by walking adjacency sets")
    from hashord import natural_loop_blocks as _nlb

    gg = prog.one("louvain::generate_graph")
    gf = flows.of(gg)
    adds9 = [t for t in gg.calls() if t.callee and t.callee.short.endswith("Graph::add_edge")]
    n9 = 0
    for t in adds9:
        loops9 = []
        for nx in gg.calls():
            if nx.callee and nx.callee.short == "std::iter::Iterator::next":
                lb = _nlb(gg, nx.bb)
                if t.bb in lb and len(lb) > 1:
                    loops9.append((len(lb), nx))
        if not loops9:
            ctx.violation("R-C13-9", "edge-loop", "the add_edge call of generate_graph is not inside a loop", loc_str(t.span))
            continue
        n9 += 1
        cal9 = set()
        for (_, nx) in loops9:
            sl9 = gf.slice_local(gf._op_reads(nx.args[0]), data_only=True)
            cal9 |= {gg.blocks[n_[1]].term.callee.short.split("::")[-1] for n_ in sl9 if n_[0] == "CALL" and gg.blocks[n_[1]].term.callee}
        adj9 = sorted(cal9 & {"get_successors_map", "get_predecessors_map", "get_successor_nodes", "get_predecessor_nodes", "get_neighbor_nodes", "get_successor_node_names", "get_predecessor_node_names", "get_successors_or_neighbors", "get_successor_nodes_by_index", "get_predecessor_nodes_by_index", "get_edges_for_node", "get_out_edges_for_node", "get_in_edges_for_node", "get_all_nodes", "get_all_node_names"})
        ctx.require("get_all_edges" in cal9 and not adj9, "R-C13-9", "edge-loop", "the community edges are accumulated over get_all_edges()",
                    "generate_graph enumerates the member edges through %s instead of one pass over get_all_edges(): an adjacency walk sees an undirected edge from both ends and a self-loop once, so it needs a skip rule -- and a wrong one loses weight (e.g. the self-loops that carry a community's internal weight), after which the gains of the next level are computed from totals that are too small and modularity can decrease" % (adj9 or sorted(cal9)[:5]), loc_str(t.span))
    ctx.floor("R-C13-9", "community_edge_loops", n9, 1)
    # ------------------------------------------------------------------ R-C13-10
    # a node of the community graph stands for a SET OF ORIGINAL NODES, kept in its attributes; compute_one_level moves
    # those sets between the communities of the partition of the ORIGINAL graph.  Names and member sets coincide only
    # on the first level (the converted input graph: node i has attributes {i}); from then on the names are community
    # indexes.  So the set given to a new community node is the union of its members' ATTRIBUTE sets.
    ctx.rule("R-C13-10", "generate_graph gives a community node the union of its members' attribute sets (the original nodes), not the members' names")
    n10 = 0
    for b10 in [gg] + list(prog.closures_of(gg.path)):
        f10 = flows.of(b10)
        for t in b10.calls():
            if not (t.callee and t.callee.short.endswith("Node::from_name_and_attributes") and len(t.args) >= 2):
                continue
            n10 += 1
            sl10 = flows.slice(b10.path, f10._op_reads(t.args[1]), up=True, down="clos", data_only=True, roots=(gg.path,))
            reads_attr = False
            for (bp_, nd_) in sl10:
                bb_ = prog.bodies[bp_]
                if nd_[0] == "L" and isinstance(nd_[1], int):
                    for (_x, st_) in bb_.assigns_to(nd_[1]):
                        rv_ = getattr(st_, "rv", None)
                        if rv_ is None:
                            continue
                        for pl_ in [rv_.place] + [o_.place for o_ in rv_.ops]:
                            if pl_ is not None and "attributes" in pl_.fields():
                                reads_attr = True
                elif nd_[0] == "CALL":
                    for a_ in bb_.blocks[nd_[1]].term.args:
                        if a_.place is not None and "attributes" in a_.place.fields():
                            reads_attr = True
            ctx.require(reads_attr, "R-C13-10", "member-sets|%d" % n10, "the member set of a community node is built from its members' attributes",
                        "generate_graph builds the member set of a community node without reading its members' `attributes`: from the third level on the members are community indexes of the level below, not original nodes, so compute_one_level moves the wrong ids between communities -- the later levels are no longer partitions of the graph nor coarsenings of the level before", loc_str(t.span))
    ctx.floor("R-C13-10", "community_nodes_built", n10, 1)
    # ------------------------------------------------------------------ R-C13-12
    # an unweighted run ("weighted == false") works on unit weights: convert_graph replaces every weight by 1 exactly
    # then -- whatever weights the caller's edges carry.  If stored weights survive into an unweighted run the degrees and
    # neighbour weights are weighted while m is the edge COUNT, the gain is not the modularity change, and modularity can
    # decrease from one level to the next.
    ctx.rule("R-C13-12", "convert_graph normalises the weights to 1 exactly when `weighted` is false (no other test takes part in that decision)")
    cg = prog.find("louvain::convert_graph")
    n12 = 0
    for cb12 in cg:
        f12 = flows.of(cb12)
        for t12 in cb12.calls():
            if not (t12.callee and t12.callee.short.endswith("Graph::set_all_edge_weights")):
                continue
            n12 += 1
            atoms12 = controlling_atoms(f12, t12.bb)
            on_unweighted = any(isinstance(te, tuple) and te[0] == "place" and te[1] == "weighted" and v is False for (te, v, a) in atoms12)
            others = [fmt_desc(te)[:60] for (te, v, a) in atoms12 if not (isinstance(te, tuple) and te[0] == "place" and te[1] == "weighted") and not (isinstance(te, tuple) and te[0] == "place" and te[1].endswith("specs.multi_edges"))]
            ctx.require(on_unweighted and not others, "R-C13-12", "unit-weights|%d" % n12, "set_all_edge_weights(1.0) runs exactly on the `weighted == false` outcome",
                        "the replacement of the weights by 1 in convert_graph %s%s: an unweighted run on a graph whose edges carry weights keeps those weights, so degrees and neighbour weights are weighted while m counts edges -- the gain is no longer the modularity change and modularity can decrease between levels" % ("is not on the `weighted == false` outcome" if not on_unweighted else "also depends on ", "" if not others else ", ".join(others)), loc_str(t12.span))
    ctx.counters["unit_weight_normalisations"] = n12
    # ------------------------------------------------------------------ R-C13-13 (shared with C20)
    from props.c20 import working_graph_single_edge

    working_graph_single_edge(ctx, prog, flows, "R-C13-13")
    # ------------------------------------------------------------------ R-C13-11
    # the neighbour-community weights are sums over ALL neighbours of the node; the only neighbour that is skipped is
    # the node itself (its self-loop).  Skipping is `continue`: a loop over the neighbours that can be LEFT before the
    # iterator is exhausted drops every neighbour that comes after the one that triggered the exit, the gains are
    # computed from partial sums and the local-move loop loses its potential (it can oscillate forever).
    ctx.rule("R-C13-11", "the loops that accumulate a node's neighbour-community weights end only when the neighbours are exhausted (no break / return inside)")
    from hashord import natural_loop_blocks as _nlb11

    n11 = 0
    for p11 in sorted(prog.bodies):
        b11 = prog.bodies[p11]
        if b11.kind == "closure" or not b11.short.startswith("algorithms::community::louvain::") or "neighbor_weights" not in b11.short.split("::")[-1]:
            continue
        for t11 in b11.calls():
            if not (t11.callee and t11.callee.short == "std::iter::Iterator::next"):
                continue
            lb11 = _nlb11(b11, t11.bb)
            if len(lb11) <= 1:
                continue
            n11 += 1
            # the header's own exit: the switch on next()'s result (the block that follows the call)
            exits = []
            for x in lb11:
                for y in b11.succ(x):
                    if y not in lb11:
                        exits.append((x, y))
            hdr_switch = {y for y in b11.succ(t11.bb)} | {t11.bb}
            early = [(x, y) for (x, y) in exits if x not in hdr_switch]
            ctx.require(not early, "R-C13-11", "neighbour-loop|%s|%d" % (b11.short.split("::")[-1], n11), "the neighbour loop in %s runs until its iterator is exhausted" % b11.short.split("::")[-1],
                        "a loop over a node's neighbours in %s can be left before the iterator is exhausted (exit at %s): the neighbours after that point add nothing to the neighbour-community weights, the node's ties to its own community are under-counted and the local-move loop of compute_one_level can move nodes back and forth forever" % (b11.short, ", ".join(loc_str(b11.blocks[x].term.span) for (x, y) in early[:2])), loc_str(b11.blocks[early[0][0]].term.span) if early else loc_str(t11.span))
    ctx.counters["neighbour_weight_loops"] = n11  # no floor: an iterator chain has no early exit to look for; the positive example is the seeded fixture R10_C13
    # ------------------------------------------------------------------ R-C13-8
    from engines import check_unwrapped_callee_kinds

    n8 = check_unwrapped_callee_kinds(ctx, prog, flows, "R-C13-8", ("algorithms::community::louvain",), "louvain_partitions panics instead of returning its list of levels")
    ctx.floor("R-C13-8", "unwrapped_crate_calls_in_louvain", n8, 2)
    # ------------------------------------------------------------------ R-C13-7
    # Bookkeeping of the community totals is conservative: while a node is being evaluated its degree is taken out
    # of its community's total and afterwards put into the chosen community's total -- the SAME amount.  If the two
    # amounts have different provenance (one scaled, one not), every visit shifts the totals, the gains are computed
    # from drifting totals and modularity can decrease from one level to the next.
    ctx.rule("R-C13-7", "community totals: the amount added back by add_degree_to_best_com has the provenance of the amount subtract_degree_from_best_com took out")
    sub = prog.one("louvain::subtract_degree_from_best_com")
    add = prog.one("louvain::add_degree_to_best_com")
    PAIRS = {"stot": "degree", "stot_in": "in_degree", "stot_out": "out_degree"}

    def srcs(f_, reads):
        out = set()
        for n in f_.slice_local(reads, data_only=True):
            if n[0] == "SRC" and n[2]:
                fs = [x for x in n[2] if x != "*" and not str(x).startswith("[")]
                if fs:
                    out.add(str(fs[-1]))
        return out

    def amounts(body, op_name):
        """{total field: provenance of the amount combined into it with `op_name`}, {cached field: provenance}"""
        f_ = flows.of(body)
        tot = {}
        cached = {}
        for st in body.stmts():
            if st.k != "assign" or not st.lhs.has_deref():
                continue
            lf = st.lhs.fields()
            if lf and lf[-1] in PAIRS.values() and st.rv.ops:
                cached.setdefault(lf[-1], set()).update(srcs(f_, f_._op_reads(st.rv.ops[0])))
                continue
            if st.rv.k == "binop" and st.rv.j["op"] in (op_name, op_name + "Unchecked") and st.lhs.ty == "f64":
                fields = set()
                for o in f_.resolve(st.lhs):
                    if o[0] == "P" and len(o) > 2:
                        fields |= {str(x) for x in o[2] if x != "*"}
                for tf in PAIRS:
                    if tf in fields:
                        tot.setdefault(tf, set()).update(srcs(f_, f_._op_reads(st.rv.ops[1])))
        return tot, cached

    sub_tot, sub_cached = amounts(sub, "Sub")
    add_tot, _ = amounts(add, "Add")
    n_pairs = 0
    for tf, cf_ in sorted(PAIRS.items()):
        if tf not in sub_tot or tf not in add_tot:
            continue
        n_pairs += 1

        def expand(s_):
            out = set()
            for x in s_:
                if x in sub_cached:
                    out |= sub_cached[x]
                else:
                    out.add(x)
            return out

        taken = expand(sub_tot[tf])
        given = expand(add_tot[tf])
        ctx.require(taken == given, "R-C13-7", "conserve|" + tf, "what is added to `%s` is what was taken out of it (provenance %s)" % (tf, sorted(taken)), "`%s`: the amount taken out derives from %s but the amount put back derives from %s -- the totals drift with every visit of a node (e.g. with resolution != 1), so gains are computed from wrong totals and modularity can decrease between levels" % (tf, sorted(taken), sorted(given)), loc_str(add.span))
    ctx.floor("R-C13-7", "total_fields", n_pairs, 2)
