"""C20 -- valid calls on degenerate graphs return values or errors, never panic (partial)."""
import re

from core import ASSUME_AT, ASSUME_RUSTC, ASSUME_PATHS
from engines import errorkind_sites
from flow import Flows, L, fmt_desc, desc_mentions
from guard import Guards, graph_param, _reach_without_edge
import panic
from panic import enumerate_sites, origin_of, origin_call, existence_guard, load_review, norm_str, shape_str, norm, bool_atoms
from mir import loc_str, short

LEVEL = "other"
EXPLANATION = (
    "Panic-site analysis of every body of the crate (MIR).  Armed rules: R-C20-1 an unwrap/expect of the result of a crate "
    "function that can return WrongMethod under a spec condition must be discharged for that condition -- by a dominating test of "
    "the same spec field, by a dominating kind guard, or (for private functions and closures) at every call site, recursively; "
    "R-C20-2 in a function with an error channel, a caller-supplied node name (public parameter whose type mentions T) that reaches "
    "a name lookup whose failure is unwrapped must pass a dominating existence check somewhere on the way; R-C20-3 every MIR "
    "arithmetic Assert (overflow, division by zero) must be a constant-step counter on usize/i32, a sum of collection lengths, a "
    "division by a non-zero constant, an unsigned subtraction behind a dominating comparison guard, or reviewed; an unguarded "
    "unsigned subtraction/multiplication is a violation.  R-C20-4 inventories all remaining sites against the reviewed table "
    "(reported, not alarmed, unless a reviewed key gains sites).  R-C20-6 a buffer sized only under a condition is indexed only "
    "under that condition.  R-C20-7 the unwrapped edge lookups (eigenvector, Louvain, clustering) rely on `the pair came from the "
    "adjacency, so the edge is stored`: the keyed accesses to `edges`/`edges_map` in add_edge and in the crate functions whose "
    "result is unwrapped obey the stores' canonical-key discipline (same rule as R-C02-3).  R-C20-8 re-checks the premise of the reviewed Louvain unwraps: every graph to_single_edges returns has multi_edges = false.  R-C20-13: reductions over lists taken from the graph are unwrapped only behind an emptiness test of that list.  R-C20-14: no unwrapped lookup in a neighbour map keyed by a caller-chosen subset.  NOT decided: termination of loops (only absence of recursion is "
    "reported), panics inside dependencies, allocation failure."
)
TRUSTED = ["rustc MIR construction incl. overflow/div assert terminators (extracted with -C overflow-checks=on)", "std semantics of Option/Result/HashMap/Vec"]

NAME_TY_RE = re.compile(r"(^|[^A-Za-z0-9_])T($|[^A-Za-z0-9_])")


def name_typed(ty):
    return bool(NAME_TY_RE.search(ty)) and "Graph<" not in ty


class Kinds:
    """error-kind summaries of crate functions"""

    def __init__(self, prog, flows, guards):
        self.prog = prog
        self.flows = flows
        self.guards = guards
        self._wm = {}
        self._nf = None

    def wrongmethod_conditions(self, body, stack=()):
        """set of (field, value): body may return Err(WrongMethod) when specs.field == value"""
        if body.path in self._wm:
            return self._wm[body.path]
        if body.path in stack or not body.local_ty(0).startswith("std::result::Result<"):
            return set()
        out = set()
        fl = self.flows.of(body)
        for (bb, s, v) in errorkind_sites(body):
            if v != "WrongMethod":
                continue
            found = False
            for (a, succ) in body.transitive_control_deps(bb):
                at = fl.atom(a)
                test = at["test"]
                neg = False
                while test[0] == "unop" and test[1] == "Not":
                    neg = not neg
                    test = test[2]
                if test[0] == "place" and ".specs." in test[1] and at["ty"] == "bool":
                    field = test[1].split(".specs.")[-1]
                    val = succ == at["otherwise"]
                    if neg:
                        val = not val
                    out.add((field, val))
                    found = True
            if not found:
                out.add(("?", True))
        for t in body.calls():
            tp = t.callee.target_path(self.prog) if t.callee else None
            if tp and tp != body.path:
                cb = self.prog.bodies[tp]
                if cb.local_ty(0).startswith("std::result::Result<") and not self._is_unwrapped(body, t):
                    out |= self.wrongmethod_conditions(cb, stack + (body.path,))
        self._wm[body.path] = out
        return out

    def _is_unwrapped(self, body, t):
        for t2 in body.calls():
            if t2.callee and t2.callee.short in panic.UNWRAPS and t2.args and t2.args[0].place is not None and t2.args[0].place.local == t.dest.local:
                return True
        return False

    def name_lookup_fns(self):
        """crate functions that fail (NodeNotFound / EdgeNotFound / None) for an absent name"""
        if self._nf is not None:
            return self._nf
        nf = set()
        for p, b in self.prog.bodies.items():
            if b.kind == "closure":
                continue
            if any(v in ("NodeNotFound", "EdgeNotFound") for (_, _, v) in errorkind_sites(b)):
                nf.add(p)
            if b.local_ty(0).startswith("std::option::Option<"):
                for t in b.calls():
                    if t.callee and t.callee.short.endswith("HashMap::get"):
                        nf.add(p)
        changed = True
        while changed:
            changed = False
            for p, b in self.prog.bodies.items():
                if p in nf or b.kind == "closure":
                    continue
                rt = b.local_ty(0)
                if not (rt.startswith("std::result::Result<") or rt.startswith("std::option::Option<")):
                    continue
                for t in b.calls():
                    tp = t.callee.target_path(self.prog) if t.callee else None
                    if tp in nf and not self._is_unwrapped(b, t):
                        nf.add(p)
                        changed = True
                        break
        self._nf = nf
        return nf


def indexed_params(prog, flows, body):
    """{param index: guard} for parameters of `body` that it indexes directly (Index/IndexMut on the parameter's
    pointee).  guard = None (unconditional) or the name of a bool parameter whose true edge dominates the site"""
    fl = flows.of(body)
    out = {}
    for t in body.calls():
        if not t.callee or t.callee.short not in panic.INDEXERS or not t.args or t.args[0].place is None:
            continue
        if not t.callee.args or not (t.callee.args[0].startswith("std::vec::Vec<") or t.callee.args[0].startswith("[")):
            continue
        for o in fl._operand_pts(t.args[0]):
            if o[0] == "P" and not o[2] and 1 <= o[1] <= body.arg_count:
                guard = None
                for (bb, test, t_succ, f_succ) in bool_atoms(fl):
                    if isinstance(test, tuple) and test[0] == "place" and test[1] in body.param_names() and panic.passes_true_edge(body, bb, t_succ, t.bb):
                        guard = test[1]
                prev = out.get(o[1], "unset")
                if prev == "unset" or guard is None:
                    out[o[1]] = guard
    return out


def rule6(ctx, prog, flows):
    ctx.rule("R-C20-6", "a buffer that is sized only under a condition is indexed (here or in a callee it is handed to) only under that condition")
    n = 0
    for p in sorted(prog.bodies):
        b = prog.bodies[p]
        fl = flows.of(b)
        for l in b.locals:
            if not l["name"] or not l["ty"].startswith("std::vec::Vec<") or l["i"] <= b.arg_count:
                continue
            defs = b.assigns_to(l["i"])
            if len(defs) < 2:
                continue
            sized = []
            empty = []
            for (dbb, d) in defs:
                oc = d if getattr(d, "k", None) == "call" else (panic.origin_call(fl, d.rv.ops[0]) if getattr(d, "rv", None) is not None and d.rv.ops else None)
                nm = oc.callee.short if oc is not None and oc.callee else ""
                if nm.endswith("vec::from_elem") or nm.endswith("Vec::with_capacity") or nm.endswith("Vec::resize"):
                    sized.append((dbb, d))
                elif nm.endswith("Vec::new") or nm.endswith("Default::default"):
                    empty.append((dbb, d))
            if len(sized) != 1 or not empty:
                continue
            sbb = sized[0][0]
            cond = None
            for (bb, test, t_succ, f_succ) in bool_atoms(fl):
                if isinstance(test, tuple) and test[0] == "place" and panic.passes_true_edge(b, bb, t_succ, sbb):
                    cond = test[1]
            if cond is None:
                continue
            n += 1
            true_edges = [(bb, t_succ) for (bb, test, t_succ, f_succ) in bool_atoms(fl) if isinstance(test, tuple) and test == ("place", cond) and t_succ is not None]

            def under_cond(site_bb):
                return site_bb not in _reach_without_edges(b, true_edges)

            V = ("L", l["i"])
            bad = []
            for t in b.calls():
                if not t.callee or not t.args:
                    continue
                if t.callee.short in panic.INDEXERS and t.args[0].place is not None and V in fl._operand_pts(t.args[0]):
                    if not under_cond(t.bb):
                        bad.append(("indexed", t))
                tp = t.callee.target_path(prog)
                if tp:
                    ip = indexed_params(prog, flows, prog.bodies[tp])
                    for j, a in enumerate(t.args):
                        if a.place is None or V not in fl._operand_pts(a) or (j + 1) not in ip:
                            continue
                        guard = ip[j + 1]
                        cb = prog.bodies[tp]
                        if guard is not None:
                            # the callee indexes it only under its own bool parameter: that argument must be the condition itself
                            gi = cb.param_names().index(guard) if guard in cb.param_names() else None
                            ad = norm(fl.describe(t.args[gi], depth=6)) if gi is not None and gi < len(t.args) else None
                            if ad == ("place", cond):
                                continue
                        if not under_cond(t.bb):
                            bad.append(("handed to %s, which indexes it" % cb.short.split("::")[-1], t))
            key = "%s|%s" % (b.short, l["name"])
            if bad:
                what, t = bad[0]
                ctx.violation("R-C20-6", key, "`%s` in %s has its size only when `%s` is true (otherwise it is empty) but is %s on a path where `%s` may be false: index out of bounds panic" % (l["name"], b.short, cond, what, cond), loc_str(t.span))
            else:
                ctx.ok("R-C20-6", key, "`%s` in %s is sized under `%s` and every index use (incl. callees) is under `%s`" % (l["name"], b.short.split("::")[-1], cond, cond), loc_str(sized[0][1].span))
    ctx.floor("R-C20-6", "conditionally_sized_buffers", n, 1)


def enclosing_fn(prog, body):
    b = body
    while b.kind == "closure":
        b = prog.bodies[b.item["parent"]]
    return b


def run(ctx):
    prog = ctx.prog
    flows = Flows(prog)
    guards = Guards(prog, flows)
    kinds = Kinds(prog, flows, guards)
    review = load_review()
    ctx.assume(ASSUME_AT)
    ctx.assume(ASSUME_RUSTC)
    ctx.assume(ASSUME_PATHS)
    public = prog.public_fns()
    ctx.floor("R-C20-4", "public_functions", len(public), 80)
    all_sites = []
    for p in sorted(prog.bodies):
        b = prog.bodies[p]
        if b.item.get("derived") or enclosing_fn(prog, b).item.get("derived"):
            continue
        fl = flows.of(b)
        for s in enumerate_sites(b):
            s.origin = origin_of(fl, s)
            all_sites.append((b, fl, s))
    ctx.counters["panic_sites"] = len(all_sites)
    ctx.counters["unwrap_sites"] = sum(1 for x in all_sites if x[2].kind == "unwrap")
    ctx.counters["index_sites"] = sum(1 for x in all_sites if x[2].kind == "index")
    ctx.counters["arith_asserts"] = sum(1 for x in all_sites if x[2].kind == "arith")
    ctx.counters["explicit_panics"] = sum(1 for x in all_sites if x[2].kind == "explicit")
    ctx.floor("R-C20-4", "unwrap_sites", ctx.counters["unwrap_sites"], 50)
    ctx.floor("R-C20-4", "index_sites", ctx.counters["index_sites"], 50)
    ctx.floor("R-C20-3", "arith_asserts", ctx.counters["arith_asserts"], 12)

    handled = set()
    rule1(ctx, prog, flows, guards, kinds, all_sites, review, handled)
    rule2(ctx, prog, flows, kinds, all_sites, review, handled)
    rule3(ctx, prog, flows, all_sites, review, handled)
    rule4(ctx, prog, flows, all_sites, review, handled)
    rule6(ctx, prog, flows)
    rule7(ctx, prog, flows, all_sites)
    rule8(ctx, prog, flows)
    working_graph_single_edge(ctx, prog, flows, "R-C20-15")
    rule12(ctx, prog, flows)
    rule13(ctx, prog, flows)
    from props.c11 import subset_keyed_map_lookups

    subset_keyed_map_lookups(ctx, prog, flows, "R-C20-14")
    from engines import check_unwrapped_callee_kinds

    from props.c15 import subgraph_edge_source

    ctx.rule("R-C20-10", "get_subgraph unwraps the constructor's result: its edge argument holds every stored edge at most once (taken from get_all_edges alone), so DuplicateEdge cannot arise")
    subgraph_edge_source(ctx, prog, flows, "R-C20-10", "a repeated edge makes new_from_nodes_and_edges answer DuplicateEdge, and get_subgraph (and modularity / Louvain above it) unwrap that")
    from effects import Effects as _Eff
    from graphrules import node_append_behind_fresh_absence_test

    node_append_behind_fresh_absence_test(ctx, prog, flows, _Eff(prog, flows), "R-C20-11", "the same name is stored at two positions; the algorithms that renumber nodes by name (Louvain) or look a position up by name then unwrap a lookup that fails for the phantom position")
    n9 = check_unwrapped_callee_kinds(ctx, prog, flows, "R-C20-9", None, "a call that used to return a value now panics on the input that takes the new error path")
    ctx.floor("R-C20-9", "unwrapped_crate_calls", n9, 12)
    # R-C20-5: recursion inventory
    cg = prog.call_graph()
    rec = [c for c in prog.sccs(set(prog.bodies)) if len(c) > 1 or c[0] in cg.get(c[0], ())]
    ctx.rule("R-C20-5", "no recursion in the crate (termination of loops is NOT decided)")
    if rec:
        for c in rec:
            ctx.info("R-C20-5", "scc|" + "+".join(sorted(short(x) for x in c)), "recursive functions: %s" % [short(x) for x in c])
    else:
        ctx.ok("R-C20-5", "acyclic", "call graph over %d bodies is acyclic" % len(prog.bodies))


# ---------------------------------------------------------------------------------------- R-C20-1


def spec_discharge(prog, flows, guards, body, site_bb, field, value, depth=0, seen=None):
    """is block site_bb of body executed only when specs.field != value?  returns reason or None"""
    seen = seen or frozenset()
    if (body.path, site_bb) in seen or depth > 12:
        return None
    seen = seen | {(body.path, site_bb)}  # recursion stack, not a global visited set
    # (i) a dominating test of the spec field in this body
    for (bb, succs) in guards.spec_switches(body, field):
        cont = succs[not value]
        if cont is not None and site_bb not in _reach_without_edge(body, (bb, cont)):
            return "behind the specs.%s == %s edge at %s" % (field, str(not value).lower(), loc_str(body.blocks[bb].term.span))
    # (ii) a dominating kind guard (call to a refusing function)
    if body.kind != "closure":
        for (bb, cont, g) in guards.call_guard_switches(body, field, value, ()):
            if site_bb not in _reach_without_edge(body, (bb, cont)):
                return "behind the Ok edge of %s at %s" % (g.split("::")[-1], loc_str(body.blocks[bb].term.span))
    # (iii) every context that runs this body establishes it
    if body.kind == "closure":
        sites = flows.closure_sites(body.path)
        if not sites:
            return None
        why = []
        for (pp, s) in sites:
            r = spec_discharge(prog, flows, guards, prog.bodies[pp], s.bb, field, value, depth + 1, seen)
            if r is None:
                return None
            why.append(r)
        return "closure created " + "; ".join(sorted(set(why)))
    if body.item.get("reachable"):
        return None
    callers = flows.callers().get(body.path, [])
    # function items used as values (fn pointers) count as unknown callers
    for p2, b2 in prog.bodies.items():
        for c in b2.fn_values():
            if c.target_path(prog) == body.path:
                callers = callers + [(p2, None)]
    if not callers:
        return None
    why = []
    for (cp, bb) in callers:
        cb = prog.bodies[cp]
        if bb is None:
            # reified: the context of the reification site
            r = None
            for blk in cb.normal_blocks():
                ops = [o for s in blk.stmts if s.rv is not None for o in s.rv.ops]
                if any(o.is_const() and o.c and "fn" in o.c and (o.c.get("resolved") or o.c["fn"]) == body.path or (o.is_const() and o.c and o.c.get("fn") == body.path) for o in ops):
                    r = spec_discharge(prog, flows, guards, cb, blk.i, field, value, depth + 1, seen)
                    break
        else:
            r = spec_discharge(prog, flows, guards, cb, bb, field, value, depth + 1, seen)
        if r is None:
            return None
        why.append("%s: %s" % (cb.short.split("::")[-1], r))
    return "all %d call sites: %s" % (len(callers), "; ".join(sorted(set(why)))[:300])


def rule8(ctx, prog, flows):
    """the reviewed reason for Louvain's get_edge(..).unwrap() sites is `the working graph is single-edge because
    convert_graph passes multi-edge inputs through to_single_edges()`; that holds only if EVERY graph to_single_edges
    returns has specs.multi_edges == false -- re-checked here on every run"""
    from props.c15 import single_edges_specs

    ctx.rule("R-C20-8", "every graph returned by to_single_edges is built with specs.multi_edges = false (the premise of the reviewed unwraps of get_edge in Louvain)")
    b = prog.one("convert::Graph::to_single_edges")
    fl = flows.of(b)
    ctor = prog.one("creation::Graph::new_from_nodes_and_edges")
    calls = [t for t in b.calls() if t.callee and t.callee.target_path(prog) == ctor.path]
    if not calls:
        ctx.anchor_lost("R-C20-8", "the constructor call(s) of to_single_edges")
        return
    for i, c in enumerate(calls):
        ok, over = single_edges_specs(b, fl, c)
        ctx.require(ok, "R-C20-8", "specs|%d" % i, "the result is built with the source's specs and multi_edges = false", "to_single_edges can return a graph whose specs still say multi_edges = true (overrides %s): Louvain's working graph is then a multigraph and its get_edge(..).unwrap() panics with WrongMethod" % over, loc_str(c.span))


def working_graph_single_edge(ctx, prog, flows, rid):
    """the other premise of the same reviewed reason: convert_graph hands EVERY multi-edge input to to_single_edges.  In
    the world `specs.multi_edges == true` (the false outcomes of its tests deleted from the CFG) the function's return is
    unreachable once the to_single_edges call is removed too -- a second condition on that call (`&& weighted`) leaves
    a way round it, and Louvain's working graph is then a multigraph on which get_edge(..).unwrap() panics."""
    from guard import Guards

    ctx.rule(rid, "convert_graph passes every multi-edge input through to_single_edges (must-pass-through in the world specs.multi_edges == true)")
    g = Guards(prog, flows)
    n = 0
    for cb in prog.find("louvain::convert_graph"):
        calls = [t for t in cb.calls() if t.callee and t.callee.short.endswith("Graph::to_single_edges")]
        sw = g.spec_switches(cb, "multi_edges")
        if not calls or not sw:
            ctx.anchor_lost(rid, "the to_single_edges call under a test of specs.multi_edges in convert_graph")
            return
        n += 1
        dele = [(bb, succs[False]) for (bb, succs) in sw if succs.get(False) is not None]
        for t in calls:
            dele += [(p_, t.bb) for p_ in cb.pred(t.bb)]
        reach = cb.reach_avoiding_edges(dele, 0)
        rets = [r_ for r_ in cb.return_blocks() if r_ in reach]
        ctx.require(not rets, rid, "collapse-always|%d" % n, "on a multi-edge input the return of convert_graph is reached only through to_single_edges",
                    "convert_graph can return for a graph with specs.multi_edges == true without having called to_single_edges (the call depends on a further condition): Louvain's working graph keeps multi_edges = true and get_edge(u, v).unwrap() in the local-moving phase panics with WrongMethod", loc_str(calls[0].span))
    ctx.floor(rid, "convert_graph_bodies", n, 1)


def rule7(ctx, prog, flows, all_sites):
    """unwrapped edge lookups (eigenvector, Louvain, clustering) are justified by `the pair was taken from the
    adjacency, so the edge is stored`; that argument needs lookup and insertion to canonicalise the key alike"""
    from props.c02 import key_discipline

    roots = set()
    for (b, fl, s) in all_sites:
        if s.kind != "unwrap":
            continue
        oc = origin_call(fl, s.operand)
        if oc is not None and oc.callee:
            tp = oc.callee.target_path(prog)
            if tp:
                roots.add(tp)
    ctx.counters["unwrapped_crate_callees"] = len(roots)
    add_edge = prog.one("creation::Graph::add_edge")
    only = prog.reachable_bodies(sorted(roots | {add_edge.path}))
    key_discipline(ctx, prog, flows, "R-C20-7", only, 5, 5, why=" -- restricted to add_edge and the crate functions whose result is unwrapped somewhere: an edge taken from the adjacency is found again only if lookup and insertion canonicalise alike")


def rule1(ctx, prog, flows, guards, kinds, all_sites, review, handled):
    ctx.rule("R-C20-1", "an unwrapped crate call that can return WrongMethod under a spec condition is discharged for that condition (dominating spec test / kind guard / all call sites)")
    n = 0
    for (b, fl, s) in all_sites:
        if s.kind != "unwrap":
            continue
        oc = origin_call(fl, s.operand)
        if oc is None:
            continue
        targets = []
        if oc.callee:
            tp = oc.callee.target_path(prog)
            if tp:
                targets = [tp]
        else:
            targets = [c.target_path(prog) for c in b.fn_values() if c.target_path(prog)]
        conds = set()
        for tp in targets:
            conds |= kinds.wrongmethod_conditions(prog.bodies[tp])
        if not conds:
            continue
        n += 1
        handled.add(id(s))
        key = s.key()
        und = []
        whys = []
        for (field, value) in sorted(conds, key=str):
            r = spec_discharge(prog, flows, guards, b, s.node.bb, field, value)
            if r is None:
                und.append((field, value))
            else:
                whys.append("%s=%s: %s" % (field, str(value).lower(), r))
        callee_s = "/".join(short(t).split("::")[-1] for t in targets)
        if not und:
            ctx.ok("R-C20-1", key, "%s(..).%s in %s cannot see WrongMethod: %s" % (callee_s, s.what, b.short, "; ".join(whys)[:400]), s.site())
            continue
        rv = review.get(key)
        if rv is not None and rv.get("verdict") == "safe":
            ctx.ok("R-C20-1", key, "%s(..).%s in %s: reviewed -- %s" % (callee_s, s.what, b.short, rv["reason"]), s.site())
            continue
        ctx.violation(
            "R-C20-1",
            key,
            "%s in %s unwraps %s(..), which returns WrongMethod when %s; no dominating spec test or kind guard excludes that (panic on such graphs)"
            % (s.what, b.short, callee_s, " or ".join("specs.%s == %s" % (f, str(v).lower()) for f, v in und)),
            s.site(),
        )
    ctx.floor("R-C20-1", "kind_restricted_unwraps", n, 4)


# ---------------------------------------------------------------------------------------- R-C20-2


def key_operands(fl, oc, prog, kinds):
    """operands of the producing call that are node names (by type)"""
    out = []
    for a in oc.args:
        if a.place is not None and name_typed(a.place.ty):
            out.append(a)
    return out


def sanitized_here(fl, site_bb, desc):
    """a dominating existence test whose key mentions the same root variable"""
    b = fl.b
    roots = set()

    def collect(d):
        if isinstance(d, tuple) and d:
            if d[0] == "place":
                roots.add(d[1].split(".")[0].split("[")[0])
            for x in d[1:]:
                if isinstance(x, tuple):
                    if x and isinstance(x[0], tuple):
                        for y in x:
                            collect(y)
                    else:
                        collect(x)

    collect(desc)
    if not roots:
        return None
    # variables bound from a root (`if let Some(n) = root.clone()`, `let n = root.unwrap()`, ...) stand for
    # the same name: a named, name-typed local whose value derives (data only) from a root joins the roots
    root_locals = {l for r in roots for l in b.locals_named(r)} | {i for i in range(1, b.arg_count + 1) if b.local_name(i) in roots}
    if root_locals:
        for l in b.locals:
            nm_ = l["name"]
            if not nm_ or nm_ in roots or l["i"] <= b.arg_count or not name_typed(l["ty"]):
                continue
            sl_ = fl.slice_local({("L", l["i"])}, data_only=True)
            if any(n[0] == "L" and n[1] in root_locals for n in sl_):
                roots.add(nm_)
    coll_roots = set()
    # ... and upwards: a root that is an ELEMENT of a named collection of names (`for source in sources`, the loop form
    # of `sources.into_iter().map(|source| ..)`) is covered by a test on the collection (`has_nodes(&sources)`)
    for r in list(roots):
        for l in b.locals_named(r):
            if l <= b.arg_count:
                continue
            sl_ = fl.slice_local({("L", l)}, data_only=True)
            for n in sl_:
                if n[0] == "L" and isinstance(n[1], int):
                    nm_ = b.local_name(n[1])
                    ty_ = b.local_ty(n[1])
                    if nm_ and nm_ not in roots and name_typed(ty_) and (ty_.startswith("std::vec::Vec<") or ty_.startswith("&[") or ty_.startswith("&std::vec::Vec<") or ty_.startswith("&mut std::vec::Vec<")):
                        coll_roots.add(nm_)
    good_edges = []
    why = []
    # `if let Some(n) = root` / `match root { None => .., Some(n) => .. }`: on the None edge there is no name
    for (bb, test, targets, otherwise) in panic.discr_atoms(fl):
        if not str(test[2]).lstrip("&").startswith("std::option::Option<"):
            continue
        sl_ = fl.slice_local(fl._op_reads(b.blocks[bb].term.discr), data_only=True)
        if not any(n[0] == "L" and n[1] in root_locals for n in sl_):
            continue
        if any(n[0] == "CALL" and b.blocks[n[1]].term.callee and b.blocks[n[1]].term.callee.short.split("::")[-1] in ("get_node", "get_node_index", "get") for n in sl_):
            continue
        none_succ = targets.get(0)
        if none_succ is None and 1 in targets:
            none_succ = otherwise
        if none_succ is not None:
            good_edges.append((bb, none_succ))
            why.append("None edge at %s" % loc_str(b.blocks[bb].term.span))
    mentions_root = lambda k: desc_mentions(k, lambda d: d[0] == "place" and d[1].split(".")[0].split("[")[0] in roots)
    mentions_coll = lambda k: desc_mentions(k, lambda d: d[0] == "place" and d[1] in coll_roots)
    for (bb, test, t_succ, f_succ) in bool_atoms(fl):
        if isinstance(test, tuple) and test[0] == "place" and "." not in test[1]:
            # a named boolean: the edge on which it is true / false implies the tests it was computed from
            for (succ_, lab) in ((t_succ, "true"), (f_succ, "false")):
                if succ_ is None:
                    continue
                for (it_, truth_) in panic.implied_tests(fl, bb, succ_):
                    if isinstance(it_, tuple) and it_[0] == "call" and it_[1].split("::")[-1] in ("contains_key", "has_node", "has_nodes", "contains") and truth_ is True and any(mentions_root(k) for k in it_[2][1:]):
                        good_edges.append((bb, succ_))
                        why.append("%s is %s (implies %s) at %s" % (test[1], lab, it_[1].split("::")[-1], loc_str(b.blocks[bb].term.span)))
            continue
        if not (isinstance(test, tuple) and test[0] == "call"):
            continue
        nm = test[1].split("::")[-1]
        if nm in ("contains_key", "has_node", "has_nodes", "contains"):
            if any(mentions_root(k) for k in test[2][1:]) and t_succ is not None:
                good_edges.append((bb, t_succ))
                why.append("%s at %s" % (nm, loc_str(b.blocks[bb].term.span)))
            elif nm == "has_nodes" and any(mentions_coll(k) for k in test[2][1:]) and t_succ is not None:
                # the whole collection the name is an element of was checked
                good_edges.append((bb, t_succ))
                why.append("has_nodes(collection) at %s" % loc_str(b.blocks[bb].term.span))
        elif nm in ("is_none", "is_err") and test[2]:
            if desc_mentions(test, lambda d: d[0] == "call" and d[1].split("::")[-1] in ("get_node", "get_node_index", "get")) and mentions_root(test):
                if f_succ is not None:
                    good_edges.append((bb, f_succ))
                    why.append("%s(lookup) false edge at %s" % (nm, loc_str(b.blocks[bb].term.span)))
            elif mentions_root(test[2][0]) and t_succ is not None and nm == "is_none":
                # the optional name is absent on this edge: nothing to look up
                good_edges.append((bb, t_succ))
                why.append("is_none at %s" % loc_str(b.blocks[bb].term.span))
        elif nm == "is_some" and test[2] and mentions_root(test[2][0]) and f_succ is not None:
            if not desc_mentions(test, lambda d: d[0] == "call" and d[1].split("::")[-1] in ("get_node", "get_node_index", "get")):
                good_edges.append((bb, f_succ))
                why.append("!is_some at %s" % loc_str(b.blocks[bb].term.span))
    # a boolean computed from an existence test and tested later (`let missing = names.is_some_and(|n| !g.has_nodes(n));
    # if missing { return Err }`): the paths on which that test is known to be true are avoided as well
    conds = set()
    for t_ in b.calls():
        if t_.callee and t_.callee.short.split("::")[-1] in ("contains_key", "has_node", "has_nodes", "contains") and t_.dest.ty == "bool":
            if any(mentions_root(norm(fl.describe(a_, depth=8))) for a_ in t_.args[1:]):
                conds.add((t_.bb, True))
    if (good_edges or conds) and site_bb not in _reach_without_edges(b, good_edges, conds):
        if conds and not why:
            why.append("existence test result tested later")
        return "; ".join(why)
    # `ensure_xxx(graph, names)?`: the Ok edge of a crate function that itself returns Ok only behind an
    # existence test of that parameter
    for blk in b.normal_blocks():
        if blk.term.k != "switch":
            continue
        d = fl.describe(blk.term.discr, depth=8)
        if d[0] != "discr":
            continue
        sl = fl.slice_local(fl._op_reads(blk.term.discr), data_only=True)
        for n in sl:
            if n[0] != "CALL":
                continue
            t = b.blocks[n[1]].term
            tp = t.callee.target_path(fl.prog) if t.callee else None
            if not tp:
                continue
            for ai, a in enumerate(t.args):
                if a.place is None or not name_typed(a.place.ty):
                    continue
                if not desc_mentions(norm(fl.describe(a, depth=8)), lambda d: d[0] == "place" and d[1].split(".")[0] in roots):
                    continue
                if is_existence_check_fn(fl.prog, _FLOWS[0], tp, ai + 1):
                    cont = dict(blk.term.targets).get(0, blk.term.otherwise)
                    if site_bb not in _reach_without_edge(b, (blk.i, cont)):
                        return "Ok edge of %s at %s" % (short(tp).split("::")[-1], loc_str(t.span))
    # `get_node_index(&x)?` earlier on every path: a Try::branch switch on a lookup of the same root
    for blk in b.normal_blocks():
        if blk.term.k != "switch":
            continue
        d = fl.describe(blk.term.discr, depth=8)
        if d[0] == "discr":
            sl = fl.slice_local(fl._op_reads(blk.term.discr), data_only=True)
            for n in sl:
                if n[0] == "CALL":
                    t = b.blocks[n[1]].term
                    if t.callee and t.callee.short.split("::")[-1] in ("get_node_index", "get_node") and any(desc_mentions(norm(fl.describe(a, depth=8)), lambda d: d[0] == "place" and d[1].split(".")[0] in roots) for a in t.args[1:]):
                        cont = dict(blk.term.targets).get(0, blk.term.otherwise)
                        if site_bb not in _reach_without_edge(b, (blk.i, cont)):
                            return "lookup with `?` at %s" % loc_str(t.span)
    return None


_FLOWS = [None]
_EXIST_MEMO = {}


def is_existence_check_fn(prog, flows, path, param):
    """crate function returning Result whose every Ok is behind an existence test of parameter `param`"""
    from guard import ok_producers

    k = (path, param)
    if k in _EXIST_MEMO:
        return _EXIST_MEMO[k]
    _EXIST_MEMO[k] = False
    body = prog.bodies[path]
    prods = ok_producers(body)
    res = False
    if prods:
        fl = flows.of(body)
        nm = body.local_name(param)
        if nm:
            res = all(sanitized_here(fl, bb, ("place", nm)) for (bb, _, _) in prods)
    _EXIST_MEMO[k] = res
    return res


def param_sources(flows, body, fl, operand):
    """parameters of `body` (indices) the operand's value derives from (data), and whether it also
    derives from the graph's own stores"""
    sl = flows.slice(body.path, fl._op_reads(operand), up=False, down="clos", data_only=True, skip_selectors=True, skip_captures=True)
    params = set()
    for (bp, n) in sl:
        if bp == body.path and n[0] in ("L", "SRC") and isinstance(n[1], int) and 1 <= n[1] <= body.arg_count:
            params.add(n[1])
        if bp == body.path and n[0] == "UPV":
            params.add(("upv", n[1]))
    return params


def trace_name_taint(prog, flows, body, bb, operand, depth=0, seen=None):
    """follow a name operand back to public parameters.  returns list of chains
    [(public fn, param name, [frames...])] that reach it WITHOUT an existence check"""
    seen = seen if seen is not None else set()
    fl = flows.of(body)
    k = (body.path, bb, repr(operand))
    if k in seen or depth > 6:
        return []
    seen.add(k)
    desc = norm(fl.describe(operand, depth=10))
    if sanitized_here(fl, bb, desc):
        return []
    out = []
    for p in param_sources(flows, body, fl, operand):
        if isinstance(p, tuple):
            # closure upvar: continue at the creation site with the captured operand
            caps = [c["name"] for c in body.item.get("captures", [])]
            for (pp, s) in flows.closure_sites(body.path):
                for ci, cn in enumerate(caps):
                    if cn == p[1] and ci < len(s.rv.ops) and name_typed(s.rv.ops[ci].place.ty if s.rv.ops[ci].place is not None else ""):
                        out += trace_name_taint(prog, flows, prog.bodies[pp], s.bb, s.rv.ops[ci], depth + 1, seen)
            continue
        pty = body.local_ty(p)
        if not name_typed(pty):
            continue
        if body.kind == "closure":
            if p >= 2:
                # item of an adaptor: derives from the adaptor's receiver at the creation site
                for (pp, s) in flows.closure_sites(body.path):
                    pb = prog.bodies[pp]
                    pf = flows.of(pb)
                    cl = pf.copies_of(s.lhs.local)
                    for t in pb.calls():
                        if any(a.place is not None and a.place.local in cl for a in t.args):
                            for a in t.args:
                                if a.place is not None and a.place.local not in cl and name_typed(a.place.ty):
                                    out += trace_name_taint(prog, flows, pb, t.bb, a, depth + 1, seen)
            continue
        pname = body.local_name(p) or ("arg%d" % p)
        if body.item.get("reachable"):
            out.append((body.short, pname, [body.short]))
        for (cp, cbb) in flows.callers().get(body.path, []):
            cb = prog.bodies[cp]
            t = cb.blocks[cbb].term
            if p - 1 < len(t.args):
                for ch in trace_name_taint(prog, flows, cb, cbb, t.args[p - 1], depth + 1, seen):
                    out.append((ch[0], ch[1], ch[2] + [body.short]))
    return out


def _reach_without_edges(body, edges, conds=()):
    return body.reach_avoiding_edges(edges, conds=conds)


def has_error_channel(body):
    rt = body.local_ty(0)
    return rt.startswith("std::result::Result<") or rt.startswith("std::option::Option<")


def rule2(ctx, prog, flows, kinds, all_sites, review, handled):
    _FLOWS[0] = flows
    _EXIST_MEMO.clear()
    ctx.rule("R-C20-2", "a caller-supplied node name that reaches an unwrapped name lookup passes a dominating existence check (functions with an error channel)")
    nf = kinds.name_lookup_fns()
    n = 0
    for (b, fl, s) in all_sites:
        if s.kind != "unwrap":
            continue
        oc = origin_call(fl, s.operand)
        if oc is None:
            continue
        tps = []
        if oc.callee:
            tp = oc.callee.target_path(prog)
            if tp in nf:
                tps = [tp]
            elif oc.callee.short.endswith("HashMap::get") and oc.args and oc.args[0].place is not None and ("nodes_map" in fl.field_path(oc.args[0].place) or "graph" in oc.args[0].place.ty):
                tps = ["HashMap::get(nodes_map)"]
        else:
            tps = [c.target_path(prog) for c in b.fn_values() if c.target_path(prog) in nf]
        if not tps:
            continue
        keys = key_operands(fl, oc, prog, kinds)
        if not keys:
            continue
        n += 1
        chains = []
        for kop in keys:
            chains += trace_name_taint(prog, flows, b, s.node.bb, kop)
        key = s.key()
        callee_s = "/".join(short(t).split("::")[-1] for t in tps)
        if not chains:
            ctx.ok("R-C20-2", key, "%s(..).%s in %s: the name never comes unchecked from a public parameter" % (callee_s, s.what, b.short), s.site())
            continue
        handled.add(id(s))
        with_channel = [c for c in chains if has_error_channel(prog.one(c[0]) if False else [x for x in prog.bodies.values() if x.short == c[0]][0])]
        without = [c for c in chains if c not in with_channel]
        for c in without:
            ctx.info("R-C20-2", key + "|" + c[0], "caller-supplied `%s` of %s (no error channel: exempt by the statement) reaches %s(..).%s" % (c[1], c[0], callee_s, s.what), s.site())
        if with_channel:
            rv = review.get(key)
            if rv is not None and rv.get("verdict") == "safe":
                ctx.ok("R-C20-2", key, "reviewed -- " + rv["reason"], s.site())
                continue
            c = with_channel[0]
            ctx.violation(
                "R-C20-2",
                key,
                "caller-supplied name `%s` of public %s reaches %s(..).%s in %s without an existence check (path %s): an unknown name panics although the function has an error channel"
                % (c[1], c[0], callee_s, s.what, b.short, " -> ".join(x.split("::")[-1] for x in c[2])),
                s.site(),
            )
        elif not without:
            ctx.ok("R-C20-2", key, "no unchecked public source", s.site())
    ctx.floor("R-C20-2", "name_lookup_unwraps", n, 8)


# ---------------------------------------------------------------------------------------- R-C20-3


def comparison_guard(fl, site_bb, x_desc, minimum):
    """idiom 4: a dominating comparison establishing x >= minimum (x > minimum-1, !(x <= minimum-1), ...)"""
    b = fl.b
    xs = fmt_desc(x_desc)
    for (bb, test, t_succ, f_succ) in bool_atoms(fl):
        if not (isinstance(test, tuple) and test[0] == "binop"):
            continue
        op, a, c = test[1], test[2], test[3]
        sa, sc = fmt_desc(a), fmt_desc(c)

        def cint(d):
            if d[0] == "const":
                m = re.match(r"const (\d+)_", d[1])
                return int(m.group(1)) if m else None
            return None

        edge = None
        if sa == xs and cint(c) is not None:
            k = cint(c)
            if op == "Gt" and k >= minimum - 1:
                edge = t_succ
            elif op == "Ge" and k >= minimum:
                edge = t_succ
            elif op == "Le" and k >= minimum - 1:
                edge = f_succ
            elif op == "Lt" and k >= minimum:
                edge = f_succ
            elif op == "Eq" and minimum == 1 and k == 0:
                edge = f_succ
            elif op == "Ne" and minimum == 1 and k == 0:
                edge = t_succ
        elif sc == xs and cint(a) is not None:
            k = cint(a)
            if op == "Lt" and k >= minimum - 1:
                edge = t_succ
            elif op == "Le" and k >= minimum:
                edge = t_succ
            elif op == "Ge" and k >= minimum - 1:
                edge = f_succ
            elif op == "Gt" and k >= minimum:
                edge = f_succ
        if edge is not None and panic.passes_true_edge(b, bb, edge, site_bb):
            return "dominated by %s(%s, %s) at %s" % (op, sa, sc, loc_str(b.blocks[bb].term.span))
    # the items a closure sees may have passed an upstream `.filter(|x| len(x) > k)` of the same iterator chain
    if b.kind == "closure" and _FLOWS[0] is not None:
        flows = _FLOWS[0]
        want = shape_str(x_desc)
        for (pp, s_) in flows.closure_sites(b.path):
            pf = flows.of(pp)
            cl = pf.copies_of(s_.lhs.local)
            for t in pf.b.calls():
                if not t.callee or not any(a.place is not None and a.place.local in cl for a in t.args[1:]):
                    continue
                recv = t.args[0]
                hops = 0
                while recv is not None and hops < 8:
                    hops += 1
                    oc = panic.origin_call(pf, recv)
                    if oc is None or not oc.callee or not oc.args:
                        break
                    if oc.callee.short.endswith("Iterator::filter") and len(oc.args) > 1:
                        fc = None
                        for a in oc.args[1:]:
                            if a.place is not None and a.place.local in pf.closure_locals:
                                fc = pf.closure_locals[a.place.local]
                            elif a.is_const() and a.c and "closure" in a.c:
                                fc = a.c["closure"]
                        if fc and fc in flows.prog.bodies:
                            fb = flows.prog.bodies[fc]
                            ff = flows.of(fb)
                            for (dbb, d) in fb.assigns_to(0):
                                rv = getattr(d, "rv", None)
                                dd = norm(ff.describe_def(d, depth=8)) if rv is not None else None
                                if isinstance(dd, tuple) and dd[0] == "binop":
                                    op2, a2, c2 = dd[1], dd[2], dd[3]
                                    k2 = None
                                    if shape_str(a2) == want and c2[0] == "const":
                                        m2 = re.match(r"const (\d+)_", c2[1])
                                        k2 = int(m2.group(1)) if m2 else None
                                        okf = k2 is not None and ((op2 == "Gt" and k2 >= minimum - 1) or (op2 == "Ge" and k2 >= minimum))
                                    elif shape_str(c2) == want and a2[0] == "const":
                                        m2 = re.match(r"const (\d+)_", a2[1])
                                        k2 = int(m2.group(1)) if m2 else None
                                        okf = k2 is not None and ((op2 == "Lt" and k2 >= minimum - 1) or (op2 == "Le" and k2 >= minimum))
                                    else:
                                        okf = False
                                    if okf and len(fb.assigns_to(0)) == 1:
                                        return "items pass an upstream filter %s(%s, %s) at %s" % (op2, fmt_desc(a2), fmt_desc(c2), loc_str(oc.span))
                    recv = oc.args[0]
    return None


def is_len_like(d):
    return isinstance(d, tuple) and d[0] == "call" and d[1].split("::")[-1] in ("len", "count", "number_of_nodes", "number_of_edges")


KEYMAP = []  # (legacy key, key) per arithmetic site; used by the one-off key migration only
COUNT_CALLS = ("len", "count", "number_of_nodes", "number_of_edges")


def count_like(b, op, seen=None, depth=0):
    """the operand is a count of items that exist in memory: a constant, a len()/count(), a copy or
    widening cast of one, a min/max/saturating_sub of one, a sum of such (through the checked-add
    tuple), or such a value returned by a crate function (also as a tuple component); loop
    accumulators are accepted co-inductively.  Parameters and struct fields are not count-like."""
    if seen is None:
        seen = set()
    if op.is_const():
        c = op.const_int()
        return c is not None and c >= 0
    p = op.place
    if p is None or depth > 14:
        return False
    if p.proj:
        if len(p.proj) == 1 and isinstance(p.proj[0], dict) and str(p.proj[0].get("f", "")).isdigit() and not (1 <= p.local <= b.arg_count):
            k = int(p.proj[0]["f"])
            defs = b.assigns_to(p.local)
            if len(defs) == 1:
                d = defs[0][1]
                rv = getattr(d, "rv", None)
                # `.0` of the (value, overflowed) tuple of a checked addition
                if rv is not None and rv.k == "binop" and rv.j["op"] == "AddWithOverflow" and k == 0:
                    return all(count_like(b, o, seen, depth + 1) for o in rv.ops)
                # a component of a tuple built here
                if rv is not None and rv.k == "aggr" and rv.j.get("ak") == "tuple" and k < len(rv.ops):
                    return count_like(b, rv.ops[k], seen, depth + 1)
                # a component of the tuple a crate function returns
                if getattr(d, "k", None) == "call" and d.callee:
                    return _returns_count(b.prog, d.callee.target_path(b.prog), k, seen, depth + 1)
        return False
    l = p.local
    if 1 <= l <= b.arg_count:
        return False
    if (b.path, l) in seen:
        return True
    seen = seen | {(b.path, l)}
    defs = b.assigns_to(l)
    if not defs:
        return False
    for (bb, d) in defs:
        if getattr(d, "k", None) == "call":
            nm = d.callee.short.split("::")[-1] if d.callee else ""
            if nm in COUNT_CALLS:
                continue
            if nm in ("min", "max") and all(count_like(b, a, seen, depth + 1) for a in d.args):
                continue
            if nm == "saturating_sub" and d.args and count_like(b, d.args[0], seen, depth + 1):
                continue
            if d.callee and d.callee.target_path(b.prog) and _returns_count(b.prog, d.callee.target_path(b.prog), None, seen, depth + 1):
                continue
            return False
        rv = d.rv
        if d.lhs.proj:
            return False
        if rv.k == "use" and count_like(b, rv.ops[0], seen, depth + 1):
            continue
        if rv.k == "cast" and rv.j.get("ck", "").startswith("IntToInt") and rv.j.get("to") in ("usize", "u64") and count_like(b, rv.ops[0], seen, depth + 1):
            continue
        if rv.k == "binop" and rv.j["op"] in ("Add", "AddUnchecked") and all(count_like(b, o, seen, depth + 1) for o in rv.ops):
            continue
        return False
    return True


def _returns_count(prog, path, component, seen, depth):
    """every value the crate function returns (or the given component of the tuple it returns) is count-like"""
    if not path or path not in prog.bodies or depth > 14:
        return False
    cb = prog.bodies[path]
    from mir import Operand

    ret = Operand({"k": "copy", "place": {"l": 0, "p": [] if component is None else [{"f": str(component), "i": component, "ty": "usize", "of": ""}], "ty": "usize"}})
    if component is None:
        return count_like(cb, ret, seen, depth)
    # _0 is assigned as a whole tuple (aggregate) or field by field
    defs = cb.assigns_to(0)
    if not defs:
        return False
    for (bb, d) in defs:
        rv = getattr(d, "rv", None)
        if rv is None:
            return False
        if d.lhs.proj:
            fs = [e for e in d.lhs.proj if isinstance(e, dict) and "f" in e]
            if len(fs) == 1 and str(fs[0]["f"]) == str(component):
                if rv.k == "use" and count_like(cb, rv.ops[0], seen, depth + 1):
                    continue
                return False
            continue
        if rv.k == "aggr" and rv.j.get("ak") == "tuple" and component < len(rv.ops):
            if count_like(cb, rv.ops[component], seen, depth + 1):
                continue
            return False
        if rv.k == "use" and rv.ops[0].place is not None and not rv.ops[0].place.proj:
            # `_0 = move _t` where _t is the tuple
            from mir import Place

            o2 = Operand({"k": "copy", "place": {"l": rv.ops[0].place.local, "p": [{"f": str(component), "i": component, "ty": "usize", "of": ""}], "ty": "usize"}})
            if count_like(cb, o2, seen, depth + 1):
                continue
        return False
    return True


INT_TYS = ("usize", "u64", "u32", "i32", "i64", "isize", "u16", "i16", "u8", "i8", "&usize", "&i32", "&u64", "&i64", "&u32")


def int_param_reaches(flows, b, fl, operands):
    """does an integer-typed parameter of a public function reach one of the operands (data flow, through callers)?"""
    prog = flows.prog
    for o in operands:
        if o.place is None:
            continue
        sl = flows.slice(b.path, fl._op_reads(o), up=True, down=False, data_only=True, max_nodes=40000)
        for (bp, n) in sl:
            if n[0] in ("L", "SRC") and isinstance(n[1], int):
                pb = prog.bodies[bp]
                if pb.kind in ("fn", "assoc_fn") and 1 <= n[1] <= pb.arg_count and pb.local_ty(n[1]) in INT_TYS and pb.item.get("reachable"):
                    return True
    return False


def rule3(ctx, prog, flows, all_sites, review, handled):
    ctx.rule("R-C20-3", "every arithmetic Assert is a constant-step counter, a sum of lengths, a division by a non-zero constant, a guarded unsigned subtraction, or reviewed")
    groups = {}
    for (b, fl, s) in all_sites:
        if s.kind != "arith":
            continue
        handled.add(id(s))
        t = s.node
        mk = t.j["msg_kind"]
        auto = None
        und = None
        detail = t.j["msg"]
        kshape = re.sub(r"\b_\d+\b", "_", t.j["msg_kind"])
        if mk in ("DivisionByZero", "RemainderByZero"):
            if panic.const_divisor_nonzero(b, t):
                auto = "division by a non-zero constant"
        elif mk == "Overflow":
            ao = panic.assert_operands(b, t)
            if ao:
                op, x, y, st = ao
                ty = x.place.ty if x.place is not None else (y.place.ty if y.place is not None else "")
                dx, dy = norm(fl.describe(x, depth=8)), norm(fl.describe(y, depth=8))
                detail = "%s(%s, %s): %s" % (op, fmt_desc(dx), fmt_desc(dy), ty)
                legacy = "arith|%s|%s" % (b.short, "%s(%s, %s): %s" % (op, shape_str(dx), shape_str(dy), ty))
                if panic.LEGACY_KEYS:
                    kshape = "%s(%s, %s): %s" % (op, shape_str(dx), shape_str(dy), ty)
                else:
                    kshape = "%s(%s, %s): %s" % (op, shape_str(norm(panic.expand_names(fl, dx))), shape_str(norm(panic.expand_names(fl, dy))), ty)
                if op == "Add" and (x.is_const() or y.is_const()) and ty in ("usize", "u64", "i32", "i64", "u32"):
                    other = dy if x.is_const() else dx
                    c = (x if x.is_const() else y).const_int()
                    if c is not None and 0 <= c <= 2 and ty in ("usize", "u64"):
                        auto = "constant-step (+%d) %s counter: cannot reach %s::MAX before memory is exhausted" % (c, ty, ty)
                elif op == "Add" and is_len_like(dx) and is_len_like(dy):
                    auto = "sum of two collection lengths"
                elif op == "Add" and ty in ("usize", "u64") and count_like(b, x) and count_like(b, y):
                    auto = "sum of counts of items that exist in memory (lengths, counters and their sums): cannot reach %s::MAX" % ty
                elif op == "Add" and ty in ("usize", "u64") and not int_param_reaches(flows, b, fl, [x, y]):
                    # a 64-bit unsigned addition whose operands are computed from the graph alone (no integer supplied
                    # by the caller flows in): the sum counts things that were enumerated one by one
                    auto = "%s addition of values computed from the graph (no caller-supplied integer reaches it): cannot reach %s::MAX by enumeration" % (ty, ty)
                elif op == "Sub" and ty in ("usize", "u64", "u32") and y.is_const():
                    c = y.const_int()
                    g = comparison_guard(fl, t.bb, dx, c) if c is not None else None
                    if g:
                        auto = "unsigned subtraction of %d %s" % (c, g)
        key = "arith|%s|%s" % (b.short if panic.LEGACY_KEYS else panic.root_fn_short(b), kshape)
        if mk == "Overflow" and ao:
            KEYMAP.append((legacy, key))
        groups.setdefault(key, []).append((b, s, auto, detail))
    for key, lst in sorted(groups.items()):
        b, s, auto, detail = lst[0]
        n_auto = sum(1 for x in lst if x[2])
        if n_auto == len(lst):
            ctx.ok("R-C20-3", key, "%d× %s in %s: %s" % (len(lst), detail, b.short.split("::", 1)[-1], auto), s.site())
            continue
        rv = review.get(key)
        if rv is not None and rv.get("verdict") == "safe" and len(lst) - n_auto <= rv.get("count", 1):
            ctx.ok("R-C20-3", key, "%s in %s: reviewed -- %s" % (detail, b.short.split("::", 1)[-1], rv["reason"]), s.site())
            continue
        bad = [x for x in lst if not x[2]][0]
        ctx.violation("R-C20-3", key, "unguarded arithmetic that can overflow/underflow or divide by zero for some valid graph: %s in %s" % (bad[3], bad[0].short), bad[1].site())


def shape_arith(detail):
    d = re.sub(r"\b_\d+\b", "_", detail)
    # variable names -> `_`, keep callee names, field names after a dot, constants and types
    return d


# ---------------------------------------------------------------------------------------- R-C20-4


def rule4(ctx, prog, flows, all_sites, review, handled):
    ctx.rule("R-C20-4", "residual inventory: every other site is guard-discharged or reviewed (reported; a reviewed key that gains sites, or a finding entry, alarms)")
    groups = {}
    n_auto = 0
    for (b, fl, s) in all_sites:
        if id(s) in handled and s.kind == "arith":
            continue
        o = s.origin
        g = None
        if s.kind == "unwrap" and isinstance(o, tuple) and o[0] == "call" and len(o[2]) >= 2:
            g = existence_guard(fl, s, o[2][0], o[2][1])
        if g:
            n_auto += 1
            continue
        groups.setdefault(s.key(), []).append((b, fl, s))
    n_rev = 0
    unreviewed = []
    for key, lst in sorted(groups.items()):
        b, fl, s = lst[0]
        rv = review.get(key)
        if rv is None:
            if not all(id(x[2]) in handled for x in lst):
                unreviewed.append({"key": key, "sites": len(lst), "at": s.site()})
            continue
        if rv.get("verdict") == "safe":
            if len(lst) <= rv.get("count", 1):
                n_rev += len(lst)
                ctx.ok("R-C20-4", key, "%d site(s) reviewed safe -- %s" % (len(lst), rv["reason"]), s.site())
            else:
                ctx.violation("R-C20-4", key, "%d sites match a key reviewed for only %d: new panic-capable site(s) %s(%s) in %s" % (len(lst), rv.get("count", 1), s.what, norm_str(s.origin), b.short), lst[-1][2].site())
    ctx.counters["auto_discharged_by_existence_guard"] = n_auto
    ctx.counters["reviewed_sites"] = n_rev
    ctx.counters["unreviewed_groups"] = len(unreviewed)
    ctx.counters["unreviewed_sample"] = unreviewed[:25]
    ctx.note("%d site groups are neither auto-discharged nor reviewed; they are untainted internal-invariant sites reported in counters.unreviewed_sample and do not alarm" % len(unreviewed))


def run_once(ctx):
    if ctx.tier != "thorough":
        ctx.note("the clippy cross-reference of the inventory runs in the thorough tier")
        return
    import witness

    ctx.rule("R-C20-4x", "inventory completeness: the MIR inventory finds at least as many unwrap/expect and indexing sites as clippy's restriction lints report on the source")
    counts, rc = witness.clippy_counts()
    ctx.counters["clippy"] = counts
    ours_u = ctx.counters.get("unwrap_sites", 0)
    ours_i = ctx.counters.get("index_sites", 0)
    cu = counts.get("unwrap_used", 0) + counts.get("expect_used", 0)
    ci = counts.get("indexing_slicing", 0)
    if cu == 0 and ci == 0:
        ctx.undecided("R-C20-4x", "clippy", "clippy produced no counts (exit %d); cross-reference not available" % rc)
        return
    ctx.require(ours_u >= cu, "R-C20-4x", "unwrap-count", "MIR inventory has %d unwrap/expect sites, clippy reports %d" % (ours_u, cu), "the MIR inventory has fewer unwrap/expect sites (%d) than clippy reports (%d): the extractor misses sites" % (ours_u, cu))
    ctx.require(ours_i >= ci, "R-C20-4x", "index-count", "MIR inventory has %d index sites, clippy reports %d" % (ours_i, ci), "the MIR inventory has fewer indexing sites (%d) than clippy reports (%d): the extractor misses sites" % (ours_i, ci))


def rule12(ctx, prog, flows):
    """a vector with one slot per EDGE (its length derives from size() / number_of_edges() / get_all_edges().len()) must
    not be indexed by a node position: on a graph with fewer edges than nodes (a tree, isolated nodes) the index is out of
    bounds"""
    from flow import desc_mentions

    ctx.rule("R-C20-12", "no vector whose length is an edge count is indexed by a node position")
    n = 0

    def edge_count(d):
        return desc_mentions(d, lambda x: x[0] == "call" and (x[1].split("::")[-1] in ("number_of_edges", "size") and "Graph" in x[1])) or desc_mentions(d, lambda x: x[0] == "call" and x[1].split("::")[-1] == "len" and desc_mentions(x, lambda y: y[0] == "call" and y[1].split("::")[-1] == "get_all_edges"))

    for p in sorted(prog.bodies):
        b = prog.bodies[p]
        fl = flows.of(b)
        for t in b.calls():
            if not (t.callee and t.callee.short.endswith("vec::from_elem") and len(t.args) >= 2) or t.dest.proj:
                continue
            d = norm(panic.expand_names(fl, norm(fl.describe(t.args[1], depth=10))))
            if not edge_count(d):
                continue
            n += 1
            V = ("L", t.dest.local)
            vs = {("L", c) for c in fl.copies_of(t.dest.local)}
            bad = None
            for u in b.calls():
                if not u.callee or u.callee.short not in panic.INDEXERS or len(u.args) < 2:
                    continue
                if not (set(fl._operand_pts(u.args[0])) & vs):
                    continue
                sl = fl.slice_local(fl._op_reads(u.args[1]), data_only=True)
                pos = any(x[0] == "SRC" and "node_index" in x[2] for x in sl) or any(x[0] == "CALL" and b.blocks[x[1]].term.callee and b.blocks[x[1]].term.callee.short.split("::")[-1] in ("get_node_index",) for x in sl) or any(x[0] == "L" and isinstance(x[1], int) and 1 <= x[1] <= b.arg_count and b.local_ty(x[1]) == "usize" for x in sl)
                if pos:
                    bad = u
                    break
            ctx.require(bad is None, "R-C20-12", "edge-sized|%s|%s" % (panic.root_fn_short(b), b.local_name(t.dest.local) or "_"), "the edge-sized vector `%s` in %s is not indexed by node positions" % (b.local_name(t.dest.local) or "_", b.short.split("::")[-1]),
                        "%s allocates `%s` with one slot per EDGE (%s) and indexes it by a node position: on a graph with fewer edges than nodes (a tree, a path, isolated nodes, a single node) the index is out of bounds and the call panics" % (b.short, b.local_name(t.dest.local) or "_", fmt_desc(d)[:80]), loc_str((bad or t).span))
    ctx.counters["edge_sized_vectors"] = n


EMPTY_SENSITIVE = ("reduce", "max", "min", "max_by", "min_by", "max_by_key", "min_by_key", "last", "first", "next", "nth")
LIST_ACCESSORS = ("get_all_edges", "get_all_nodes", "get_all_node_names", "get_edges_for_node", "get_in_edges_for_node", "get_out_edges_for_node")


def rule13(ctx, prog, flows):
    """A graph with nodes and no edges (or no nodes at all) is a valid graph.  `list.iter()..reduce(f) / max() / min()
    / last() / first()` is None exactly when the list is empty, so unwrapping it needs an emptiness test OF THAT LIST in
    front -- a test of another quantity (the node count for a reduction over the edges) leaves the edgeless graph
    unguarded."""
    from props.c01 import controlling_atoms

    ctx.rule("R-C20-13", "a reduction (reduce / max / min / first / last) over a list taken from the graph is unwrapped only behind an emptiness test of that same list")
    n = 0
    for p in sorted(prog.bodies):
        b = prog.bodies[p]
        root = b
        while root.kind == "closure":
            root = prog.bodies[root.item["parent"]]
        if not (root.short.startswith("algorithms::") or root.short.startswith("graph::")):
            continue
        fl = None
        for st in enumerate_sites(b):
            if st.kind != "unwrap" or st.operand is None:
                continue
            fl = fl or flows.of(b)
            oc = origin_call(fl, st.operand)
            if oc is None or not oc.callee or oc.callee.short.split("::")[-1] not in EMPTY_SENSITIVE or not oc.args:
                continue
            # the list the reduction walks: producer calls of its receiver
            sl = fl.slice_local(fl._op_reads(oc.args[0]), data_only=True)
            acc = {b.blocks[nd[1]].term for nd in sl if nd[0] == "CALL" and b.blocks[nd[1]].term.callee and b.blocks[nd[1]].term.callee.short.split("::")[-1] in LIST_ACCESSORS}
            if not acc:
                continue
            n += 1
            lists = set()
            for t_ in acc:
                lists |= fl.copies_of(t_.dest.local) | {t_.dest.local}
            guarded = None
            for (te, v, a) in controlling_atoms(fl, st.node.bb):
                if not (isinstance(te, tuple) and te[0] in ("call", "binop")):
                    continue
                if isinstance(a, tuple):
                    continue
                rd = fl.atom_reads(a)
                gsl = fl.slice_local(rd, data_only=True)
                names = {b.blocks[nd[1]].term.callee.short.split("::")[-1] for nd in gsl if nd[0] == "CALL" and b.blocks[nd[1]].term.callee}
                on_list = any(nd[0] == "L" and nd[1] in lists for nd in gsl) or any(("CALL", t_.bb) in gsl for t_ in acc)
                if on_list and names & {"is_empty", "len"}:
                    guarded = fmt_desc(te)[:80]
            which = "/".join(sorted(t_.callee.short.split("::")[-1] for t_ in acc))
            ctx.require(guarded is not None, "R-C20-13", "reduction|%s|%s" % (b.short, oc.callee.short.split("::")[-1]), "%s(..).unwrap() over %s in %s is behind %s" % (oc.callee.short.split("::")[-1], which, b.short.split("::")[-1], guarded),
                        "%s unwraps %s(..) over the list returned by %s without an emptiness test of that list in front: on a graph for which the list is empty (nodes but no edges, or no nodes) the call panics although the graph is valid" % (b.short, oc.callee.short.split("::")[-1], which), st.site())
    # no floor: a reduction may legitimately be rewritten as a fold with an initial value, which cannot fail; the rule's
    # positive example is the seeded fixture R9_C20 (it must fire on every regression run)
    ctx.counters["guarded_reductions"] = n
