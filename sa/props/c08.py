"""C08 -- shortest-path options restrict the answer but never change it (structural clauses)."""
import json
from core import ASSUME_RUSTC, ASSUME_PATHS
from engines import value_descriptor, fmt_feature
from flow import Flows, L, fmt_desc, desc_mentions
import panic
from props.c01 import controlling_atoms
from mir import loc_str, short

LEVEL = "other"
EXPLANATION = (
    "Decides structural clauses of C08.  R-C08-1 dispatch: can_use_basic yields true only under the conjunction {target is None, "
    "cutoff is None, first_only == false, with_paths == false} (canonicalised from the controlling atoms of every non-false result, "
    "robust to reordering the conjuncts); every call of the fast kernel is on the true edge of a can_use_basic(..) test whose four "
    "arguments are the caller's own option parameters in that order.  R-C08-2 the entry points (single_source, all_pairs_iter, "
    "all_pairs_par_iter, and multi_source -> single_source) bind weighted/source/target/cutoff/first_only/with_paths to the kernels "
    "by position from their same-named parameters (provenance comparison, robust to renaming locals); the kernel's target index "
    "derives from get_node_index(target).  R-C08-3 non-interference: in the full kernel no write to dist/seen/fringe/count and no "
    "branch decision other than the with_paths tests themselves depends on with_paths or on the paths vector (a proof of 'with_paths="
    "false changes nothing but the paths' for all inputs); first_only guards no write to dist/seen.  R-C08-4 the cutoff prune is a "
    "strict `candidate > cutoff` and the target exit follows the finalisation dist[v] = d.  R-C08-5 get_all_shortest_paths_involving "
    "asks all_pairs for (None, None, false, true) and filters with contains_path_through_node, whose slice excludes first and last.  "
    "R-C08-8 the ContradictoryPaths refusal is immediately decided by a STRICT ordering comparison (ties are second shortest paths).  R-C08-9 no branch decided by the cutoff leaves the loop over the popped node's edges.  R-C08-10 inside the edge loop `== / != f64::MAX` is asked of the final distance vector, never of the tentative one.  NOT decided: equality of the fast and full kernels' distances, symmetry, triangle inequality (value-level)."
)
TRUSTED = ["rustc MIR construction", "flow-insensitive may-dependence: absence of dependence is definite"]

OPTS = ["target", "cutoff", "first_only", "with_paths"]


def canon_condition(t, v):
    """(param, required) from an atom test and the value taken"""
    neg = False
    while isinstance(t, tuple) and t[0] == "unop" and t[1] == "Not":
        neg = not neg
        t = t[2]
    val = v if not neg else (not v if isinstance(v, bool) else v)
    if isinstance(t, tuple) and t[0] == "call" and t[1].endswith("::is_none") and t[2] and t[2][0][0] == "place":
        return (t[2][0][1], "none" if val else "some")
    if isinstance(t, tuple) and t[0] == "call" and t[1].endswith("::is_some") and t[2] and t[2][0][0] == "place":
        return (t[2][0][1], "some" if val else "none")
    if isinstance(t, tuple) and t[0] == "binop" and t[1] in ("Eq", "Ne"):
        a, c = t[2], t[3]
        if a[0] == "const":
            a, c = c, a
        if a[0] == "place" and c[0] == "const":
            cv = c[1].endswith("true")
            req = cv if t[1] == "Eq" else (not cv)
            return (a[1], req if val else (not req))
    if isinstance(t, tuple) and t[0] == "place":
        return (t[1], bool(val))
    return None


def run(ctx):
    prog = ctx.prog
    flows = Flows(prog)
    ctx.assume(ASSUME_RUSTC)
    ctx.assume(ASSUME_PATHS)
    cub = prog.one("dijkstra::can_use_basic")
    full = prog.one("dijkstra::dijkstra")
    basic = prog.one("dijkstra::dijkstra_basic")
    rule1(ctx, prog, flows, cub, full, basic)
    rule2(ctx, prog, flows, full, basic)
    rule3(ctx, prog, flows, full)
    rule4(ctx, prog, flows, full)
    rule5(ctx, prog, flows)
    rule7(ctx, prog, flows, full)
    rule8(ctx, prog, flows)
    rule9(ctx, prog, flows, full)
    rule10(ctx, prog, flows)
    rule12(ctx, prog, flows, full)
    rule13(ctx, prog, flows)
    relaxation_discipline(ctx, prog, flows, "R-C08-11", {"dijkstra::dijkstra": "full", "dijkstra::dijkstra_basic": "basic"})


def rule1(ctx, prog, flows, cub, full, basic):
    ctx.rule("R-C08-1", "the fast kernel is used only when target=None, cutoff=None, first_only=false, with_paths=false; call sites pass their own options in order")
    fl = flows.of(cub)
    # truth table of can_use_basic by path-sensitive evaluation (predicate abstraction): the atoms are the four
    # option tests, however the expression is written (`a && b`, `!(x || y)`, nested ifs, early returns)
    import pathsens

    ex = pathsens.Explorer(cub, fl, prog)
    ex.run()
    WANT = {"is_some(target)": False, "is_some(cutoff)": False, "first_only": False, "with_paths": False}
    n_true = 0
    problems = []
    if ex.truncated or not ex.exit_vals:
        ctx.undecided("R-C08-1", "truth-table", "can_use_basic could not be evaluated path-sensitively", loc_str(cub.span))
    for (bb, facts, val) in ex.exit_vals:
        fd = {k: v for k, v in dict(facts).items() if isinstance(k, str)}
        outcomes = []
        if val is None:
            problems.append("the result on some path is not a boolean combination of the option tests")
            continue
        if val[0] == "const":
            outcomes.append((fd, bool(val[1])))
        elif val[0] == "atom":
            for tv in (False, True):
                if val[1] in fd and fd[val[1]] != tv:
                    continue
                f2 = dict(fd)
                f2[val[1]] = tv
                outcomes.append((f2, tv != val[2]))
        else:
            problems.append("the result on some path is not a boolean combination of the option tests")
            continue
        for (f2, res) in outcomes:
            unknown = sorted(k for k in f2 if k not in WANT)
            if unknown:
                problems.append("the result depends on %s" % unknown)
                continue
            if res:
                n_true += 1
                missing = sorted(k for k, v in WANT.items() if f2.get(k) is not v)
                if missing:
                    problems.append("true although %s is not established" % missing)
            else:
                if all(f2.get(k, v) is v for k, v in WANT.items()) and not any(k in f2 and f2[k] is not v for k, v in WANT.items()):
                    problems.append("false on a path on which no option is set (%s)" % f2)
    ctx.require(not problems and n_true >= 1, "R-C08-1", "truth-table", "can_use_basic is true exactly when target and cutoff are None and first_only, with_paths are false", "can_use_basic deviates from its truth table: %s -- the fast kernel would be used although an option restricts or extends the answer (or never)" % "; ".join(sorted(set(problems))[:3]), loc_str(cub.span))
    ctx.floor("R-C08-1", "non_false_results", n_true, 1)
    # call sites of can_use_basic and of the fast kernel
    n_sites = 0
    for p in sorted(prog.bodies):
        b = prog.bodies[p]
        f = flows.of(b)
        root = b
        while root.kind == "closure":
            root = prog.bodies[root.item["parent"]]
        for t in b.calls():
            tp = t.callee.target_path(prog) if t.callee else None
            if tp == cub.path:
                n_sites += 1
                got = []
                for a in t.args:
                    ps, cs = value_descriptor(flows, root.path, b.path, a)
                    got.append(sorted(ps))
                ok = got == [[o] for o in OPTS]
                ctx.require(ok, "R-C08-1", "args|" + b.short, "can_use_basic(..) in %s receives (target, cutoff, first_only, with_paths) of %s" % (b.short.split("::", 3)[-1], root.short.split("::")[-1]), "can_use_basic(..) in %s receives %s instead of its caller's (target, cutoff, first_only, with_paths)" % (b.short, got), loc_str(t.span))
            def _resolved(atoms_):
                """a guard hoisted out of a closure (`let use_basic = can_use_basic(..); .. move |i| if use_basic {..}`) is
                tested inside through the captured boolean: put the definition it has in the enclosing function back"""
                out_ = []
                for (te_, v_, a_) in atoms_:
                    if isinstance(te_, tuple) and te_[0] == "place" and "." not in te_[1] and b.kind == "closure" and te_[1] in b.upvar_names():
                        pb_ = prog.bodies[b.item["parent"]]
                        from engines import value_of_named as _von

                        vv_ = _von(flows.of(pb_), te_[1])
                        if vv_ is not None:
                            vv_ = panic.norm(vv_)
                            neg_ = False
                            while isinstance(vv_, tuple) and vv_[0] == "unop" and vv_[1] == "Not":
                                neg_ = not neg_
                                vv_ = vv_[2]
                            te_, v_ = vv_, (v_ if not neg_ else (not v_ if isinstance(v_, bool) else v_))
                    out_.append((te_, v_, a_))
                return out_

            if tp == basic.path:
                atoms = _resolved(controlling_atoms(f, t.bb))
                ok = any(isinstance(te, tuple) and te[0] == "call" and te[1].endswith("dijkstra::can_use_basic") and v is True for (te, v, a) in atoms)
                ctx.require(ok, "R-C08-1", "guarded|" + b.short, "dijkstra_basic in %s runs only on the true edge of can_use_basic(..)" % b.short.split("::", 3)[-1], "dijkstra_basic is called in %s without a can_use_basic(..) == true guard" % b.short, loc_str(t.span))
            if tp == full.path:
                atoms = _resolved(controlling_atoms(f, t.bb))
                ok = any(isinstance(te, tuple) and te[0] == "call" and te[1].endswith("dijkstra::can_use_basic") and v is False for (te, v, a) in atoms)
                ctx.require(ok, "R-C08-1", "guarded-full|" + b.short, "the full kernel in %s runs on the false edge of can_use_basic(..)" % b.short.split("::", 3)[-1], "the full kernel call in %s is not the alternative of can_use_basic(..)" % b.short, loc_str(t.span))
    ctx.floor("R-C08-1", "can_use_basic_call_sites", n_sites, 1)


def rule2(ctx, prog, flows, full, basic):
    ctx.rule("R-C08-2", "entry points bind their same-named parameters to the kernels by position")
    ss = prog.one("dijkstra::single_source")
    want_full = {1: {"weighted"}, 3: {"graph", "target"}, 4: {"cutoff"}, 5: {"first_only"}, 6: {"with_paths"}}
    want_basic = {1: {"weighted"}}
    want_ss = {1: {"weighted"}, 2: {"sources"}, 3: {"target"}, 4: {"cutoff"}, 5: {"first_only"}, 6: {"with_paths"}}
    n = 0
    for p in sorted(prog.bodies):
        b = prog.bodies[p]
        root = b
        while root.kind == "closure":
            root = prog.bodies[root.item["parent"]]
        for t in b.calls():
            tp = t.callee.target_path(prog) if t.callee else None
            want = None
            if tp == full.path:
                want = want_full
            elif tp == basic.path:
                want = want_basic
            elif tp == ss.path and root.short.endswith("dijkstra::multi_source"):
                want = want_ss
            if want is None:
                continue
            n += 1
            bad = []
            for i, exp in want.items():
                ps, cs = value_descriptor(flows, root.path, b.path, t.args[i])
                if set(ps) != exp:
                    bad.append("argument %d carries %s, expected %s" % (i, sorted(ps), sorted(exp)))
                if i == 3 and tp == full.path and not any(c.endswith("Graph::get_node_index") for c in cs):
                    bad.append("target index does not come from get_node_index(target)")
            # the graph argument is the entry point's graph
            ps0, cs0 = value_descriptor(flows, root.path, b.path, t.args[0])
            if set(ps0) != {"graph"}:
                bad.append("graph argument carries %s" % sorted(ps0))
            ctx.require(not bad, "R-C08-2", "bind|%s|%s" % (b.short, short(tp).split("::")[-1]), "%s in %s gets its options from the same-named parameters of %s" % (short(tp).split("::")[-1], b.short.split("::", 3)[-1], root.short.split("::")[-1]), "%s in %s: %s" % (short(tp).split("::")[-1], b.short, "; ".join(bad)), loc_str(t.span))
    ctx.floor("R-C08-2", "kernel_call_sites", n, 3)


def rule3(ctx, prog, flows, full):
    ctx.rule("R-C08-3", "with_paths / the paths vector influence no distance, heap or branch decision of the full kernel; first_only guards no write to dist/seen")
    fl = flows.of(full)
    wp = full.param_local("with_paths")
    fo = full.param_local("first_only")
    named = {nm: full.locals_named(nm) for nm in ("dist", "seen", "fringe", "count", "paths")}
    if wp is None or fo is None or any(len(v) != 1 for v in named.values()):
        ctx.anchor_lost("R-C08-3", "locals dist/seen/fringe/count/paths and parameters with_paths/first_only of the full kernel")
        return
    paths_l = named["paths"][0]
    forbidden = {L(wp), L(paths_l)}
    for nm in ("dist", "seen", "fringe", "count"):
        sl = fl.slice_local([L(named[nm][0])])
        hit = sorted(full.local_name(x[1]) for x in sl & forbidden)
        ctx.require(not hit, "R-C08-3", "value|" + nm, "`%s` depends neither on with_paths nor on paths" % nm, "`%s` depends on %s: turning path collection on/off can change distances" % (nm, hit), loc_str(full.span))
    # branch decisions
    n_sw = 0
    for blk in full.normal_blocks():
        if blk.term.k != "switch":
            continue
        at = fl.atom(blk.i)
        if at["test"][0] == "place" and at["test"][1] == "with_paths":
            continue
        n_sw += 1
        sl = fl.slice_local(fl._op_reads(blk.term.discr))
        hit = sorted(full.local_name(x[1]) for x in sl & forbidden)
        if hit:
            # a loop over the collected paths (copying them) may of course test `paths`: it is harmless as long
            # as nothing it controls touches a distance, a seen mark, the heap or the tie counter
            protected = {L(named[nm][0]) for nm in ("dist", "seen", "fringe", "count")}
            touched = set()
            for b2 in full.normal_blocks():
                if not any(a == blk.i for (a, s_) in full.transitive_control_deps(b2.i)):
                    continue
                for st in b2.stmts:
                    if st.k == "assign":
                        objs = set(fl.resolve(st.lhs)) if st.lhs.has_deref() else {L(st.lhs.local)}
                        touched |= objs & protected
                if b2.term.k == "call":
                    for a_ in b2.term.args:
                        touched |= set(fl.mut_reach(a_)) & protected
            if not touched:
                continue
            ctx.violation("R-C08-3", "decision|" + fmt_desc(panic.shape(panic.norm(at["test"])))[:60], "the branch on %s depends on %s" % (fmt_desc(at["test"])[:80], hit), loc_str(blk.term.span))
    ctx.ok("R-C08-3", "decisions", "%d branch decisions other than the with_paths tests inspected" % n_sw, loc_str(full.span))
    ctx.floor("R-C08-3", "branch_decisions", n_sw, 4)
    # first_only: whether dist / seen is written must not depend on first_only.  Path-sensitive (predicate abstraction
    # over first_only and the comparisons, with a > b / a == b / b > a mutually exclusive): the conditions under which a
    # write is reached with first_only = true are those under which it is reached with first_only = false
    import pathsens

    ex = pathsens.Explorer(full, fl, prog, keep=lambda k: isinstance(k, str) and (k == "first_only" or k.startswith("Gt(") or k.startswith("Eq(")), stable=lambda k: k == "first_only")
    ex.run()
    n_w = 0
    protected_w = (L(named["dist"][0]), L(named["seen"][0]))
    for blk in full.normal_blocks():
        writes = []
        for s in blk.stmts:
            if s.k == "assign" and s.lhs.has_deref():
                for o in fl.resolve(s.lhs):
                    if o in protected_w:
                        writes.append((s, o))
        if not writes:
            continue
        n_w += 1
        states = ex.at_block.get(blk.i, set())
        if ex.truncated or not states:
            ctx.undecided("R-C08-3", "first_only-writes", "the conditions of a write to dist/seen could not be evaluated", loc_str(writes[0][0].span))
            continue
        def saturate(fd_):
            """add what the ordering facts imply: a > b gives !(a == b) and !(b > a); a == b gives !(a > b), !(b > a)"""
            import re as _re

            out = dict(fd_)
            for k_, v_ in list(fd_.items()):
                m_ = _re.match(r"^(Gt|Eq)\((.*)\)$", k_) if isinstance(k_, str) and v_ is True else None
                if not m_:
                    continue
                body_, depth_, cut_ = m_.group(2), 0, None
                for i_, ch_ in enumerate(body_):
                    if ch_ in "([":
                        depth_ += 1
                    elif ch_ in ")]":
                        depth_ -= 1
                    elif ch_ == "," and depth_ == 0:
                        cut_ = i_
                        break
                if cut_ is None:
                    continue
                a_, b_ = body_[:cut_].strip(), body_[cut_ + 1:].strip()
                lo_, hi_ = sorted([a_, b_])
                for r_ in ("Gt(%s, %s)" % (a_, b_), "Gt(%s, %s)" % (b_, a_), "Eq(%s, %s)" % (lo_, hi_)):
                    if r_ != k_:
                        out.setdefault(r_, False)
            return out

        cond = {True: set(), False: set()}
        for (facts, marks) in states:
            fd = saturate(dict(facts))
            rest = frozenset((k, v) for k, v in fd.items() if k != "first_only")
            if "first_only" in fd:
                cond[fd["first_only"]].add(rest)
            else:
                cond[True].add(rest)
                cond[False].add(rest)
        if cond[True] != cond[False]:
            ctx.violation("R-C08-3", "first_only-writes", "`%s` is written under conditions that differ with first_only (%s vs %s): asking for one path instead of all changes the distances" % (full.local_name(writes[0][1][1]), sorted(map(sorted, cond[True]))[:2], sorted(map(sorted, cond[False]))[:2]), loc_str(writes[0][0].span))
    ctx.ok("R-C08-3", "first_only", "%d blocks writing dist/seen are reached under the same conditions for first_only = true and false" % n_w, loc_str(full.span))


def rule4(ctx, prog, flows, full):
    ctx.rule("R-C08-4", "cutoff prune is the strict comparison candidate > cutoff; the target exit follows dist[v] = d")
    fl = flows.of(full)
    cut = full.param_local("cutoff")
    # every ordering comparison of the full kernel (or a closure of it) that has the cutoff value on one
    # side: `match cutoff {Some(c) => cand > c, None => false}`, `cutoff.map_or(false, |c| cand > c)`,
    # `cutoff.is_some_and(|c| cand > c)`, `if let Some(c) = cutoff { if cand > c {..} }` are all this shape
    found = 0
    bodies = [full] + prog.closures_of(full.path)
    for cb in bodies:
        cf = flows.of(cb)
        for st in cb.stmts():
            if st.k != "assign" or st.rv.k != "binop" or st.rv.j["op"] not in ("Gt", "Lt", "Ge", "Le"):
                continue
            side = []
            for o in st.rv.ops:
                if o.place is None:
                    side.append(False)
                    continue
                sl = flows.slice(cb.path, cf._op_reads(o), up=True, down=False, data_only=True, roots=(full.path,))
                side.append((full.path, L(cut)) in sl)
            if side[0] == side[1]:
                continue
            found += 1
            op = st.rv.j["op"]
            x, y = fmt_desc(panic.norm(cf.describe(st.rv.ops[0], depth=6))), fmt_desc(panic.norm(cf.describe(st.rv.ops[1], depth=6)))
            strict = (op == "Gt" and side[1]) or (op == "Lt" and side[0])
            ctx.require(strict, "R-C08-4", "cutoff-strict|%d" % found, "a candidate is pruned only when candidate > cutoff (strict): %s(%s, %s)" % (op, x, y), "cutoff prune is not the strict candidate > cutoff: prune when %s(%s, %s) -- entries with distance == cutoff would be dropped or kept wrongly" % (op, x, y), loc_str(st.span))
            # without a cutoff nothing is pruned: the flag has no constant-true definition, and a closure
            # form gets `false` as its default
            if cb.kind == "closure":
                for (pp, s_) in flows.closure_sites(cb.path):
                    pf = flows.of(pp)
                    cl = pf.copies_of(s_.lhs.local)
                    for t in pf.b.calls():
                        if t.callee and any(a.place is not None and a.place.local in cl for a in t.args):
                            last = t.callee.short.split("::")[-1]
                            if last in ("map_or", "map_or_else"):
                                d0 = panic.norm(pf.describe(t.args[1], depth=4))
                                ctx.require(d0[0] == "const" and d0[1].endswith("false"), "R-C08-4", "cutoff-default", "without a cutoff nothing is pruned (default false)", "without a cutoff the prune flag defaults to %s" % fmt_desc(d0), loc_str(t.span))
            else:
                flag = cf.copies_of(st.lhs.local)
                for l in list(flag):
                    for (dbb, d) in cb.assigns_to(l):
                        rv = getattr(d, "rv", None)
                        if rv is not None and rv.k == "use" and rv.ops[0].is_const() and rv.ops[0].const_int() == 1:
                            ctx.violation("R-C08-4", "cutoff-default", "the prune flag is set to a constant `true` on a path without a comparison with the cutoff", loc_str(d.span))
    if not found:
        ctx.anchor_lost("R-C08-4", "an ordering comparison between a candidate distance and the cutoff in the full kernel")
    # the cutoff may only decide the prune: it must not flow (as data) into distances, seen marks or heap entries
    for nm in ("dist", "seen", "fringe"):
        ls = full.locals_named(nm)
        if len(ls) != 1:
            continue
        dsl = fl.slice_local([L(ls[0])], data_only=True)
        ctx.require(L(cut) not in dsl, "R-C08-4", "cutoff-not-data|" + nm, "`%s` holds no value derived from the cutoff" % nm, "`%s` is initialised/updated with a value derived from the cutoff: the cutoff then changes which entries are found instead of merely pruning candidates beyond it (entries at exactly the cutoff distance can be lost)" % nm, loc_str(full.span))
    # target exit after finalisation
    tgt = full.param_local("target")
    dist_l = full.locals_named("dist")
    n = 0
    for blk in full.normal_blocks():
        if blk.term.k != "switch":
            continue
        sl = fl.slice_local(fl._op_reads(blk.term.discr), data_only=True)
        if L(tgt) not in sl:
            continue
        n += 1
        # an assignment through dist[..] dominates this test
        ok = False
        for s in full.stmts():
            if s.k == "assign" and s.lhs.has_deref() and dist_l and L(dist_l[0]) in fl.resolve(s.lhs) and full.dominates(s.bb, blk.i) and s.lhs.ty == "f64":
                ok = True
        ctx.require(ok, "R-C08-4", "target-exit", "the target test comes after the popped node's distance is finalised", "the search can stop at the target before dist[target] is assigned", loc_str(blk.term.span))
    ctx.floor("R-C08-4", "target_tests", n, 1)


def rule5(ctx, prog, flows):
    ctx.rule("R-C08-5", "get_all_shortest_paths_involving = all_pairs(None, None, false, true) filtered by contains_path_through_node (interior positions only)")
    b = prog.one("dijkstra::get_all_shortest_paths_involving")
    fl = flows.of(b)
    ap = prog.one("dijkstra::all_pairs")
    calls = [t for t in b.calls() if t.callee and t.callee.target_path(prog) == ap.path]
    if len(calls) != 1:
        ctx.anchor_lost("R-C08-5", "one all_pairs call in get_all_shortest_paths_involving")
        return
    t = calls[0]
    ds = [panic.norm(fl.describe(a, depth=6)) for a in t.args]
    shape = [fmt_desc(d) for d in ds[2:]]
    ok = (
        (ds[2][0] == "adt" and ds[2][1].endswith("Option::None"))
        and (ds[3][0] == "adt" and ds[3][1].endswith("Option::None"))
        and ds[4][0] == "const" and ds[4][1].endswith("false")
        and ds[5][0] == "const" and ds[5][1].endswith("true")
    )
    ctx.require(ok, "R-C08-5", "all_pairs-args", "all_pairs is asked for all targets, no cutoff, all paths, with paths", "all_pairs is called with (%s)" % ", ".join(shape), loc_str(t.span))
    cp = prog.one("ShortestPathInfo::contains_path_through_node")
    used = any(t2.callee and t2.callee.target_path(prog) == cp.path for c in [b] + prog.closures_of(b.path) for t2 in c.calls())
    ctx.require(used, "R-C08-5", "filter", "results are filtered with contains_path_through_node", None, loc_str(b.span))
    ok = False
    why = ""
    # the slice expression may sit in the function or in a closure of it (`paths.iter().any(|p| ..)`)
    for cpb in [cp] + prog.closures_of(cp.path):
        cf = flows.of(cpb)
        idx = [t2 for t2 in cpb.calls() if t2.callee and t2.callee.short.endswith("Index::index") and len(t2.args) > 1]
        for t2 in idx:
            d = panic.norm(cf.describe(t2.args[1], depth=8))
            if d[0] == "adt" and d[1].endswith("Range::Range"):
                lo, hi = d[2][0], d[2][1]
                lo_ok = lo[0] == "const" and lo[1].startswith("const 1_") or (lo[0] == "const" and "1_usize" in lo[1])
                hs = fmt_desc(hi)
                hi_ok = False
                # hi is the .0 of a checked Sub(len(path), 1) -- the length possibly held in a variable
                for s in cpb.stmts():
                    if s.k == "assign" and s.rv.k == "binop" and s.rv.j["op"].startswith("Sub"):
                        a0 = panic.norm(panic.expand_names(cf, panic.norm(cf.describe(s.rv.ops[0], depth=6))))
                        a1 = s.rv.ops[1]
                        if a0[0] == "call" and a0[1].endswith("::len") and a1.is_const() and a1.const_int() == 1:
                            hi_ok = True
                ok = ok or (lo_ok and hi_ok)
                why = "path[%s..%s]" % (fmt_desc(lo), hs)
    # every stored path is examined on its own: the answer must not be decided from ONE particular path (the first,
    # the last, paths[0]) -- tied shortest paths of a weighted graph can have different hop counts
    picks = []
    for cpb in [cp] + prog.closures_of(cp.path):
        cf2 = flows.of(cpb)
        for t2 in cpb.calls():
            if not t2.callee or not t2.args or t2.args[0].place is None:
                continue
            last = t2.callee.short.split("::")[-1]
            rty = t2.args[0].place.ty
            on_paths = "Vec<std::vec::Vec<" in rty or "[std::vec::Vec<" in rty
            if last in ("first", "last", "get", "nth", "first_mut", "last_mut", "split_first", "split_last") and on_paths:
                picks.append("%s at %s" % (last, loc_str(t2.span)))
            if last == "index" and on_paths and len(t2.args) > 1 and t2.args[1].is_const():
                picks.append("paths[const] at %s" % loc_str(t2.span))
    ctx.require(not picks, "R-C08-5", "every-path", "contains_path_through_node looks at every path, none is singled out", "contains_path_through_node singles out one stored path (%s): with tied paths of different hop counts the pair is judged by that path alone" % "; ".join(picks), loc_str(cp.span))
    ctx.require(ok, "R-C08-5", "interior", "the node must lie strictly inside a path: path[1 .. len-1]", "contains_path_through_node looks at %s: endpoints would count" % why, loc_str(cp.span))


def rule7(ctx, prog, flows, full):
    """the relaxation step: whenever the tentative distance of u is improved (`seen[u] = vu_dist`) and paths are
    wanted, the path list of u is rewritten in the same step -- on every path, whatever `first_only` says and whatever
    the list holds at that moment.  Otherwise the reported path belongs to an earlier, longer route."""
    from hashord import natural_loop_blocks
    from effects import Effects

    ctx.rule("R-C08-7", "full kernel: every improvement of seen[u] is followed, when with_paths is set, by a write of paths[u] before the next edge is relaxed")
    fl = flows.of(full)
    # identified by type, not by name: the tentative / final distances are the Vec<f64> locals, the path lists the
    # Vec<Vec<Vec<usize>>> local; `with_paths` is the kernel's last bool parameter
    seen_ls = {l["i"] for l in full.locals if str(l["ty"]) == "std::vec::Vec<f64>"}
    paths_ls = {l["i"] for l in full.locals if str(l["ty"]).replace("&mut ", "") == "std::vec::Vec<std::vec::Vec<std::vec::Vec<usize>>>"}
    bool_params = [i for i in range(1, full.arg_count + 1) if full.local_ty(i) == "bool"]
    wp_name = full.local_name(bool_params[-1]) if bool_params else None
    if not seen_ls or not paths_ls or wp_name is None:
        ctx.anchor_lost("R-C08-7", "Vec<f64> distances, the Vec<Vec<Vec<usize>>> path lists and a trailing bool parameter in the full kernel")
        return
    effects = Effects(prog, flows)

    def writes_of(ls):
        out = set()
        for (bb, site, obj, kind) in effects.events(full.path):
            if obj[0] == "L" and obj[1] in ls:
                via = site.callee.short.split("::")[-1] if getattr(site, "k", None) == "call" and site.callee else "assign"
                if via in ("index_mut", "index", "deref_mut", "iter_mut", "as_mut_slice", "get_mut"):
                    continue  # only obtains the slot
                out.add(bb)
        return out

    w_seen = writes_of(seen_ls)
    w_paths = writes_of(paths_ls)
    # with_paths == false edges
    wp_false = []
    for (bb, test, t_succ, f_succ) in panic.bool_atoms(fl):
        if test == ("place", wp_name) and f_succ is not None:
            wp_false.append((bb, f_succ))
    n = 0
    for s_bb in sorted(w_seen):
        # the innermost loop around this write
        loops = []
        for t in full.calls():
            if t.callee and t.callee.short == "std::iter::Iterator::next":
                lb = natural_loop_blocks(full, t.bb)
                if s_bb in lb and len(lb) > 1:
                    loops.append((len(lb), t.bb, lb))
        if not loops:
            continue  # the initialisation `seen[source] = 0`
        loops.sort()
        _, header, lb = loops[0]
        n += 1
        # blocks reachable from the write without passing a paths write and without taking a with_paths == false edge
        seen_b = set()
        st = [y for y in full.succ(s_bb)]
        reached_header = False
        while st:
            x = st.pop()
            if x in seen_b:
                continue
            seen_b.add(x)
            if x == header:
                reached_header = True
                break
            if x in w_paths or x not in lb:
                continue
            for y in full.succ(x):
                if (x, y) in wp_false:
                    continue
                st.append(y)
        ctx.require(not reached_header and bool(wp_false), "R-C08-7", "improve|%d" % n, "the improvement of seen[u] is followed by a write of paths[u] on every with_paths path",
                    "after `seen[u]` is improved there is a path on which with_paths is set and the next edge is relaxed without paths[u] having been rewritten: the path reported for u stays that of an earlier, longer route (its distance is right, its path is not one of the shortest paths)", loc_str(full.blocks[s_bb].term.span))
    ctx.floor("R-C08-7", "seen_improvements", n, 1)


def rule8(ctx, prog, flows):
    """ContradictoryPaths is the answer to an edge that would IMPROVE a distance that is already final (a negative
    weight): `candidate < final`.  Ties are normal -- two shortest routes of the same length to one node -- and must
    go on to the equal-distance branch that records the second path; with `<=` every graph that has two equally short
    routes is refused."""
    from props.c01 import controlling_atoms

    ctx.rule("R-C08-8", "the ContradictoryPaths refusal is decided by a STRICT comparison of the candidate distance with the final one (ties are not contradictions)")
    # the helper(s) that build the error, from the code
    makers = set()
    for p_, b_ in prog.bodies.items():
        if b_.kind == "closure" or p_.startswith("<") or "::fmt" in p_ or "clone" in p_:
            continue
        if any(s_.k == "assign" and "ContradictoryPaths" in json.dumps(s_.rv.j) for s_ in b_.stmts()):
            makers.add(p_)
    n = 0
    for p_ in sorted(prog.bodies):
        b_ = prog.bodies[p_]
        root = b_
        while root.kind == "closure":
            root = prog.bodies[root.item["parent"]]
        if not root.short.startswith("algorithms::shortest_path"):
            continue
        fl = None
        sites = [t.bb for t in b_.calls() if t.callee and t.callee.target_path(prog) in makers]
        if p_ in makers and b_.arg_count > 0:
            sites += [s_.bb for s_ in b_.stmts() if s_.k == "assign" and "ContradictoryPaths" in json.dumps(s_.rv.j)]
        for bb in sorted(set(sites)):
            fl = fl or flows.of(b_)
            n += 1
            cmps = [(te, v) for (te, v, a) in controlling_atoms(fl, bb, direct=True) if isinstance(te, tuple) and te[0] == "binop" and te[1] in ("Lt", "Le", "Gt", "Ge")]
            if not cmps:
                ctx.undecided("R-C08-8", "refusal|%s|%d" % (b_.short, n), "the refusal in %s is not immediately decided by an ordering comparison; its strictness is not decided" % b_.short, loc_str(b_.blocks[bb].term.span))
                continue
            for (te, v) in cmps:
                strict = (te[1] in ("Lt", "Gt")) == bool(v)
                ctx.require(strict, "R-C08-8", "refusal|%s|%d" % (b_.short, n), "the refusal in %s is taken on the strict %s" % (b_.short.split("::")[-1], fmt_desc(te)),
                            "the refusal in %s is taken when %s is %s, which includes equality: a node reached by two routes of the same length makes the search fail with ContradictoryPaths instead of recording both shortest paths" % (b_.short, fmt_desc(te), v), loc_str(b_.blocks[bb].term.span))
    ctx.floor("R-C08-8", "contradictory_path_refusals", n, 1)


def rule9(ctx, prog, flows, full):
    """the cutoff prunes ONE candidate: the edge (v, u) whose tentative distance exceeds it.  The other edges of the
    same row are independent of it -- rows are in insertion order, not sorted by weight -- so a branch that is decided
    by the cutoff must stay inside the loop over the row (`continue`); leaving the loop (`break`) drops in-cutoff
    neighbours that happen to be stored after an overshooting one."""
    from hashord import natural_loop_blocks

    ctx.rule("R-C08-9", "a branch decided by the cutoff never leaves the loop over the popped node's edges (the prune skips one edge, not the rest of the row)")
    fl = flows.of(full)
    cut = full.param_local("cutoff")
    if cut is None:
        ctx.anchor_lost("R-C08-9", "the `cutoff` parameter of the full kernel")
        return
    loops = []
    for t in full.calls():
        if t.callee and t.callee.short == "std::iter::Iterator::next":
            lb = natural_loop_blocks(full, t.bb)
            if len(lb) > 1:
                loops.append((len(lb), t.bb, lb))
    loops.sort()
    n = 0
    for blk in full.normal_blocks():
        if blk.term.k != "switch" or blk.term.discr.place is None:
            continue
        sl = fl.slice_local(fl._op_reads(blk.term.discr), data_only=True)
        if L(cut) not in sl:
            continue
        inner = next(((h, lb) for (_n, h, lb) in loops if blk.i in lb), None)
        if inner is None:
            continue
        n += 1
        h, lb = inner
        out = [s_ for s_ in full.succ(blk.i) if s_ not in lb]
        ctx.require(not out, "R-C08-9", "cutoff-branch|%d" % n, "both outcomes of the cutoff test stay inside the edge loop",
                    "a branch decided by the cutoff leaves the loop over the popped node's edges: once one edge overshoots the cutoff the remaining edges of the row are never relaxed, so nodes within the cutoff are missing or are reported with a longer distance", loc_str(blk.term.span))
    ctx.floor("R-C08-9", "cutoff_branches_in_edge_loop", n, 1)


def rule10(ctx, prog, flows):
    """both kernels keep two distance vectors: the FINAL one, written once per node when it is popped, and the TENTATIVE
    one, lowered while edges are relaxed.  "Already settled" is a question about the final vector (`dist[u] != MAX`);
    asked of the tentative one (`seen[u] != MAX`: merely reached) it stops every later improvement of a node, so the
    first route that discovers a node fixes its distance and the fast kernel disagrees with the full one."""
    from hashord import natural_loop_blocks

    ctx.rule("R-C08-10", "inside the loop over a popped node's edges, `== / != f64::MAX` (settled?) is asked of the FINAL distance vector, never of the tentative one")
    n = 0
    for sfx in ("dijkstra::dijkstra", "dijkstra::dijkstra_basic"):
        k = prog.one(sfx)
        fl = flows.of(k)
        loops = []
        for t in k.calls():
            if t.callee and t.callee.short == "std::iter::Iterator::next":
                lb = natural_loop_blocks(k, t.bb)
                itd = panic.norm(panic.expand_names(fl, panic.norm(fl.describe(t.args[0], depth=10)), depth=8))
                over_row = desc_mentions(itd, lambda x: x[0] == "call" and x[1].split("::")[-1] in ("get_successor_nodes_by_index", "get_predecessor_nodes_by_index"))
                if len(lb) > 1 and over_row:
                    loops.append(lb)
        if not loops:
            continue
        inner = min(loops, key=len)
        vecs = [l["i"] for l in k.locals if str(l["ty"]) == "std::vec::Vec<f64>"]
        written_in, written_out = set(), set()
        for st in k.stmts():
            if st.k == "assign" and st.lhs.has_deref() and st.lhs.ty == "f64":
                for o in fl.resolve(st.lhs):
                    if o[0] == "L" and o[1] in vecs:
                        (written_in if st.bb in inner else written_out).add(o[1])
        tentative = written_in
        final = written_out - written_in
        if not tentative or not final:
            ctx.undecided("R-C08-10", "vectors|" + sfx.split("::")[-1], "cannot tell the final from the tentative distance vector in %s (written in the edge loop: %s, outside: %s)" % (sfx, sorted(k.local_name(x) or x for x in written_in), sorted(k.local_name(x) or x for x in written_out)), loc_str(k.span))
            continue
        for st in k.stmts():
            if st.bb not in inner or not (st.k == "assign" and st.rv.k == "binop" and st.rv.j["op"] in ("Eq", "Ne")):
                continue
            descs = [panic.norm(fl.describe(o, depth=6)) for o in st.rv.ops]
            if not any(isinstance(d, tuple) and d[0] == "const" and "MAX" in d[1] for d in descs):
                continue
            n += 1
            # the vector that is indexed in the compared expression itself (not what its contents were computed from)
            named = set()
            for d in descs:
                def _bases(x, acc):
                    if isinstance(x, tuple):
                        if x[0] == "place" and "[" in x[1]:
                            acc.add(x[1].split("[")[0].split(".")[0].lstrip("*&("))
                        if x[0] == "call" and x[1].split("::")[-1] in ("index", "index_mut", "get", "get_unchecked") and x[2] and isinstance(x[2][0], tuple) and x[2][0][0] == "place":
                            acc.add(x[2][0][1].split(".")[0].lstrip("*&"))
                        for y in x[1:]:
                            if isinstance(y, tuple):
                                _bases(y, acc)
                                for z in y:
                                    if isinstance(z, tuple):
                                        _bases(z, acc)
                    return acc
                named |= _bases(d, set())
            on_tent = sorted(nm for nm in named if any(l_ in tentative for l_ in k.locals_named(nm)))
            on_final = sorted(nm for nm in named if any(l_ in final for l_ in k.locals_named(nm)))
            ctx.require(not on_tent, "R-C08-10", "settled-test|%s|%d" % (sfx.split("::")[-1], n), "%s asks `%s` of the final vector %s" % (sfx.split("::")[-1], st.rv.j["op"], on_final),
                        "in the edge loop of %s the test against f64::MAX reads the TENTATIVE distance vector `%s`: a node that has merely been reached is treated as settled and is never relaxed again, so its distance is that of the first route that found it -- the fast kernel then disagrees with the full one (and distances change when an option is added)" % (sfx, "/".join(on_tent)), loc_str(st.span))
    ctx.counters["settled_tests_in_edge_loops"] = n


RELAX_EXPECTED = {
    # (conditions under which a popped node's distance is made final, conditions under which a tentative distance is lowered)
    "full": ({frozenset({("eqmax", "FIN", True)})}, {frozenset({("eqmax", "FIN", True), ("lt", "CAND<TENT", True)})}),
    "basic": ({frozenset({("eqmax", "FIN", True)})}, {frozenset({("lt", "CAND<TENT", True)})}),
    "closeness": ({frozenset({("eqmax", "FIN", True)})}, {frozenset({("eqmax", "FIN", True), ("eqmax", "TENT", True)}), frozenset({("eqmax", "FIN", True), ("eqmax", "TENT", False), ("lt", "CAND<TENT", True)})}),
}


def relaxation_discipline(ctx, prog, flows, rid, kernels):
    """Dijkstra's two decisions, as conditions on the final vector FIN, the tentative vector TENT and the candidate
    distance CAND (roles, not names): (A) a popped node's distance is made final exactly when it is not final yet
    (FIN == MAX); (B) a tentative distance is lowered exactly when the candidate is strictly smaller (in the kernels
    that look at it: and the node is not final; in the closeness kernel: or the node has not been reached).  The
    conditions are read off the CFG: every way from the loop header to the write, as the set of comparisons passed
    with their outcomes.  A flipped comparison, `&&` for `||`, a test of the wrong vector or an extra skip changes the set."""
    from hashord import natural_loop_blocks
    from engines import path_conditions

    ctx.rule(rid, "the kernels make a distance final only when FIN == MAX and lower a tentative distance only when CAND < TENT (role-based path conditions of the two writes)")
    for sfx, kind in kernels.items():
        k = prog.one(sfx)
        fl = flows.of(k)
        inner = None
        hdr = None
        for t in k.calls():
            if t.callee and t.callee.short == "std::iter::Iterator::next":
                lb = natural_loop_blocks(k, t.bb)
                itd = panic.norm(panic.expand_names(fl, panic.norm(fl.describe(t.args[0], depth=10)), depth=8))
                if len(lb) > 1 and desc_mentions(itd, lambda x: x[0] == "call" and x[1].split("::")[-1] in ("get_successor_nodes_by_index", "get_predecessor_nodes_by_index")):
                    if inner is None or len(lb) < len(inner):
                        inner, hdr = lb, t.bb
        if inner is None:
            ctx.undecided(rid, "kernel|" + kind, "no loop over a popped node's adjacency row found in %s" % sfx, loc_str(k.span))
            continue
        vecs = [l["i"] for l in k.locals if str(l["ty"]) == "std::vec::Vec<f64>"]
        w_in, w_out = {}, {}
        for st in k.stmts():
            if st.k == "assign" and st.lhs.has_deref() and st.lhs.ty == "f64":
                for o in fl.resolve(st.lhs):
                    if o[0] == "L" and o[1] in vecs:
                        (w_in if st.bb in inner else w_out).setdefault(o[1], []).append(st)
        tent = set(w_in)
        fin = set(w_out) - tent
        # several f64 vectors may be written (path counts `sigma`): the distance vectors are those compared with MAX
        def cmp_with_max(l):
            nm = k.local_name(l)
            for st in k.stmts():
                if st.k == "assign" and st.rv.k == "binop" and st.rv.j["op"] in ("Eq", "Ne"):
                    ds = [panic.norm(fl.describe(o, depth=6)) for o in st.rv.ops]
                    if any(d[0] == "const" and "MAX" in d[1] for d in ds if isinstance(d, tuple)) and any(isinstance(d, tuple) and d[0] == "place" and d[1].split("[")[0] == nm for d in ds):
                        return True
            return False
        fin = {l for l in fin if cmp_with_max(l)}
        tent_d = {l for l in tent if cmp_with_max(l)} or tent
        # the tentative vector is the one whose in-loop writes store the candidate (an f64 sum)
        cand_locals = set()
        for st in k.stmts():
            if st.bb in inner and st.k == "assign" and st.rv.k == "binop" and st.rv.j["op"] == "Add" and st.lhs.ty == "f64" and not st.lhs.proj:
                cand_locals |= fl.copies_of(st.lhs.local) | {st.lhs.local}
        tent_w = []
        for l in tent_d:
            for st in w_in[l]:
                if st.rv.ops and st.rv.ops[0].place is not None and st.rv.ops[0].place.local in cand_locals:
                    tent_w.append((l, st))
        tent = {l for (l, st) in tent_w}
        if not fin or not tent:
            ctx.undecided(rid, "kernel|" + kind, "cannot tell the final from the tentative distance vector in %s" % sfx, loc_str(k.span))
            continue
        fin_names = {k.local_name(l) for l in fin}
        tent_names = {k.local_name(l) for l in tent}
        cand_names = {k.local_name(l) for l in cand_locals if k.local_name(l)}

        def role(d):
            if not isinstance(d, tuple):
                return None
            if d[0] == "const" and "MAX" in d[1]:
                return "MAX"
            if d[0] == "place":
                base = d[1].split("[")[0]
                if "[" in d[1] and base in fin_names:
                    return "FIN"
                if "[" in d[1] and base in tent_names:
                    return "TENT"
                if d[1] in cand_names:
                    return "CAND"
            if d[0] == "binop" and d[1] == "Add":
                return "CAND"
            if d[0] == "tmp" and d[1] in cand_locals:
                return "CAND"
            return None

        dist_locals = set(fin) | set(tent) | set(cand_locals)

        def lit(te, val, bb=None):
            if val is None:
                # a non-boolean switch: does it order / test the distances?
                if bb is None:
                    return None
                try:
                    sl_ = fl.slice_local(fl.atom_reads(bb), data_only=True)
                except Exception:
                    return None
                if any(n_[0] == "L" and n_[1] in cand_locals for n_ in sl_) and any(n_[0] == "CALL" and k.blocks[n_[1]].term.callee and k.blocks[n_[1]].term.callee.short.split("::")[-1] in ("partial_cmp", "cmp", "total_cmp", "min", "max", "minimum", "maximum") for n_ in sl_):
                    return ("unknown", "a distance comparison that is not a boolean test", True)
                return None
            neg = False
            while isinstance(te, tuple) and te[0] == "unop" and te[1] == "Not":
                neg = not neg
                te = te[2]
            if isinstance(te, tuple) and te[0] in ("place", "tmp") and bb is not None:
                # a boolean variable with several definitions (`let ties = !improves && cand == tent`): if it was computed
                # from the distances the decision is there, but not as one comparison -- not decided
                def involves(l_, depth_=0, seen_=None):
                    seen_ = seen_ if seen_ is not None else set()
                    if depth_ > 4 or l_ in seen_:
                        return False
                    seen_.add(l_)
                    for (_b, d_) in k.assigns_to(l_):
                        rv_ = getattr(d_, "rv", None)
                        if rv_ is None:
                            continue
                        if rv_.k == "binop" and rv_.j["op"] in ("Lt", "Le", "Gt", "Ge", "Eq", "Ne"):
                            ra_, rb_ = role(panic.norm(fl.describe(rv_.ops[0], depth=6))), role(panic.norm(fl.describe(rv_.ops[1], depth=6)))
                            if ra_ is not None and rb_ is not None:
                                return True
                        for o_ in rv_.ops:
                            if o_.place is not None and not o_.place.proj and k.local_ty(o_.place.local) == "bool" and involves(o_.place.local, depth_ + 1, seen_):
                                return True
                    return False

                disc_ = k.blocks[bb].term.discr
                if disc_ is not None and disc_.place is not None and not disc_.place.proj and involves(disc_.place.local):
                    return ("unknown", "a boolean computed from the distances in several steps", True)
                return None
            if not (isinstance(te, tuple) and te[0] == "binop"):
                return None
            a, b = role(te[2]), role(te[3])
            if a is None or b is None:
                return None
            v = bool(val) != neg
            if te[1] in ("Eq", "Ne") and "MAX" in (a, b) and a != b:
                return ("eqmax", a if b == "MAX" else b, v if te[1] == "Eq" else not v)
            if te[1] in ("Lt", "Ge"):
                return ("lt", "%s<%s" % (a, b), v if te[1] == "Lt" else not v)
            if te[1] in ("Gt", "Le"):
                return ("lt", "%s<%s" % (b, a), v if te[1] == "Gt" else not v)
            if te[1] in ("Eq", "Ne"):
                return ("eq", "==".join(sorted([a, b])), v if te[1] == "Eq" else not v)
            return None

        # (A) the final write: from the header of the smallest loop that contains it and the edge loop
        outer = None
        ohdr = None
        fin_w = [st for l in fin for st in w_out[l]]
        loops = []
        for blk in k.normal_blocks():
            for s_ in k.succ(blk.i):
                if k.dominates(s_, blk.i):
                    loops.append((s_, natural_loop_blocks(k, s_)))
        fin_in_loop = [st for st in fin_w if any(st.bb in lb and hdr in lb for (_h, lb) in loops)]
        condA = set()
        for st in fin_in_loop:
            cands = [(h, lb) for (h, lb) in loops if st.bb in lb and hdr in lb]
            h, lb = min(cands, key=lambda x: len(x[1]))
            pc = path_conditions(fl, k, h, st.bb, lb - inner, lit)
            if pc is None:
                condA = None
                break
            condA |= pc
        condB = set()
        for (l, st) in tent_w:
            pc = path_conditions(fl, k, hdr, st.bb, inner, lit)
            if pc is None:
                condB = None
                break
            condB |= pc
        wantA, wantB = RELAX_EXPECTED[kind]

        def show(cs):
            return sorted(sorted("%s%s" % ("" if x[-1] else "!", (x[1] + "==MAX") if x[0] == "eqmax" else x[1]) for x in c) for c in cs) if cs is not None else "too many paths"

        if condA is None or condB is None:
            ctx.undecided(rid, "kernel|" + kind, "too many paths in %s to enumerate the conditions of its writes" % sfx, loc_str(k.span))
            continue
        # compare as PREDICATES, not as texts: the comparisons only ever order CAND against TENT and test FIN / TENT
        # against MAX, so a finite set of worlds (FIN final or not, TENT reached or not, CAND <, ==, > TENT) decides
        # whether two sets of path conditions describe the same decision (`<=` with an inner `<` is `<`)
        worlds = [(f_, t_, o_) for f_ in (True, False) for t_ in (True, False) for o_ in ("<", "=", ">") if not (t_ and o_ != "<")]

        def holds(l_, w_):
            f_, t_, o_ = w_
            if l_[0] == "eqmax":
                return ((f_ if l_[1] == "FIN" else t_) == l_[2]) if l_[1] in ("FIN", "TENT") else None
            if l_[0] == "lt" and l_[1] == "CAND<TENT":
                return (o_ == "<") == l_[2]
            if l_[0] == "lt" and l_[1] == "TENT<CAND":
                return (o_ == ">") == l_[2]
            if l_[0] == "eq" and l_[1] == "CAND==TENT":
                return (o_ == "=") == l_[2]
            return None

        def table(cs):
            out_ = set()
            for w_ in worlds:
                for c_ in cs:
                    vals_ = [holds(l_, w_) for l_ in c_]
                    if any(v_ is None for v_ in vals_):
                        return None
                    if all(vals_):
                        out_.add(w_)
                        break
            return out_

        # (C) the heap receives a node exactly when its tentative distance was lowered or -- in the kernels that keep
        # all shortest paths -- the candidate TIES it; (D) a test of FIN in the pop loop never leaves that loop (a stale
        # heap entry is skipped, the search goes on)
        pushes = [t for t in k.calls() if t.bb in inner and t.callee and (t.callee.short.split("::")[-1] in ("push_fringe_node",) or t.callee.short.endswith("BinaryHeap::push"))]
        condC = set()
        for t in pushes:
            pc = path_conditions(fl, k, hdr, t.bb, inner, lit)
            if pc is None:
                condC = None
                break
            condC |= pc
        if fin_in_loop:
            cands_ = [(h_, lb_) for (h_, lb_) in loops if fin_in_loop[0].bb in lb_ and hdr in lb_]
            oh_, olb_ = min(cands_, key=lambda x: len(x[1]))
            for blk_ in k.normal_blocks():
                if blk_.i in olb_ and blk_.i not in inner and blk_.term.k == "switch":
                    at_ = fl.atom(blk_.i)
                    if at_ and at_.get("ty") == "bool":
                        l_ = lit(panic.norm(at_["test"]), True, blk_.i)
                        if l_ is not None and l_[0] == "eqmax" and l_[1] == "FIN":
                            out_ = [y for y in k.succ(blk_.i) if y not in olb_]
                            ctx.require(not out_, rid, "settled-skip|" + kind, "%s: the test of the final vector in the pop loop stays in the loop" % sfx.split("::")[-1],
                                        "in %s a branch of the `already final?` test leaves the pop loop: the first stale heap entry ends the search and the nodes still on the heap are never made final" % sfx, loc_str(blk_.term.span))
        tA, tB, eA, eB = table(condA), table(condB), table(wantA), table(wantB)
        if condC is not None and pushes:
            tC = table(condC)
            worlds_all = [(f_, t_, o_) for f_ in (True, False) for t_ in (True, False) for o_ in ("<", "=", ">") if not (t_ and o_ != "<")]
            if kind == "full":
                eC = {w_ for w_ in worlds_all if w_[0] and w_[2] in ("<", "=")}
            elif kind == "basic":
                eC = {w_ for w_ in worlds_all if w_[2] in ("<", "=")}
            else:
                eC = eB
            if tC is not None:
                ctx.require(tC == eC, rid, "push|" + kind, "%s pushes a node on the heap exactly when its tentative distance is lowered%s" % (sfx.split("::")[-1], "" if kind == "closeness" else " or tied"),
                            "%s pushes a node on the heap in the worlds (FIN==MAX, TENT==MAX, CAND ? TENT) = %s, the algorithm does so in %s: equally short routes are lost (or longer ones are followed)" % (sfx, sorted(tC), sorted(eC)), loc_str(pushes[0].span))
        if tA is None or tB is None:
            ctx.undecided(rid, "kernel|" + kind, "the writes of %s are decided by comparisons other than FIN/TENT against MAX and CAND against TENT (%s / %s); the decision is not compared" % (sfx, show(condA), show(condB)), loc_str(k.span))
            continue
        condA, wantA, condB_, wantB_ = tA, eA, tB, eB
        ctx.require(tA == eA, rid, "final|" + kind, "%s makes a popped distance final exactly when FIN == MAX" % sfx.split("::")[-1],
                    "%s makes a popped node's distance final under %s, not exactly when it is not final yet: a node that is already final is overwritten by a later (longer) heap entry, or nodes are never made final" % (sfx, show(condA_raw) if False else sorted(tA)), loc_str(fin_in_loop[0].span) if fin_in_loop else loc_str(k.span))
        ctx.require(tB == eB, rid, "relax|" + kind, "%s lowers a tentative distance exactly in the worlds %s" % (sfx.split("::")[-1], sorted(eB)),
                    "%s lowers a tentative distance in the worlds (FIN==MAX, TENT==MAX, CAND ? TENT) = %s, the algorithm does so in %s: a longer candidate replaces a shorter one, or a shorter one is ignored -- the distances are no longer the shortest ones" % (sfx, sorted(tB), sorted(eB)), loc_str(tent_w[0][1].span))
        continue
        ctx.require(condA == wantA, rid, "final|" + kind, "%s makes a popped distance final exactly under %s" % (sfx.split("::")[-1], show(wantA)),
                    "%s makes a popped node's distance final under %s, not under %s: a node that is already final is overwritten by a later (longer) heap entry, or nodes are never made final" % (sfx, show(condA), show(wantA)), loc_str(fin_in_loop[0].span) if fin_in_loop else loc_str(k.span))
        ctx.require(condB == wantB, rid, "relax|" + kind, "%s lowers a tentative distance exactly under %s" % (sfx.split("::")[-1], show(wantB)),
                    "%s lowers a tentative distance under %s, not under %s: a longer candidate replaces a shorter one, or a shorter one is ignored -- the distances are no longer the shortest ones" % (sfx, show(condB), show(wantB)), loc_str(tent_w[0][1].span))


def rule12(ctx, prog, flows, full):
    """(a) the kernels' result keeps exactly the nodes whose final distance is not f64::MAX (the reached ones); (b) the
    target exit: the pop loop is LEFT exactly on the outcome `target == Some(v)` of the target test and continues on the
    other -- flipped, the search stops at the first node that is not the target; without the exit it is merely slower,
    but with `first_only` / cutoff semantics unchanged the rule still wants the statement's "restricts, never changes"."""
    from engines import predicate_true_paths
    from hashord import natural_loop_blocks

    ctx.rule("R-C08-12", "results keep exactly the entries with distance != f64::MAX; the pop loop is left exactly when the popped node is the target")
    n = 0
    g = prog.find("dijkstra::get_shortest_path_infos")
    for k in g:
        for cb in prog.closures_of(k.path):
            if cb.local_ty(0) != "bool":
                continue
            paths = predicate_true_paths(flows.of(cb), cb)
            if paths is None or not any(any("MAX" in o for o in ops) for pth in paths for (_r, _p, ops) in pth):
                continue
            n += 1
            ok = len(paths) == 1 and len(paths[0]) == 1 and all(rel == "eq" and pol is False for (rel, pol, ops) in paths[0])
            ctx.require(ok, "R-C08-12", "reached-filter", "get_shortest_path_infos keeps exactly the entries whose distance is not f64::MAX",
                        "the result filter of get_shortest_path_infos is true under %s: unreached nodes are reported (with distance f64::MAX) or reached ones are dropped" % [sorted(("%s%s(%s)" % ("" if pol else "!", rel, ",".join(sorted(ops)))) for (rel, pol, ops) in pth) for pth in paths], loc_str(cb.span))
    fl = flows.of(full)
    tgt = full.param_local("target")
    loops = []
    for blk in full.normal_blocks():
        for s_ in full.succ(blk.i):
            if full.dominates(s_, blk.i):
                loops.append(natural_loop_blocks(full, s_))
    if tgt is not None:
        for blk in full.normal_blocks():
            if blk.term.k != "switch" or blk.term.discr.place is None:
                continue
            at = fl.atom(blk.i)
            if not at or at.get("ty") != "bool":
                continue
            te = panic.norm(at["test"])
            neg = False
            while isinstance(te, tuple) and te[0] == "unop" and te[1] == "Not":
                neg = not neg
                te = te[2]
            is_eq = isinstance(te, tuple) and ((te[0] == "call" and te[1].split("::")[-1] in ("eq", "ne", "is_some_and", "contains")) or (te[0] == "binop" and te[1] in ("Eq", "Ne")))
            if not is_eq or not desc_mentions(te, lambda x: x[0] == "place" and x[1].split(".")[0] == full.local_name(tgt)):
                continue
            inl = [lb for lb in loops if blk.i in lb]
            if not inl:
                continue
            lb = max(inl, key=len) if False else min(inl, key=len)
            n += 1
            ne_form = (te[1].split("::")[-1] == "ne") or te[1] == "Ne"
            t_succ, f_succ = at["otherwise"], dict(at["targets"]).get(0)
            if neg:
                t_succ, f_succ = f_succ, t_succ
            eq_succ, ne_succ = (f_succ, t_succ) if ne_form else (t_succ, f_succ)
            # leaving = the loop header is not reachable again without passing .. simply: the successor is outside the loop,
            # or every path from it leaves the loop before the next pop
            def leaves(s0):
                if s0 not in lb:
                    return True
                hdrs = [h for h in lb if all(full.dominates(h, x) for x in lb)]
                seen_, st_ = set(), [s0]
                while st_:
                    x = st_.pop()
                    if x in seen_ or x not in lb:
                        continue
                    seen_.add(x)
                    if x in hdrs and x != s0:
                        return False
                    st_.extend(full.succ(x))
                return True
            ctx.require(leaves(eq_succ) and not leaves(ne_succ), "R-C08-12", "target-exit|%d" % n, "the pop loop is left when the popped node is the target and goes on otherwise",
                        "the target test of the full kernel %s: the search %s" % ("leaves the pop loop on the outcome `popped node != target`" if leaves(ne_succ) else "does not leave the pop loop when the popped node is the target", "stops at the first popped node that is not the target, so the target (and everything else) is missing from the result" if leaves(ne_succ) else "goes on past the target: not wrong by itself, but then the `target` option no longer restricts anything and the early exit the option promises is gone"), loc_str(blk.term.span))
    ctx.counters["result_filters_and_target_exits"] = n


def rule13(ctx, prog, flows):
    """on a tie the paths of u gain every shortest path of v extended by u: the helper walks v's list (the SOURCE) and
    pushes onto u's (the destination).  A walk whose length is taken from the destination list drops the surplus paths of
    v when u has fewer, and indexes past the end of v's list when u has more."""
    from hashord import natural_loop_blocks

    ctx.rule("R-C08-13", "the tie helper iterates over the source node's path list (never over, or as long as, the destination's) while it pushes onto the destination's")
    hs = prog.find("dijkstra::add_u_to_v_paths_and_append_v_paths_to_u_paths")
    n = 0
    for h in hs:
        fl = flows.of(h)
        up = [i for i in range(1, h.arg_count + 1) if h.local_ty(i) == "usize"]
        if len(up) != 2:
            continue
        pushes = []
        for t in h.calls():
            if t.callee and t.callee.short.endswith("Vec::push") and t.args and "Vec<std::vec::Vec<usize>>" in t.args[0].place.ty:
                d = panic.norm(panic.expand_names(fl, panic.norm(fl.describe(t.args[0], depth=8))))
                dest = [i for i in up if desc_mentions(d, lambda x, _i=i: x[0] == "place" and x[1] == h.local_name(_i))]
                if len(dest) == 1:
                    pushes.append((t, dest[0]))
        for (t, dest) in pushes:
            src = [i for i in up if i != dest][0]
            for nx in h.calls():
                if not (nx.callee and nx.callee.short == "std::iter::Iterator::next"):
                    continue
                lb = natural_loop_blocks(h, nx.bb)
                if t.bb not in lb:
                    continue
                n += 1
                # which list is walked: the `paths[..]` lookups in the description of the iterated value (what is pushed
                # INTO the copies -- u itself -- does not count)
                itd = panic.norm(panic.expand_names(fl, panic.norm(fl.describe(nx.args[0], depth=12)), depth=8))
                if isinstance(itd, tuple) and itd[0] == "place":
                    # the `iter` variable of a desugared `for`: describe its own definition
                    l0 = nx.args[0].place.local if nx.args[0].place is not None else None
                    for _ in range(5):
                        d0 = fl.single_def(l0) if l0 is not None else None
                        if d0 is not None and getattr(d0, "rv", None) is not None and d0.rv.k in ("ref", "use") and (d0.rv.place is not None or (d0.rv.ops and d0.rv.ops[0].place is not None)):
                            l0 = d0.rv.place.local if d0.rv.place is not None else d0.rv.ops[0].place.local
                        else:
                            break
                    if l0 is not None and len(h.assigns_to(l0)) == 1 and getattr(h.assigns_to(l0)[0][1], "k", None) == "call":
                        itd = panic.norm(panic.expand_names(fl, panic.norm(fl.describe_def(h.assigns_to(l0)[0][1], depth=12)), depth=8))

                def _idx_of(name):
                    return desc_mentions(itd, lambda x: x[0] == "call" and x[1].split("::")[-1] in ("index", "index_mut", "get") and len(x[2]) >= 2 and isinstance(x[2][1], tuple) and x[2][1][0] == "place" and x[2][1][1] == name) or desc_mentions(itd, lambda x: x[0] == "place" and "[" in x[1] and x[1].split("[")[0] in ("paths",) and False)

                uses_dest = _idx_of(h.local_name(dest))
                uses_src = _idx_of(h.local_name(src))
                if not uses_src and not uses_dest:
                    ctx.undecided("R-C08-13", "tie-walk|%d" % n, "which list the tie helper walks could not be read off the loop's iterator (%s)" % fmt_desc(itd)[:80], loc_str(nx.span))
                    continue
                ctx.require(uses_src and not uses_dest, "R-C08-13", "tie-walk|%d" % n, "the loop that appends to paths[%s] walks paths[%s]" % (h.local_name(dest), h.local_name(src)),
                            "the loop that appends to paths[%s] takes its extent from %s: with fewer paths at `%s` than at `%s` shortest paths are silently dropped, with more the helper indexes past the end of the source list and panics" % (h.local_name(dest), "paths[%s]" % h.local_name(dest) if uses_dest else "neither list", h.local_name(dest), h.local_name(src)), loc_str(nx.span))
    ctx.counters["tie_walks"] = n
