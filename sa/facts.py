"""FACTS: run the rustc_private driver over /repo's working tree and load the fact base.

The extraction is cached under /verif/.work/facts keyed by the SHA-256 of /repo's sources,
Cargo.toml and Cargo.lock plus the driver binary; a cache hit is re-validated against the
hashes recorded at extraction time.  Everything fails closed: a missing driver, a failed
build of /repo, a fact file without this run's nonce -> SystemExit(2) with a message.
"""
import fcntl
import hashlib
import json
import os
import shutil
import subprocess
import sys
import time
import uuid

VERIF = os.path.dirname(os.path.dirname(os.path.abspath(__file__)))
REPO = os.environ.get("VERIF_REPO", "/repo")
WORK = os.environ.get("VERIF_WORK", os.path.join(VERIF, ".work"))
DRIVER = os.path.join(VERIF, "driver", "target", "release", "graphrs-facts")

CONFIGS = {
    "default": [],
    "adjacency_matrix": ["--features", "adjacency_matrix"],
}


class FactsError(Exception):
    pass


def _sha_file(p):
    h = hashlib.sha256()
    with open(p, "rb") as f:
        h.update(f.read())
    return h.hexdigest()


def source_hashes(repo=None):
    repo = repo or REPO
    out = {}
    for root, dirs, files in os.walk(os.path.join(repo, "src")):
        dirs.sort()
        for fn in sorted(files):
            if fn.endswith(".rs"):
                p = os.path.join(root, fn)
                out[os.path.relpath(p, repo)] = _sha_file(p)
    for fn in ("Cargo.toml", "Cargo.lock"):
        p = os.path.join(repo, fn)
        if os.path.exists(p):
            out[fn] = _sha_file(p)
    return out


def tree_key(hashes):
    h = hashlib.sha256()
    for k in sorted(hashes):
        h.update(k.encode())
        h.update(hashes[k].encode())
    if os.path.exists(DRIVER):
        h.update(_sha_file(DRIVER).encode())
    return h.hexdigest()[:24]


def nightly_sysroot():
    r = subprocess.run(["rustc", "+nightly", "--print", "sysroot"], capture_output=True, text=True)
    if r.returncode != 0:
        raise FactsError("nightly toolchain not available: " + r.stderr)
    return r.stdout.strip()


def _extract(config, out_path, repo):
    if not os.path.exists(DRIVER):
        raise FactsError("driver not built (run MANIFEST.setup_cmd): " + DRIVER)
    nonce = uuid.uuid4().hex
    tdir = os.path.join(WORK, "target-" + config)
    os.makedirs(tdir, exist_ok=True)
    # cargo's freshness cache would skip the wrapper: drop the member's fingerprints
    fp = os.path.join(tdir, "debug", ".fingerprint")
    if os.path.isdir(fp):
        for d in os.listdir(fp):
            if d.startswith("graphrs-"):
                shutil.rmtree(os.path.join(fp, d), ignore_errors=True)
    env = dict(os.environ)
    env.update(
        {
            "LD_LIBRARY_PATH": os.path.join(nightly_sysroot(), "lib"),
            "RUSTFLAGS": "-Zmir-opt-level=0 -C debug-assertions=off -C overflow-checks=on -Awarnings",
            "RUSTC_WORKSPACE_WRAPPER": DRIVER,
            "CARGO_TARGET_DIR": tdir,
            "CARGO_NET_OFFLINE": "true",
            "VERIF_FACTS_OUT": out_path + ".tmp",
            "VERIF_NONCE": nonce,
            "VERIF_CRATE": "graphrs",
        }
    )
    env.pop("RUSTC_WRAPPER", None)
    cmd = ["cargo", "+nightly", "check", "--offline", "--lib"] + CONFIGS[config]
    r = subprocess.run(cmd, cwd=repo, env=env, capture_output=True, text=True)
    if r.returncode != 0:
        raise FactsError(
            "cargo check of %s failed for config %s (the tree must compile):\n%s" % (repo, config, r.stderr[-4000:])
        )
    if not os.path.exists(out_path + ".tmp"):
        raise FactsError("driver did not write a fact file for config " + config + "\n" + r.stderr[-2000:])
    with open(out_path + ".tmp") as f:
        data = json.load(f)
    if data.get("nonce") != nonce:
        raise FactsError("stale fact file (nonce mismatch) for config " + config)
    os.replace(out_path + ".tmp", out_path)
    return data


def load(repo=None, configs=("default", "adjacency_matrix"), verbose=True):
    """returns {config: facts} for /repo's current working tree"""
    repo = repo or REPO
    os.makedirs(os.path.join(WORK, "facts"), exist_ok=True)
    lock = open(os.path.join(WORK, "facts.lock"), "w")
    fcntl.flock(lock, fcntl.LOCK_EX)
    try:
        before = source_hashes(repo)
        key = tree_key(before)
        out = {}
        t0 = time.time()
        for cfg in configs:
            path = os.path.join(WORK, "facts", "%s-%s.json" % (key, cfg))
            data = None
            if os.path.exists(path) and not os.environ.get("VERIF_NO_CACHE"):
                try:
                    with open(path) as f:
                        data = json.load(f)
                    if data.get("source_hashes") != before:
                        data = None
                except Exception:
                    data = None
            if data is None:
                data = _extract(cfg, path, repo)
                after = source_hashes(repo)
                if after != before:
                    raise FactsError("sources changed during extraction")
                data["source_hashes"] = before
                data["config"] = cfg
                with open(path + ".w", "w") as f:
                    json.dump(data, f)
                os.replace(path + ".w", path)
                if verbose:
                    print("[facts] extracted %s (%d items) in %.1fs" % (cfg, len(data["items"]), time.time() - t0))
            else:
                if verbose:
                    print("[facts] cache hit %s (%d items)" % (cfg, len(data["items"])))
            out[cfg] = data
        # prune old cache entries (keep the 6 most recent)
        fdir = os.path.join(WORK, "facts")
        ents = sorted((os.path.getmtime(os.path.join(fdir, f)), f) for f in os.listdir(fdir) if f.endswith(".json"))
        for _, f in ents[:-6]:
            try:
                os.remove(os.path.join(fdir, f))
            except OSError:
                pass
        return out
    finally:
        fcntl.flock(lock, fcntl.LOCK_UN)
        lock.close()


if __name__ == "__main__":
    try:
        fs = load()
    except FactsError as e:
        print("FACTS ERROR:", e)
        sys.exit(2)
    for c, d in fs.items():
        print(c, len(d["items"]), "items", len(d["adts"]), "adts")
