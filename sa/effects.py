"""EFFECT: which memory a body may write, inter-procedurally, and a path-sensitive
written-set dataflow ("on every CFG path the set of fields written so far is one of ...").

A write event is (bb, site, obj, kind) with obj = ("P", param, fields) | ("L", local) and
kind = the primitive operation that performs the write (`assign`, `Vec::push`,
`HashMap::insert`, ...), possibly reached through crate-local callees.
"""
from collections import defaultdict

from flow import Flows, SHALLOW_MUT, L, _LocalOperand


def prim_kind(short_name):
    """normalise a std callee to a write kind"""
    s = short_name
    for pre in ("std::collections::hash_map::", "std::collections::", "std::vec::", "std::ops::", "alloc::", "core::", "std::"):
        if s.startswith(pre):
            s = s[len(pre):]
            break
    return s


class Effects:
    def __init__(self, prog, flows=None):
        self.prog = prog
        self.flows = flows or Flows(prog)
        self._summ = None
        self._events = {}

    # ---- summaries: path -> set of (param_index, fields, kind)
    def summaries(self):
        if self._summ is not None:
            return self._summ
        summ = defaultdict(set)
        changed = True
        rounds = 0
        order = sorted(self.prog.bodies)
        while changed and rounds < 30:
            rounds += 1
            changed = False
            for p in order:
                new = set()
                for (bb, site, o, kind) in self._events_with(p, summ):
                    if o[0] == "P":
                        new.add((o[1], o[2], kind))
                if not new <= summ[p]:
                    summ[p] |= new
                    changed = True
        self._summ = summ
        self._events = {}
        return summ

    def _events_with(self, path, summ):
        fl = self.flows.of(path)
        b = fl.b
        out = []
        for blk in b.normal_blocks():
            for s in blk.stmts:
                if s.k == "assign" and s.lhs.has_deref():
                    for o in fl.resolve(s.lhs):
                        out.append((blk.i, s, o, "assign"))
                elif s.k == "assign" and s.lhs.proj:
                    out.append((blk.i, s, L(s.lhs.local), "assign"))
            t = blk.term
            if t.k != "call":
                continue
            tp = t.callee.target_path(self.prog) if t.callee else None
            if tp is not None:
                # crate-local callee: apply its summary
                for (pi, fields, kind) in summ.get(tp, ()):
                    if pi - 1 >= len(t.args):
                        continue
                    for o, m in fl._operand_pts(t.args[pi - 1]).items():
                        if not m:
                            continue
                        if o[0] == "P":
                            out.append((blk.i, t, ("P", o[1], o[2] + tuple(fields)), kind))
                        else:
                            out.append((blk.i, t, o, kind))
                # closures passed to a local callee may be invoked there: handled by the
                # closure-creation rule below
            else:
                nm = t.callee.short if t.callee else "<indirect>"
                deep = nm not in SHALLOW_MUT
                for a in t.args:
                    for o in fl.mut_reach(a, deep):
                        out.append((blk.i, t, o, prim_kind(nm)))
                # a closure handed to an external adaptor may run: its captured-by-mut writes
                # happen "at" this call
                for a in t.args:
                    cl = self._closure_of(fl, a)
                    if cl:
                        for (pi, fields, kind) in summ.get(cl[0], ()):
                            # param 1 of a closure body is its environment
                            if pi != 1:
                                continue
                            up = next((f for f in fields if f.startswith("^")), None)
                            caps = [c["name"] for c in self.prog.items[cl[0]].get("captures", [])]
                            for ci, cname in enumerate(caps):
                                if up is None or cname == up[1:] or up[1:].startswith(cname):
                                    if ci < len(cl[1].rv.ops):
                                        rest = tuple(f for f in fields[fields.index(up) + 1 :] if f != "*") if up in fields else ()
                                        for o, m in fl._operand_pts(cl[1].rv.ops[ci]).items():
                                            if not m:
                                                continue
                                            if o[0] == "P":
                                                out.append((blk.i, t, ("P", o[1], o[2] + rest), kind))
                                            else:
                                                out.append((blk.i, t, o, kind))
        return out

    def _closure_of(self, fl, op):
        """(closure path, creating stmt) if operand is a closure value created in this body"""
        hops = 0
        while op is not None and op.place is not None and not op.place.proj and hops < 6:
            hops += 1
            d = fl.single_def(op.place.local)
            if d is None or getattr(d, "rv", None) is None:
                return None
            if d.rv.k == "aggr" and d.rv.j["ak"] == "closure":
                return (d.rv.j["closure"], d)
            if d.rv.k == "use" and d.rv.ops:
                # a closure bound to a variable and then copied / moved into the call
                op = d.rv.ops[0]
                continue
            if d.rv.k == "ref" and d.rv.place is not None and not d.rv.place.proj:
                # `&closure` handed to the adaptor (`.map(&per_item)`): `&F` is itself `Fn`
                op = _LocalOperand(d.rv.place.local, fl.b.local_ty(d.rv.place.local))
                continue
            return None
        return None

    def events(self, path):
        if path not in self._events:
            self._events[path] = self._events_with(path, self.summaries())
        return self._events[path]

    def written_fields(self, path, param=1):
        """first-level field names of parameter `param`'s pointee that `path` may write"""
        out = set()
        for (pi, fields, kind) in self.summaries().get(path, ()):
            if pi == param:
                fs = [f for f in fields if f != "*"]
                out.add(fs[0] if fs else "<whole>")
        return out

    # ---- path-sensitive written-sets
    def written_sets(self, path, key_of, entry_state=frozenset()):
        """forward dataflow.  key_of(event) -> hashable tag or None.  Returns
        {bb: set of frozensets} = the possible sets of tags written on some path from entry
        to the END of block bb."""
        b = self.prog.bodies[path]
        ev_by_bb = defaultdict(list)
        for e in self.events(path):
            k = key_of(e)
            if k is not None:
                ev_by_bb[e[0]].append(k)
        IN = defaultdict(set)
        OUT = defaultdict(set)
        IN[0].add(frozenset(entry_state))
        work = [0]
        while work:
            n = work.pop()
            add = frozenset(ev_by_bb.get(n, ()))
            new_out = {s | add for s in IN[n]}
            if not new_out <= OUT[n]:
                OUT[n] |= new_out
                for s in b.succ(n):
                    if not OUT[n] <= IN[s]:
                        IN[s] |= OUT[n]
                        work.append(s)
        return IN, OUT
