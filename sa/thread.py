"""Two more normalisations of the MIR facts (after sa/inline.py and sa/lower.py):

1. `?` desugaring.  `x?` is `match x { Ok(v) => v, Err(e) => return Err(e) }` (and the Option
   analogue).  rustc lowers it through `Try::branch` + `ControlFlow` + `FromResidual::from_residual`;
   here the `Try::branch` call is replaced by a switch on the discriminant of `x` whose arms build the
   ControlFlow value explicitly, and `from_residual` (when the error type is unchanged) by the
   `Err(e)` / `None` aggregate it returns.  After that an explicit match and a `?` have the same shape.

2. Jump threading.  After a helper that returns `Result` / `Option` / `bool` / an enum has been
   spliced into its caller, each of its return points assigns a KNOWN variant and jumps to a join
   block that immediately switches on that variant.  A path-insensitive analysis would then believe
   that the error arm can be reached from the success return.  Threading removes exactly those
   infeasible paths: when the last statements of a predecessor fix the value a join block switches
   on, the join block is cloned for that predecessor and the clone jumps straight to the right arm.
   (Also covers `let ok = cond1 && cond2; if ok {..}` when the test follows directly.)

Neither pass changes what the program computes; both only make facts that hold on every path
visible to analyses that look at the control-flow graph.
"""
import copy
import os

OPT = "std::option::Option"
RES = "std::result::Result"
CF = "std::ops::ControlFlow"

VARIANT_INDEX = {
    (OPT, "None"): 0, (OPT, "Some"): 1,
    (RES, "Ok"): 0, (RES, "Err"): 1,
    (CF, "Continue"): 0, (CF, "Break"): 1,
}


def _split_args(ty):
    i = ty.find("<")
    if i < 0 or not ty.endswith(">"):
        return []
    inner = ty[i + 1:-1]
    out, depth, cur = [], 0, ""
    for ch in inner:
        if ch in "<([":
            depth += 1
        elif ch in ">)]":
            depth -= 1
        if ch == "," and depth == 0:
            out.append(cur.strip())
            cur = ""
        else:
            cur += ch
    if cur.strip():
        out.append(cur.strip())
    return out


def _P(l, ty, proj=None):
    return {"l": l, "p": proj or [], "ty": ty}


def _mv(p):
    return {"k": "move", "place": copy.deepcopy(p)}


def _variant(adt, name, ops, ty):
    return {"k": "aggr", "ak": "adt", "adt": adt, "variant": name, "is_enum": True, "fields": ["0"] if ops else [], "args": [], "ops": ops, "ty": ty}


def _payload(place, variant, fty):
    p = copy.deepcopy(place)
    p["p"] = p["p"] + [{"as": variant}, {"f": "0", "i": 0, "ty": fty, "of": place["ty"]}]
    p["ty"] = fty
    return p


class Threader:
    def __init__(self, facts):
        self.facts = facts
        self.enum_variants = {}
        for a in facts.get("adts", []):
            if a.get("kind") == "Enum":
                self.enum_variants[a["path"]] = [v["name"] for v in a["variants"]]
        self.n_try = 0
        self.n_thread = 0
        self.n_split = 0
        self.n_sroa = 0
        self.n_devirt = 0

    def variant_index(self, adt, name):
        if (adt, name) in VARIANT_INDEX:
            return VARIANT_INDEX[(adt, name)]
        vs = self.enum_variants.get(adt)
        if vs and name in vs:
            return vs.index(name)
        return None

    # ------------------------------------------------------------------ helpers on one body
    @staticmethod
    def new_local(hm, ty):
        i = len(hm["locals"])
        hm["locals"].append({"i": i, "ty": ty, "name": None, "mut": True, "lowered": True})
        return i

    @staticmethod
    def new_block(hm, stmts, term):
        i = len(hm["blocks"])
        hm["blocks"].append({"i": i, "cleanup": False, "stmts": stmts, "term": term, "lowered": True})
        return i

    @staticmethod
    def assign(lhs, rv, span, at):
        return {"k": "assign", "lhs": lhs, "rv": rv, "span": span, "inlined_at": at, "lowered": True}

    # ------------------------------------------------------------------ pass 1: `?`
    def desugar_try(self, it):
        hm = it["mir"]
        for b in list(hm["blocks"]):
            t = b["term"]
            if t["k"] != "call" or b.get("cleanup"):
                continue
            c = (t.get("func") or {}).get("c") or {}
            fn = c.get("fn", "")
            if fn == "std::ops::Try::branch" and t.get("target") is not None and t["args"] and t["args"][0].get("place"):
                x = t["args"][0]["place"]
                xty = str(x["ty"])
                dest = t["dest"]
                dty = str(dest["ty"])
                span, at = t.get("span"), t.get("inlined_at") or t.get("span")
                ga = _split_args(xty)
                cfa = _split_args(dty)
                if len(cfa) < 1:
                    continue
                res_ty = cfa[0]
                if xty.startswith(RES + "<") and len(ga) == 2:
                    T, E = ga
                    ok_blk = self.new_block(hm, [self.assign(copy.deepcopy(dest), _variant(CF, "Continue", [_mv(_payload(x, "Ok", T))], dty), span, at)], {"k": "goto", "target": t["target"], "span": span, "inlined_at": at})
                    tmp = self.new_local(hm, res_ty)
                    err_blk = self.new_block(hm, [
                        self.assign(_P(tmp, res_ty), _variant(RES, "Err", [_mv(_payload(x, "Err", E))], res_ty), span, at),
                        self.assign(copy.deepcopy(dest), _variant(CF, "Break", [_mv(_P(tmp, res_ty))], dty), span, at),
                    ], {"k": "goto", "target": t["target"], "span": span, "inlined_at": at})
                    first, second = ok_blk, err_blk
                elif xty.startswith(OPT + "<") and len(ga) == 1:
                    T = ga[0]
                    some_blk = self.new_block(hm, [self.assign(copy.deepcopy(dest), _variant(CF, "Continue", [_mv(_payload(x, "Some", T))], dty), span, at)], {"k": "goto", "target": t["target"], "span": span, "inlined_at": at})
                    tmp = self.new_local(hm, res_ty)
                    none_blk = self.new_block(hm, [
                        self.assign(_P(tmp, res_ty), _variant(OPT, "None", [], res_ty), span, at),
                        self.assign(copy.deepcopy(dest), _variant(CF, "Break", [_mv(_P(tmp, res_ty))], dty), span, at),
                    ], {"k": "goto", "target": t["target"], "span": span, "inlined_at": at})
                    first, second = none_blk, some_blk  # discriminant 0 = None
                else:
                    continue
                d = self.new_local(hm, "isize")
                b["stmts"].append(self.assign(_P(d, "isize"), {"k": "discr", "place": copy.deepcopy(x), "ty": "isize"}, span, at))
                b["term"] = {"k": "switch", "discr": _mv(_P(d, "isize")), "discr_ty": "isize", "targets": [["0", first]], "otherwise": second, "span": span, "inlined_at": at, "desugared": "Try::branch"}
                self.n_try += 1
            elif fn == "std::ops::FromResidual::from_residual" and t.get("target") is not None and t["args"] and t["args"][0].get("place"):
                r = t["args"][0]["place"]
                rty = str(r["ty"])
                dest = t["dest"]
                dty = str(dest["ty"])
                span, at = t.get("span"), t.get("inlined_at") or t.get("span")
                ra, da = _split_args(rty), _split_args(dty)
                if rty.startswith(RES + "<") and dty.startswith(RES + "<") and len(ra) == 2 and len(da) == 2 and ra[1] == da[1]:
                    b["stmts"].append(self.assign(copy.deepcopy(dest), _variant(RES, "Err", [_mv(_payload(r, "Err", ra[1]))], dty), span, at))
                    b["stmts"][-1]["desugared"] = "from_residual"
                    b["term"] = {"k": "goto", "target": t["target"], "span": span, "inlined_at": at}
                    self.n_try += 1
                elif rty.startswith(OPT + "<") and dty.startswith(OPT + "<"):
                    b["stmts"].append(self.assign(copy.deepcopy(dest), _variant(OPT, "None", [], dty), span, at))
                    b["stmts"][-1]["desugared"] = "from_residual"
                    b["term"] = {"k": "goto", "target": t["target"], "span": span, "inlined_at": at}
                    self.n_try += 1

    # ------------------------------------------------------------------ pass 2: jump threading
    _unnamed = None

    def known_after(self, stmts, env=None):
        """symbolic facts after executing a straight-line statement list:
        {local: ('variant', adt, idx) | ('bool', v) | ('int', n)}"""
        env = dict(env or {})
        for s in stmts:
            if s["k"] != "assign":
                continue
            lhs = s["lhs"]
            if lhs["p"]:
                # a write into a part of a tracked local invalidates it only for derefs through it; keep it simple
                if lhs["l"] in env and "*" not in lhs["p"]:
                    pass
                continue
            l = lhs["l"]
            rv = s["rv"]
            val = None
            if rv["k"] == "aggr" and rv.get("ak") == "adt" and rv.get("is_enum"):
                idx = self.variant_index(rv.get("adt"), rv.get("variant"))
                if idx is not None:
                    val = ("variant", idx)
            elif rv["k"] == "use":
                o = rv["ops"][0]
                if o.get("k") == "const":
                    # boolean constants of NAMED variables are deliberately not threaded: `let c = a && b; if c {..}`
                    # is handled by Body.implied_edges / reach_avoiding_edges, which need the constant definitions
                    # in place.  A compiler temporary (the result slot of a lowered `is_some_and`, of a `match` used as
                    # a condition) is threaded like a variant.
                    cb = (o.get("c") or {})
                    if self._unnamed is not None and l in self._unnamed and cb.get("ty") == "bool" and "int" in cb:
                        val = ("bool", bool(int(cb["int"])))
                elif o.get("place") and not o["place"]["p"] and o["place"]["l"] in env:
                    val = env[o["place"]["l"]]
                    if val[0] == "bool" and (self._unnamed is None or l not in self._unnamed):
                        val = None
            elif rv["k"] == "discr":
                pl = rv["place"]
                if not pl["p"] and pl["l"] in env and env[pl["l"]][0] == "variant":
                    val = ("int", env[pl["l"]][1])
                elif pl["p"] == ["*"] and pl["l"] in env and env[pl["l"]][0] == "refto" and env[pl["l"]][1] in env and env[env[pl["l"]][1]][0] == "variant":
                    # `match &x { .. }`
                    val = ("int", env[env[pl["l"]][1]][1])
            elif rv["k"] == "ref" and not rv["place"]["p"]:
                val = ("refto", rv["place"]["l"])
            elif rv["k"] == "unop" and rv.get("op") == "Not":
                o = rv["ops"][0]
                if o.get("place") and not o["place"]["p"] and o["place"]["l"] in env and env[o["place"]["l"]][0] == "bool":
                    val = ("bool", not env[o["place"]["l"]][1])
            if val is None:
                env.pop(l, None)
            else:
                env[l] = val
        return env

    def thread_body(self, it):
        """for a block P that ends in `goto` and whose own statements fix what a following switch tests
        (possibly behind a short chain of goto-only blocks), clone the chain for P and let the clone of the
        switch block jump straight to the arm P's value selects"""
        hm = it["mir"]
        changed_any = False
        self._unnamed = None if os.environ.get("VERIF_NO_BOOL_THREADING") else {l["i"] for l in hm["locals"] if not l.get("name")}
        for _round in range(200):
            blocks = hm["blocks"]
            npreds = {}
            for b in blocks:
                if b.get("cleanup") or b.get("dead"):
                    continue
                for s in set(self._succs(b["term"])):
                    npreds[s] = npreds.get(s, 0) + 1
            did = False
            for pb in list(blocks):
                if pb.get("cleanup") or pb.get("dead") or pb["term"]["k"] != "goto":
                    continue
                env = self.known_after(pb["stmts"])
                if not env:
                    continue
                chain = []
                cur = pb["term"]["target"]
                seen = {pb["i"]}
                tgt = None
                while len(chain) < 5 and cur not in seen:
                    seen.add(cur)
                    cb = blocks[cur]
                    if cb.get("cleanup"):
                        break
                    env = self.known_after(cb["stmts"], env)
                    chain.append(cur)
                    k = cb["term"]["k"]
                    if k == "switch":
                        dpl = cb["term"]["discr"].get("place")
                        if dpl and not dpl["p"]:
                            tgt = self._resolve(cb["term"], env)
                        break
                    if k != "goto":
                        break
                    cur = cb["term"]["target"]
                if tgt is None or not chain:
                    continue
                # clone the chain for pb
                prev = pb
                for ci, cidx in enumerate(chain):
                    cb = blocks[cidx]
                    last = ci == len(chain) - 1
                    term = {"k": "goto", "target": tgt if last else None, "span": cb["term"].get("span"), "inlined_at": cb["term"].get("inlined_at"), "threaded": True}
                    nb = self.new_block(hm, copy.deepcopy(cb["stmts"]), term)
                    hm["blocks"][nb]["threaded_from"] = cidx
                    prev["term"] = dict(prev["term"])
                    prev["term"]["target"] = nb
                    prev = hm["blocks"][nb]
                self.n_thread += 1
                did = True
                break
            if not did:
                break
            changed_any = True
        if changed_any:
            self._mark_dead(hm)
            for _ in range(4):
                n0 = sum(len(b["stmts"]) for b in hm["blocks"])
                self._drop_dead_consts(hm)
                if sum(len(b["stmts"]) for b in hm["blocks"]) == n0:
                    break
        return changed_any

    @staticmethod
    def _locals_in(j, out):
        """every local mentioned anywhere inside a JSON fragment (places and index projections)"""
        if isinstance(j, dict):
            if "l" in j and "p" in j and isinstance(j["l"], int):
                out.add(j["l"])
            if "idx" in j and isinstance(j["idx"], int):
                out.add(j["idx"])
            for v in j.values():
                Threader._locals_in(v, out)
        elif isinstance(j, list):
            for v in j:
                Threader._locals_in(v, out)

    def _drop_dead_consts(self, hm):
        """after threading, `_t = const true/false` of a compiler temporary whose only reader (the switch the
        constant was threaded through) is no longer reachable from it is a dead store: remove it, so that `_t` is
        again a single-definition temporary for the descriptions"""
        if not self._unnamed:
            return
        blocks = hm["blocks"]
        reads = {}
        for b in blocks:
            if b.get("cleanup") or b.get("dead"):
                continue
            r = set()
            for st in b["stmts"]:
                if st["k"] == "assign":
                    self._locals_in(st["rv"], r)
                    if st["lhs"]["p"]:
                        self._locals_in(st["lhs"], r)
                else:
                    pass
            self._locals_in(b["term"], r)
            reads[b["i"]] = r
        for b in blocks:
            if b.get("cleanup") or b.get("dead"):
                continue
            for k, st in enumerate(list(b["stmts"])):
                if st["k"] != "assign" or st["lhs"]["p"] or st["lhs"]["l"] not in self._unnamed:
                    continue
                rv = st["rv"]
                if rv["k"] != "use":
                    continue
                o0 = rv["ops"][0]
                is_bool_const = o0.get("k") == "const" and (o0.get("c") or {}).get("ty") == "bool"
                is_plain_copy = bool(o0.get("place")) and not o0["place"]["p"] and str(st["lhs"].get("ty")) == "bool"
                if not (is_bool_const or is_plain_copy):
                    continue
                t = st["lhs"]["l"]
                # read later in the same block?
                later = set()
                for st2 in b["stmts"][b["stmts"].index(st) + 1:]:
                    if st2["k"] == "assign":
                        self._locals_in(st2["rv"], later)
                        if st2["lhs"]["p"]:
                            self._locals_in(st2["lhs"], later)
                self._locals_in(b["term"], later)
                if t in later:
                    continue
                seen = set()
                work = list(self._succs(b["term"]))
                live = False
                while work and not live:
                    x = work.pop()
                    if x in seen:
                        continue
                    seen.add(x)
                    if blocks[x].get("cleanup"):
                        continue
                    if t in reads.get(x, ()):
                        live = True
                        break
                    work.extend(self._succs(blocks[x]["term"]))
                if not live:
                    b["stmts"].remove(st)

    # ------------------------------------------------------------------ pass 3: references selected by a branch
    SCALARS = ("bool", "()", "usize", "isize", "f64", "f32", "u8", "u16", "u32", "u64", "i8", "i16", "i32", "i64", "char", "!")

    @staticmethod
    def _rename(j, m):
        """rename locals inside a JSON fragment (places and index projections) in place"""
        if isinstance(j, dict):
            if "l" in j and "p" in j and isinstance(j["l"], int) and j["l"] in m:
                j["l"] = m[j["l"]]
            if "idx" in j and isinstance(j["idx"], int) and j["idx"] in m:
                j["idx"] = m[j["idx"]]
            for v in j.values():
                Threader._rename(v, m)
        elif isinstance(j, list):
            for v in j:
                Threader._rename(v, m)

    def _block_rw(self, b):
        """(locals read, locals written as a whole or in part) by a block"""
        r, w = set(), set()
        for st in b["stmts"]:
            if st["k"] != "assign":
                continue
            self._locals_in(st["rv"], r)
            w.add(st["lhs"]["l"])
            if st["lhs"]["p"]:
                self._locals_in(st["lhs"], r)
        t = b["term"]
        if t["k"] == "call":
            self._locals_in(t.get("func"), r)
            self._locals_in(t.get("args"), r)
            w.add(t["dest"]["l"])
            if t["dest"]["p"]:
                self._locals_in(t["dest"], r)
        else:
            self._locals_in(t, r)
        return r, w

    def split_selected_refs(self, it):
        """`let r = match c { true => &mut a, false => &mut b }; use(r)`: the statements that use the selected
        reference are duplicated into the two arms (each with its own copy of `r` and of the temporaries derived
        from it), which is what the code looked like before the arms were merged.  The flow-insensitive points-to
        sets then keep `a` and `b` apart, and the uses stay control-dependent on `c`."""
        hm = it["mir"]
        blocks = hm["blocks"]
        did = False
        for _round in range(8):
            live = [b for b in blocks if not b.get("cleanup") and not b.get("dead")]
            preds = {}
            for b in live:
                for y in set(self._succs(b["term"])):
                    preds.setdefault(y, []).append(b["i"])
            # whole definitions of reference-carrying locals, by block
            defs = {}
            other_def = set()
            for b in live:
                for st in b["stmts"]:
                    if st["k"] == "assign":
                        l = st["lhs"]["l"]
                        if st["lhs"]["p"]:
                            other_def.add(l)
                        else:
                            defs.setdefault(l, []).append(b["i"])
                if b["term"]["k"] == "call":
                    other_def.add(b["term"]["dest"]["l"])
            cand = None
            for l, dbs in sorted(defs.items()):
                ty = str(hm["locals"][l]["ty"])
                is_fn_ptr = ty.startswith("fn(") or (ty.startswith("for<") and "> fn(" in ty[:80]) or ty.startswith("unsafe fn(")
                if l in other_def or len(dbs) < 2 or len(set(dbs)) != len(dbs):
                    continue
                if not is_fn_ptr and ("&mut" not in ty or not (ty.startswith("&") or ty.startswith("("))):
                    continue
                if l <= hm["arg_count"]:
                    continue
                tg = {blocks[d]["term"].get("target") if blocks[d]["term"]["k"] == "goto" else None for d in dbs}
                if len(tg) != 1 or None in tg:
                    continue
                J = next(iter(tg))
                if J in dbs or sorted(preds.get(J, [])) != sorted(dbs):
                    continue
                # the maximal straight-line chain from J
                chain = []
                cur = J
                while cur is not None and cur not in chain and cur not in dbs and len(chain) < 32:
                    cb = blocks[cur]
                    if cb.get("cleanup") or (chain and len(preds.get(cur, [])) != 1):
                        break
                    chain.append(cur)
                    t = cb["term"]
                    if t["k"] == "goto" or (t["k"] in ("call", "drop") and t.get("target") is not None):
                        cur = t["target"]
                    else:
                        cur = None
                if not chain:
                    continue
                rw = {c: self._block_rw(blocks[c]) for c in chain}
                last = 0
                D = {l}
                for _ in range(40):
                    D = {l}
                    for c in chain[: last + 1]:
                        cb = blocks[c]
                        for st in cb["stmts"]:
                            if st["k"] != "assign":
                                continue
                            rr = set()
                            self._locals_in(st["rv"], rr)
                            if st["lhs"]["p"]:
                                self._locals_in(st["lhs"]["p"], rr)
                            if rr & D:
                                D.add(st["lhs"]["l"])
                        t = cb["term"]
                        if t["k"] == "call":
                            rr = set()
                            self._locals_in(t.get("args"), rr)
                            if rr & D and str(t["dest"]["ty"]) not in self.SCALARS:
                                D.add(t["dest"]["l"])
                    nl = max([k for k, c in enumerate(chain) if rw[c][0] & D] or [0])
                    if nl <= last:
                        break
                    last = nl
                region = chain[: last + 1]
                rset = set(region)
                if blocks[region[-1]]["term"]["k"] not in ("goto", "call", "drop"):
                    continue
                # every read / write of the derived locals lies inside the region (the selected local itself is
                # written in the arms)
                ok = True
                reads_in, writes_in = set(), set()
                for c in region:
                    reads_in |= rw[c][0]
                    writes_in |= rw[c][1]
                for b in live:
                    if b["i"] in rset:
                        continue
                    r_, w_ = self._block_rw(b)
                    if r_ & D:
                        ok = False
                    if (w_ & D) - ({l} if b["i"] in dbs else set()):
                        ok = False
                for b in blocks:
                    if b.get("cleanup") and not b.get("dead"):
                        r_, w_ = self._block_rw(b)
                        if (r_ | w_) & (D - {l}):
                            pass  # drops of the temporaries on unwinding: not analysed
                if not ok or l in writes_in:
                    continue
                # locals private to the region: defined and used only there
                outside_r, outside_w = set(), set()
                for b in live:
                    if b["i"] in rset:
                        continue
                    r_, w_ = self._block_rw(b)
                    outside_r |= r_
                    outside_w |= w_
                private = {x for x in writes_in if x not in outside_r and x not in outside_w and x > hm["arg_count"] and x != 0}
                if not (D - {l}) <= private:
                    continue
                cand = (l, dbs, region)
                break
            if cand is None:
                break
            (l, dbs, region) = cand
            exit_t = blocks[region[-1]]["term"]
            for d in dbs:
                m = {}
                for x in sorted(private | {l}):
                    src = hm["locals"][x]
                    nl_ = len(hm["locals"])
                    nloc = dict(src)
                    nloc["i"] = nl_
                    nloc["split_of"] = x
                    if src.get("name"):
                        nloc["param_name"] = src.get("name")
                    nloc["name"] = None
                    hm["locals"].append(nloc)
                    m[x] = nl_
                first = None
                prev = None
                for c in region:
                    cb = blocks[c]
                    st2 = copy.deepcopy(cb["stmts"])
                    t2 = copy.deepcopy(cb["term"])
                    self._rename(st2, m)
                    self._rename(t2, m)
                    nb = self.new_block(hm, st2, t2)
                    hm["blocks"][nb]["split_from"] = c
                    if first is None:
                        first = nb
                    if prev is not None:
                        hm["blocks"][prev]["term"]["target"] = nb
                    prev = nb
                pb = blocks[d]
                self._rename(pb["stmts"], {l: m[l]})
                pb["term"] = dict(pb["term"])
                pb["term"]["target"] = first
            self.n_split += 1
            did = True
            self._mark_dead(hm)
        return did

    # ------------------------------------------------------------------ pass 4: scalar replacement of local tuples
    @staticmethod
    def _places_in(j, out):
        if isinstance(j, dict):
            if "l" in j and "p" in j and isinstance(j["l"], int) and isinstance(j["p"], list):
                out.append(j)
                for e in j["p"]:
                    Threader._places_in(e, out)
                return
            for v in j.values():
                Threader._places_in(v, out)
        elif isinstance(j, list):
            for v in j:
                Threader._places_in(v, out)

    def sroa(self, it):
        """an unnamed local tuple / struct that is only ever built by an aggregate and only ever used field by field
        (`let (a, b, c) = match d { true => (&mut x, ..), false => (..) };`) is replaced by one local per field.
        Points-to sets, descriptions and slices then see the components separately."""
        hm = it["mir"]
        blocks = [b for b in hm["blocks"] if not b.get("dead")]
        whole_def = {}
        bad = set()

        def use(pl):
            if not pl["p"]:
                bad.add(pl["l"])
            else:
                e = pl["p"][0]
                if not (isinstance(e, dict) and "f" in e and isinstance(e.get("i"), int)):
                    bad.add(pl["l"])

        for b in blocks:
            for st in b["stmts"]:
                if st["k"] != "assign":
                    acc = []
                    self._places_in(st, acc)
                    for pl in acc:
                        bad.add(pl["l"])
                    continue
                lhs, rv = st["lhs"], st["rv"]
                if not lhs["p"]:
                    if rv["k"] == "aggr" and rv.get("ak") in ("tuple", "adt") and not rv.get("is_enum") and rv.get("ops"):
                        whole_def.setdefault(lhs["l"], []).append((b, st))
                    else:
                        bad.add(lhs["l"])
                else:
                    use(lhs)
                    acc = []
                    self._places_in(lhs["p"], acc)
                    for pl in acc:
                        use(pl)
                acc = []
                self._places_in(rv, acc)
                for pl in acc:
                    use(pl)
            acc = []
            self._places_in(b["term"], acc)
            for pl in acc:
                use(pl)
        for d in hm.get("debug") or []:
            acc = []
            self._places_in(d, acc)
            for pl in acc:
                bad.add(pl["l"])
        n_done = 0
        for l, ds in sorted(whole_def.items()):
            if l in bad or l == 0 or l <= hm["arg_count"] or hm["locals"][l].get("name"):
                continue
            n = len(ds[0][1]["rv"]["ops"])
            if any(len(st["rv"]["ops"]) != n for (_, st) in ds):
                continue
            new = []
            for i in range(n):
                o = ds[0][1]["rv"]["ops"][i]
                ty = (o.get("place") or {}).get("ty") or (o.get("c") or {}).get("ty") or "?"
                nl = self.new_local(hm, ty)
                hm["locals"][nl]["field_of"] = [l, i]
                new.append(nl)
            # rewrite the uses
            for b in blocks:
                acc = []
                self._places_in(b["stmts"], acc)
                self._places_in(b["term"], acc)
                for pl in acc:
                    if pl["l"] == l and pl["p"]:
                        i = pl["p"][0]["i"]
                        if i < n:
                            pl["l"] = new[i]
                            pl["p"] = pl["p"][1:]
            # and the definitions
            for (b, st) in ds:
                k = b["stmts"].index(st)
                repl = []
                for i, o in enumerate(st["rv"]["ops"]):
                    ty = hm["locals"][new[i]]["ty"]
                    repl.append({"k": "assign", "lhs": {"l": new[i], "p": [], "ty": ty}, "rv": {"k": "use", "ops": [o], "ty": ty}, "span": st.get("span"), "inlined_at": st.get("inlined_at"), "sroa": l})
                b["stmts"][k:k + 1] = repl
            n_done += 1
        self.n_sroa += n_done
        return n_done

    def devirtualise(self, it):
        """a call through a local whose only definition is a function item coerced to a function pointer
        (`let k: fn(..) = f; k(x)`, also after the selected-reference pass gave each arm its own copy) is a direct call"""
        hm = it["mir"]
        n = 0
        for b in hm["blocks"]:
            if b.get("dead"):
                continue
            t = b["term"]
            if t["k"] != "call":
                continue
            f = t.get("func") or {}
            pl = f.get("place")
            if not pl or pl["p"]:
                continue
            l = pl["l"]
            const = None
            for _ in range(4):
                defs = []
                for b2 in hm["blocks"]:
                    if b2.get("dead"):
                        continue
                    for s2 in b2["stmts"]:
                        if s2["k"] == "assign" and s2["lhs"]["l"] == l:
                            defs.append(s2)
                    if b2["term"]["k"] == "call" and b2["term"]["dest"]["l"] == l:
                        defs.append(None)
                if len(defs) != 1 or defs[0] is None or defs[0]["lhs"]["p"]:
                    break
                rv = defs[0]["rv"]
                if rv["k"] in ("use", "cast") and rv.get("ops"):
                    o = rv["ops"][0]
                    if o.get("k") == "const" and "fn" in (o.get("c") or {}):
                        const = o
                        break
                    if o.get("place") and not o["place"]["p"]:
                        l = o["place"]["l"]
                        continue
                break
            if const is not None:
                t["func"] = copy.deepcopy(const)
                t["devirtualised"] = True
                n += 1
        self.n_devirt += n
        return n

    def _mark_dead(self, hm):
        blocks = hm["blocks"]
        seen = set()
        st = [0]
        while st:
            x = st.pop()
            if x in seen:
                continue
            seen.add(x)
            t = blocks[x]["term"]
            for y in self._succs(t):
                st.append(y)
            if t["k"] in ("call", "drop", "assert") and isinstance(t.get("unwind"), int):
                st.append(t["unwind"])
        for b in blocks:
            if b["i"] not in seen and not b.get("cleanup"):
                # no longer reachable: hide it from the analyses the same way unwinding blocks are hidden
                b["cleanup"] = True
                b["dead"] = True

    @staticmethod
    def _succs(t):
        k = t["k"]
        if k == "goto":
            return [t["target"]]
        if k == "switch":
            return [b for _, b in t["targets"]] + [t["otherwise"]]
        if k in ("call", "drop", "assert"):
            return [t["target"]] if t.get("target") is not None else []
        if k == "other":
            return list(t.get("succ", []))
        return []

    @staticmethod
    def _resolve(term, env):
        dpl = term["discr"].get("place")
        v = env.get(dpl["l"])
        if v is None:
            return None
        if v[0] == "int":
            n = v[1]
        elif v[0] == "bool":
            n = 1 if v[1] else 0
        else:
            return None
        for val, b in term["targets"]:
            if int(val) == n:
                return b
        return term["otherwise"]

    # ------------------------------------------------------------------ driver
    def run(self):
        for it in self.facts["items"]:
            if "mir" not in it:
                continue
            self.desugar_try(it)
            self.thread_body(it)
            if not os.environ.get("VERIF_NO_SPLIT"):
                self.split_selected_refs(it)
            if not os.environ.get("VERIF_NO_SROA"):
                self.sroa(it)
            self.devirtualise(it)
        self.facts["try_desugared"] = self.n_try
        self.facts["jumps_threaded"] = self.n_thread
        self.facts["selected_refs_split"] = self.n_split
        self.facts["tuples_replaced"] = self.n_sroa
        self.facts["devirtualised_calls"] = self.n_devirt
        return self.facts
