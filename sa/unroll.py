"""Unrolling of loops over small array literals.

`for x in [a, b] { body }` (also `[a, b].into_iter().for_each(..)` once lowered) says `body(a); body(b)`: a maintainer
who merges two copies of a statement writes exactly this.  The analyses, however, reason about *which* call handles
*which* endpoint, which happens first, and under which test; inside a loop all of that is one call site handling
"some element".  This pass restores the unmerged form on the JSON facts: for an array aggregate with N <= 4 operands that
is iterated by value through `std::array::IntoIter`, the loop blocks are cloned once per element, the item is replaced by
that element's operand, and the copies are chained; locals that live only inside the loop are renamed per copy.

Runs after sa/lower.py (so adaptor forms are loops already) and before sa/thread.py (which then resolves the
`Some` / `None` tests of the unrolled headers)."""
import copy
import os

MAX_N = 4


def _succs(t):
    k = t["k"]
    if k == "goto":
        return [t["target"]]
    if k == "switch":
        return [b for _, b in t["targets"]] + [t["otherwise"]]
    if k in ("call", "drop", "assert"):
        return [t["target"]] if t.get("target") is not None else []
    if k == "other":
        return list(t.get("succ", []))
    return []


def _places_in(j, out):
    if isinstance(j, dict):
        if "l" in j and "p" in j and isinstance(j["l"], int) and isinstance(j["p"], list):
            out.append(j)
            for e in j["p"]:
                _places_in(e, out)
            return
        for v in j.values():
            _places_in(v, out)
    elif isinstance(j, list):
        for v in j:
            _places_in(v, out)


def _rw(b):
    """(locals read, locals written) by a block"""
    r, w = set(), set()

    def reads(j):
        acc = []
        _places_in(j, acc)
        for pl in acc:
            r.add(pl["l"])
            for e in pl["p"]:
                if isinstance(e, dict) and isinstance(e.get("idx"), int):
                    r.add(e["idx"])

    for st in b["stmts"]:
        if st["k"] != "assign":
            reads(st)
            continue
        reads(st["rv"])
        w.add(st["lhs"]["l"])
        if st["lhs"]["p"]:
            reads(st["lhs"])
    t = b["term"]
    if t["k"] == "call":
        reads(t.get("func"))
        reads(t.get("args"))
        w.add(t["dest"]["l"])
        if t["dest"]["p"]:
            reads(t["dest"])
    else:
        reads(t)
    return r, w


def _rename(j, m):
    if isinstance(j, dict):
        if "l" in j and "p" in j and isinstance(j["l"], int) and j["l"] in m:
            j["l"] = m[j["l"]]
        if isinstance(j.get("idx"), int) and j["idx"] in m:
            j["idx"] = m[j["idx"]]
        for v in j.values():
            _rename(v, m)
    elif isinstance(j, list):
        for v in j:
            _rename(v, m)


def _single_whole_def(hm, l):
    out = []
    for b in hm["blocks"]:
        if b.get("cleanup"):
            continue
        for s in b["stmts"]:
            if s["k"] == "assign" and s["lhs"]["l"] == l:
                out.append(("stmt", b, s))
        t = b["term"]
        if t["k"] == "call" and t["dest"]["l"] == l:
            out.append(("call", b, t))
    return out


class Unroller:
    def __init__(self, facts):
        self.facts = facts
        self.n = 0

    def run(self):
        for it in self.facts["items"]:
            if "mir" not in it:
                continue
            for _ in range(6):
                if not self.unroll_one(it):
                    break
        self.facts["array_loops_unrolled"] = self.n
        return self.facts

    def unroll_one(self, it):
        hm = it["mir"]
        blocks = hm["blocks"]
        for H in blocks:
            if H.get("cleanup") or H.get("dead"):
                continue
            t = H["term"]
            c = (t.get("func") or {}).get("c") or {} if t["k"] == "call" else {}
            if c.get("fn") != "std::iter::Iterator::next" or not t["args"] or not t["args"][0].get("place") or t.get("target") is None:
                continue
            if "std::array::IntoIter<" not in str(t["args"][0]["place"]["ty"]) or t["dest"]["p"]:
                continue
            # the iterator local behind `&mut *(&mut it)`
            l = t["args"][0]["place"]["l"]
            it_local = None
            for _ in range(4):
                ds = _single_whole_def(hm, l)
                if len(ds) != 1 or ds[0][0] != "stmt":
                    break
                rv = ds[0][2]["rv"]
                if rv["k"] == "ref" and (not rv["place"]["p"] or rv["place"]["p"] == ["*"]):
                    if not rv["place"]["p"]:
                        it_local = rv["place"]["l"]
                        break
                    l = rv["place"]["l"]
                    continue
                break
            if it_local is None:
                continue
            # it_local = move (dest of into_iter(move arr)); arr = [op0, .., opN-1]
            src = it_local
            arr_ops = None
            for _ in range(3):
                ds = _single_whole_def(hm, src)
                if len(ds) != 1:
                    break
                kind, b_, d = ds[0]
                if kind == "stmt" and d["rv"]["k"] == "use" and d["rv"]["ops"][0].get("place") and not d["rv"]["ops"][0]["place"]["p"]:
                    src = d["rv"]["ops"][0]["place"]["l"]
                    continue
                if kind == "call":
                    cc = (d.get("func") or {}).get("c") or {}
                    if cc.get("fn") == "std::iter::IntoIterator::into_iter" and d["args"] and d["args"][0].get("place") and not d["args"][0]["place"]["p"]:
                        ads = _single_whole_def(hm, d["args"][0]["place"]["l"])
                        if len(ads) == 1 and ads[0][0] == "stmt" and ads[0][2]["rv"]["k"] == "aggr" and ads[0][2]["rv"].get("ak") == "array":
                            arr_ops = ads[0][2]["rv"]["ops"]
                break
            if not arr_ops or not (1 <= len(arr_ops) <= MAX_N):
                continue
            opt = t["dest"]["l"]
            C = blocks[t["target"]]
            ct = C["term"]
            if ct["k"] != "switch" or not ct["discr"].get("place"):
                continue
            tg = {int(v): b for v, b in ct["targets"]}
            if 0 not in tg:
                continue
            exit_bb = tg[0]
            # natural loop of H
            preds = {}
            for b in blocks:
                if b.get("cleanup") or b.get("dead"):
                    continue
                for y in set(_succs(b["term"])):
                    preds.setdefault(y, set()).add(b["i"])
            # blocks reachable from H without passing the exit edge, that reach H again
            fwd = set()
            st = [H["i"]]
            while st:
                x = st.pop()
                if x in fwd:
                    continue
                fwd.add(x)
                for y in _succs(blocks[x]["term"]):
                    if x == C["i"] and y == exit_bb:
                        continue
                    if not blocks[y].get("cleanup"):
                        st.append(y)
            back = set()
            st = list(preds.get(H["i"], ()))
            while st:
                x = st.pop()
                if x in back or x not in fwd:
                    continue
                back.add(x)
                if x != H["i"]:
                    st.extend(preds.get(x, ()))
            loop = (back | {H["i"], C["i"]}) & fwd
            if len(loop) < 3 or len(loop) > 60:
                continue
            outside_preds = [p for p in preds.get(H["i"], ()) if p not in loop]
            if len(outside_preds) != 1:
                continue
            # every other block of the loop is entered only from inside the loop
            if any(p not in loop for x in loop if x != H["i"] for p in preds.get(x, ())):
                continue
            # locals private to the loop
            inside_w, outside_r, outside_w = set(), set(), set()
            for b in blocks:
                if b.get("dead"):
                    continue
                r_, w_ = _rw(b)
                if b["i"] in loop:
                    inside_w |= w_
                else:
                    outside_r |= r_
                    outside_w |= w_
            private = {x for x in inside_w if x not in outside_r and x not in outside_w and x != 0 and x > hm["arg_count"]}
            if opt not in private:
                continue
            self._do(it, hm, H, C, exit_bb, loop, private, opt, arr_ops, outside_preds[0])
            self.n += 1
            return True
        return False

    def _do(self, it, hm, H, C, exit_bb, loop, private, opt, arr_ops, entry_pred):
        blocks = hm["blocks"]
        order = sorted(loop)
        opt_ty = H["term"]["dest"]["ty"]
        span = H["term"].get("span")
        at = H["term"].get("inlined_at")
        heads = []
        copies = []
        for i, op in enumerate(arr_ops):
            lm = {}
            for x in sorted(private):
                src = hm["locals"][x]
                nl = len(hm["locals"])
                nloc = dict(src)
                nloc["i"] = nl
                nloc["unrolled_of"] = x
                if src.get("name"):
                    nloc["param_name"] = src["name"]
                nloc["name"] = None
                hm["locals"].append(nloc)
                lm[x] = nl
            bm = {}
            for x in order:
                nb = copy.deepcopy(blocks[x])
                nb["i"] = len(blocks)
                nb["unrolled_from"] = x
                nb["lowered"] = True
                blocks.append(nb)
                bm[x] = nb["i"]
            elem = copy.deepcopy(op)
            if elem.get("k") == "move":
                elem["k"] = "copy"
            pre = []
            if not elem.get("place"):
                # a constant element: give it a local of its own so that the item reads have a place to refer to
                ety = (elem.get("c") or {}).get("ty") or "?"
                el = len(hm["locals"])
                hm["locals"].append({"i": el, "ty": ety, "name": None, "mut": False, "lowered": True})
                pre.append({"k": "assign", "lhs": {"l": el, "p": [], "ty": ety}, "rv": {"k": "use", "ops": [elem], "ty": ety}, "span": span, "inlined_at": at, "lowered": True})
                elem = {"k": "copy", "place": {"l": el, "p": [], "ty": ety}}
            for x in order:
                nb = blocks[bm[x]]
                # the item: reads of `(opt as Some).0` become reads of the element
                if elem.get("place"):
                    acc = []
                    _places_in(nb["stmts"], acc)
                    _places_in(nb["term"], acc)
                    for pl in acc:
                        p = pl["p"]
                        if pl["l"] == opt and len(p) >= 2 and isinstance(p[0], dict) and p[0].get("as") == "Some" and isinstance(p[1], dict) and p[1].get("i") == 0:
                            pl["l"] = elem["place"]["l"]
                            pl["p"] = copy.deepcopy(elem["place"]["p"]) + p[2:]
                _rename(nb["stmts"], lm)
                _rename(nb["term"], lm)
            # the header: no call to next, `opt = Some(element)`
            hb = blocks[bm[H["i"]]]
            hb["stmts"].extend(pre)
            hb["stmts"].append({"k": "assign", "lhs": {"l": lm[opt], "p": [], "ty": opt_ty}, "rv": {"k": "aggr", "ak": "adt", "adt": "std::option::Option", "variant": "Some", "is_enum": True, "fields": ["0"], "ops": [copy.deepcopy(elem)], "ty": opt_ty}, "span": span, "inlined_at": at, "lowered": True})
            hb["term"] = {"k": "goto", "target": bm[C["i"]], "span": span, "inlined_at": at, "unrolled": i}
            heads.append(bm[H["i"]])
            copies.append(bm)
        # wire: edges to H inside copy i go to the head of copy i+1; after the last copy, to the exit
        for i, bm in enumerate(copies):
            nxt = heads[i + 1] if i + 1 < len(heads) else exit_bb
            for x in order:
                nb = blocks[bm[x]]
                t = nb["term"]

                def mp(y):
                    if y == H["i"]:
                        return nxt
                    return bm.get(y, y)

                if t["k"] == "goto":
                    t["target"] = mp(t["target"])
                elif t["k"] == "switch":
                    t["targets"] = [[v, mp(b)] for v, b in t["targets"]]
                    t["otherwise"] = mp(t["otherwise"])
                elif t["k"] in ("call", "drop", "assert"):
                    if t.get("target") is not None:
                        t["target"] = mp(t["target"])
                elif t["k"] == "other":
                    t["succ"] = [mp(y) for y in t.get("succ", [])]
        # entry
        pt = blocks[entry_pred]["term"]

        def ment(y):
            return heads[0] if y == H["i"] else y

        if pt["k"] == "goto":
            pt["target"] = ment(pt["target"])
        elif pt["k"] == "switch":
            pt["targets"] = [[v, ment(b)] for v, b in pt["targets"]]
            pt["otherwise"] = ment(pt["otherwise"])
        elif pt["k"] in ("call", "drop", "assert"):
            if pt.get("target") is not None:
                pt["target"] = ment(pt["target"])
        # the original loop is unreachable now
        for x in order:
            blocks[x]["cleanup"] = True
            blocks[x]["dead"] = True


def unroll(facts):
    if os.environ.get("VERIF_NO_UNROLL"):
        facts["array_loops_unrolled"] = 0
        return facts
    return Unroller(facts).run()
