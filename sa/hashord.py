"""HASHORD: every place where the iteration order of a std hash container can reach a result.

A *site* is the creation of an iterator over a HashMap/HashSet (the creating call's receiver
type tells the hasher: RandomState = per-process random order, nohash = deterministic), followed
through adaptor calls to its consumers.  Each consumer is classified:

  SAFE   order cannot influence the outcome (count/len, collect into a hash/BTree container,
         integer sum, any/all, min/max on a total order, Itertools::sorted*, for-loop bodies that
         only insert into hash containers / add integers)
  FLOAT  order can influence floating-point rounding only (f64 sum/product/fold, `+=` on f64)
  ORDER  order can influence the outcome (collect into Vec/String, find/next/position/last/
         reduce/max_by/min_by/first-wins comparisons, for-loop bodies with other effects)
"""
import re
from collections import defaultdict

from mir import short, desugaring, loc_str

HASH_ITER_RE = re.compile(
    r"std::collections::hash_(map|set)::(Iter|IterMut|IntoIter|Keys|Values|ValuesMut|Drain|IntoKeys|IntoValues|Union|Intersection|Difference|SymmetricDifference)\b"
)
HASH_CONT_RE = re.compile(r"std::collections::(HashMap|HashSet)<")


def split_top(s):
    """split a generic-argument list at top-level commas"""
    out = []
    d = 0
    cur = []
    i = 0
    while i < len(s):
        c = s[i]
        if c in "<([":
            d += 1
        elif c in ">)]" and not (c == ">" and i > 0 and s[i - 1] == "-"):
            d -= 1
        if c == "," and d == 0:
            out.append("".join(cur).strip())
            cur = []
        else:
            cur.append(c)
        i += 1
    if "".join(cur).strip():
        out.append("".join(cur).strip())
    return out


def find_containers(ty):
    """yield (kind, args, hasher) for every std HashMap/HashSet mentioned in a type string"""
    out = []
    for m in HASH_CONT_RE.finditer(ty):
        kind = m.group(1)
        i = m.end()
        d = 1
        j = i
        while j < len(ty) and d > 0:
            if ty[j] == "<":
                d += 1
            elif ty[j] == ">" and ty[j - 1] != "-":
                d -= 1
            j += 1
        args = split_top(ty[i : j - 1])
        nparams = 2 if kind == "HashMap" else 1
        hasher = args[nparams] if len(args) > nparams else "std::hash::RandomState"
        out.append((kind, args[:nparams], hasher))
    return out


def outer_container(ty):
    """the outermost hash container of a (possibly reference) type string, or None"""
    t = ty
    while t.startswith("&"):
        t = t[1:].lstrip()
        if t.startswith("mut "):
            t = t[4:]
        if t.startswith("'"):
            t = t.split(" ", 1)[1] if " " in t else t
    if t.startswith("std::collections::HashMap<") or t.startswith("std::collections::HashSet<"):
        c = find_containers(t)
        return c[0] if c else None
    return None


def hasher_random(h):
    return "NoHashHasher" not in h and "BuildHasherDefault" not in h or ("RandomState" in h)


SAFE_CONSUMERS = {
    "std::iter::Iterator::count",
    "std::iter::Iterator::any",
    "std::iter::Iterator::all",
    "std::iter::ExactSizeIterator::len",
    "itertools::Itertools::sorted",
    "itertools::Itertools::sorted_by",
    "itertools::Itertools::sorted_by_key",
    "itertools::Itertools::sorted_unstable",
    "std::iter::Iterator::min",
    "std::iter::Iterator::max",
}
ORDER_CONSUMERS = {
    "std::iter::Iterator::find",
    "std::iter::Iterator::find_map",
    "std::iter::Iterator::position",
    "std::iter::Iterator::last",
    "std::iter::Iterator::nth",
    "std::iter::Iterator::reduce",
    "std::iter::Iterator::max_by",
    "std::iter::Iterator::min_by",
    "std::iter::Iterator::max_by_key",
    "std::iter::Iterator::min_by_key",
    "std::iter::Iterator::try_fold",
    "std::iter::Iterator::try_for_each",
    "itertools::Itertools::join",
}
FOLD_CONSUMERS = {"std::iter::Iterator::sum", "std::iter::Iterator::product", "std::iter::Iterator::fold"}

INT_TYS = {"usize", "u8", "u16", "u32", "u64", "u128", "isize", "i8", "i16", "i32", "i64", "i128", "bool", "()"}


def is_ordered_collection(ty):
    return ty.startswith("std::vec::Vec<") or ty.startswith("std::string::String") or ty.startswith("std::collections::VecDeque<") or ty.startswith("[")


def is_unordered_collection(ty):
    return (
        ty.startswith("std::collections::HashMap<")
        or ty.startswith("std::collections::HashSet<")
        or ty.startswith("std::collections::BTreeMap<")
        or ty.startswith("std::collections::BTreeSet<")
    )


class Site:
    def __init__(self, body, create_term, container, hasher):
        self.body = body
        self.create = create_term
        self.container = container
        self.hasher = hasher
        self.random = hasher_random(hasher)
        self.consumers = []  # (term, class, why)
        self.escapes = []  # returned / stored

    def classes(self):
        return {c for _, c, _ in self.consumers}

    def worst(self):
        cs = self.classes()
        if self.escapes:
            cs = cs | {"ORDER"}
        for c in ("ORDER", "FLOAT", "SAFE"):
            if c in cs:
                return c
        return "NONE"

    def key(self):
        op = short(self.create.callee.fn) if self.create.callee else "?"
        # `for x in &set` (IntoIterator::into_iter on a reference) is `set.iter()`
        if op.endswith("IntoIterator::into_iter") and self.container[0] in ("HashSet", "HashMap"):
            op = "std::collections::%s::iter" % self.container[0]
        return "%s|%s|%s" % (self.body.short, op, self.container[0] + "<" + ",".join(self.container[1]) + ">")


def _contains_hash_iter(ty):
    return bool(HASH_ITER_RE.search(ty))


ADAPTORS = {
    "iter", "into_iter", "iter_mut", "map", "filter", "filter_map", "cloned", "copied", "enumerate", "zip", "chain",
    "flat_map", "flatten", "skip", "take", "by_ref", "peekable", "inspect", "values", "keys", "into_keys", "into_values",
    "step_by", "skip_while", "take_while", "map_while", "fuse", "scan", "dedup", "dedup_by", "unique", "intersection",
    "union", "difference", "symmetric_difference", "deref", "as_slice", "as_ref", "borrow", "clone", "to_vec", "chunk_by",
    "combinations", "permutations", "tuple_windows", "rev", "cycle", "values_mut",
}


# adaptors whose OUTPUT depends on the position of an element in the sequence: an index is attached (enumerate), a
# prefix / suffix / stride is selected (take, skip, step_by, *_while), neighbours are paired (tuple_windows, zip, dedup,
# chunk_by, scan) or ordered tuples are formed (combinations, permutations).  Whatever consumes them afterwards, the
# hash order has already leaked into the items themselves.
POSITIONAL_ADAPTORS = {
    "enumerate", "zip", "skip", "take", "step_by", "skip_while", "take_while", "map_while", "scan", "dedup", "dedup_by",
    "chunk_by", "combinations", "permutations", "tuple_windows", "rev", "cycle", "tuple_combinations", "chunks", "windows",
}


def natural_loop_blocks(body, header):
    """blocks of the natural loop(s) whose header is `header`"""
    blocks = {header}
    for p in body.pred(header):
        if body.dominates(header, p):
            # back edge p -> header
            st = [p]
            while st:
                x = st.pop()
                if x in blocks:
                    continue
                blocks.add(x)
                st.extend(body.pred(x))
    return blocks


def classify_loop_body(body, flow, effects, loop_blocks, next_bb):
    """classify what a for-loop over a hash iterator does with the items.
    returns (class, reasons)"""
    reasons = []
    cls = "SAFE"

    def bump(c, why):
        nonlocal cls
        reasons.append("%s: %s" % (c, why))
        order = {"SAFE": 0, "FLOAT": 1, "ORDER": 2}
        if order[c] > order[cls]:
            cls = c

    events = [e for e in effects.events(body.path) if e[0] in loop_blocks]
    for (bb, site, obj, kind) in events:
        if bb == next_bb:
            continue
        # writes to the loop's own temporaries that are dead outside the loop do not matter;
        # we only care about objects that are also accessed outside the loop or are parameters
        ty = None
        if obj[0] == "L":
            ty = body.local_ty(obj[1])
            if not _live_outside(body, obj[1], loop_blocks):
                continue
        else:
            ty = "<param memory>"
        k = kind
        if k in ("HashMap::insert", "HashSet::insert", "HashMap::entry", "Entry::or_default", "Entry::or_insert", "Entry::or_insert_with", "HashSet::extend", "HashMap::extend", "BTreeMap::insert", "BTreeSet::insert", "HashMap::remove", "HashSet::remove"):
            # insertion into an unordered container: commutative unless the same key is inserted
            # with different values by different iterations (first/last-wins) -- keys derived from
            # distinct hash-container elements are distinct
            continue
        if k in ("Vec::push", "VecDeque::push_back", "VecDeque::push_front", "String::push_str", "String::push", "Vec::extend", "Vec::insert", "Vec::append", "BinaryHeap::push"):
            bump("ORDER", "%s into %s at %s" % (k, ty, loc_str(site.span)))
            continue
        if k == "iter::Extend::extend" and getattr(site, "k", None) == "call" and site.args and site.args[0].place is not None and ("HashSet<" in site.args[0].place.ty or "HashMap<" in site.args[0].place.ty or "BTree" in site.args[0].place.ty):
            continue  # extending an unordered container
        if k == "assign" and getattr(site, "lhs", None) is not None and site.lhs.has_deref() and _keyed_store_by_item(body, flow, site, next_bb):
            continue  # `*map.entry(item_key).or_insert(..) = v`: one slot per (distinct) item
        if k == "assign" or k.startswith("IndexMut") or k.startswith("AddAssign") or k.startswith("SubAssign") or k == "Entry::and_modify":
            # assignment: integer accumulate = SAFE, float accumulate = FLOAT, other = ORDER
            vt = None
            if hasattr(site, "lhs") and site.lhs is not None:
                vt = site.lhs.ty
            if vt in INT_TYS:
                # an integer `x = x + c` / counter is commutative; a plain overwrite is last-wins
                if hasattr(site, "rv") and site.rv is not None and site.rv.k in ("binop", "use"):
                    if site.rv.k == "binop" and site.rv.j["op"] in ("Add", "AddWithOverflow", "Sub", "SubWithOverflow", "Mul", "BitOr", "BitAnd"):
                        continue
                    if site.rv.k == "use" and site.rv.ops and site.rv.ops[0].place is not None and site.rv.ops[0].place.fields()[-1:] == ["0"]:
                        # result field of a checked arithmetic tuple
                        continue
                bump("ORDER", "last-wins integer assignment to %s at %s" % (ty, loc_str(site.span)))
            elif vt in ("f64", "f32"):
                bump("FLOAT", "float accumulation/assignment at %s" % loc_str(site.span))
            elif k.startswith("IndexMut"):
                continue  # obtaining a slot; the assignment through it is classified separately
            else:
                bump("ORDER", "assignment of %s at %s" % (vt, loc_str(site.span)))
            continue
        if k.startswith("Iterator::") or k in ("Deref::deref", "DerefMut::deref_mut", "Index::index", "Option::unwrap", "Option::as_mut", "Option::take", "IntoIterator::into_iter", "Clone::clone", "mem::take", "mem::swap", "mem::replace"):
            continue
        if k.split("::")[0] in ("Add", "Sub", "Mul", "Div", "Rem", "Neg", "Not", "BitAnd", "BitOr", "BitXor", "Shl", "Shr", "PartialEq", "PartialOrd", "Ord", "Eq", "Borrow", "AsRef", "ToOwned", "Into", "From", "Display", "Debug"):
            continue  # operator / comparison / conversion traits taking their operands by shared reference or by value: no effect on the operands
        bump("ORDER", "unclassified effect %s on %s at %s" % (k, ty, loc_str(site.span)))
    # early exit out of the loop that is not via the iterator's None (break/return inside) = first-match
    for bb in loop_blocks:
        for s in body.succ(bb):
            if s not in loop_blocks and bb != next_bb:
                # exits other than the `None` arm of the `next()` match
                t = body.blocks[bb].term
                if t.k == "switch" and body.blocks[bb].stmts and _is_next_match(body, bb, next_bb):
                    continue
                if _exit_returns_constant(body, bb, s, loop_blocks):
                    continue  # `if test(item) { return CONST }`: an any/all-style exit, the same whichever item triggers it
                bump("ORDER", "loop exit (break/return) at %s" % loc_str(t.span))
    return cls, reasons


def _keyed_store_by_item(body, fl, site, next_bb):
    """the assignment goes through a slot obtained from entry(key)/get_mut(key) of an unordered map
    whose key derives from the loop item"""
    d = fl.single_def(site.lhs.local)
    hops = 0
    while d is not None and hops < 6:
        hops += 1
        if getattr(d, "k", None) == "call" and d.callee:
            last = d.callee.short.split("::")[-1]
            if last in ("or_insert", "or_default", "or_insert_with") and d.args and d.args[0].place is not None:
                d = fl.single_def(d.args[0].place.local)
                continue
            if last in ("entry", "get_mut") and "HashMap" in d.callee.short and len(d.args) > 1:
                sl = fl.slice_local(fl._op_reads(d.args[1]), data_only=True)
                return ("CALL", next_bb) in sl
            if last in ("unwrap", "deref_mut"):
                d = fl.single_def(d.args[0].place.local) if d.args and d.args[0].place is not None else None
                continue
            return False
        rv = getattr(d, "rv", None)
        if rv is not None and rv.k in ("ref", "use", "copyderef"):
            loc = rv.place.local if rv.place is not None else (rv.ops[0].place.local if rv.ops and rv.ops[0].place is not None else None)
            d = fl.single_def(loc) if loc is not None else None
            continue
        return False
    return False


def _exit_returns_constant(body, bb, succ, loop_blocks):
    """the exit bb -> succ leads straight to `return` and the returned value is assigned a constant on the way
    (in the exiting block or after it), nothing else is assigned"""
    seen = set()
    cur = succ
    const_ret = False
    # the exiting block itself may assign the constant before leaving
    for st in body.blocks[bb].stmts:
        if st.k == "assign" and st.lhs.local == 0 and not st.lhs.proj:
            const_ret = st.rv.k == "use" and st.rv.ops[0].is_const()
    steps = 0
    while cur is not None and steps < 40:
        steps += 1
        if cur in seen or cur in loop_blocks:
            return False
        seen.add(cur)
        blk = body.blocks[cur]
        for st in blk.stmts:
            if st.k != "assign":
                continue
            if st.lhs.local == 0 and not st.lhs.proj:
                const_ret = st.rv.k == "use" and st.rv.ops[0].is_const()
            elif body.local_name(st.lhs.local) is not None:
                return False
        t = blk.term
        if t.k == "return":
            return const_ret
        if t.k in ("goto", "drop"):
            cur = t.target
            continue
        if t.k == "switch":
            # drop-flag switches on the way out: all successors must behave the same; follow the first non-loop one
            nxt = [x for x in body.succ(cur) if x not in loop_blocks]
            if not nxt:
                return False
            cur = nxt[0]
            continue
        return False
    return False


def _is_next_match(body, bb, next_bb):
    """is bb the block that matches on the Option returned by next()?"""
    return body.blocks[next_bb].term.target == bb


def _live_outside(body, local, loop_blocks):
    for blk in body.normal_blocks():
        if blk.i in loop_blocks:
            continue
        for s in blk.stmts:
            if s.k == "assign":
                if s.lhs.local == local:
                    return True
                if s.rv.place is not None and s.rv.place.local == local:
                    return True
                for o in s.rv.ops:
                    if o.place is not None and o.place.local == local:
                        return True
        t = blk.term
        if t.k == "call":
            for a in t.args:
                if a.place is not None and a.place.local == local:
                    return True
        if t.k == "switch" and t.discr.place is not None and t.discr.place.local == local:
            return True
    if local == 0:
        return True
    return local <= body.arg_count


_FLOWS = [None]


def find_sites(prog, flows, effects, bodies=None):
    """all hash-iteration sites in the given bodies (default: all)"""
    sites = []
    _FLOWS[0] = flows
    for p, b in prog.bodies.items():
        if bodies is not None and p not in bodies:
            continue
        fl = None
        for t in b.calls():
            if not t.callee:
                continue
            dty = t.dest.ty
            if not _contains_hash_iter(dty):
                continue
            if any(a.place is not None and _contains_hash_iter(a.place.ty) for a in t.args):
                continue  # adaptor, not a creation
            # creation: receiver type names the container
            cont = None
            for a in t.args:
                if a.place is not None:
                    c = outer_container(a.place.ty)
                    if c:
                        cont = c
                        break
            if cont is None:
                for a in t.args:
                    if a.place is not None:
                        cs = find_containers(a.place.ty)
                        if cs:
                            cont = cs[0]
                            break
            if cont is None:
                cont = ("?", [], "std::hash::RandomState")
            site = Site(b, t, cont, cont[2])
            fl = fl or flows.of(b)
            _follow(prog, b, fl, effects, site, t.dest.local, set())
            sites.append(site)
    return sites


def _follow(prog, b, fl, effects, site, local, seen):
    """follow the iterator value in `local` to its consumers"""
    if local in seen:
        return
    seen.add(local)
    # aliases: moves/copies/&mut borrows of the iterator local
    aliases = {local}
    changed = True
    while changed:
        changed = False
        for s in b.stmts():
            if s.k != "assign" or s.lhs.proj:
                continue
            src = None
            if s.rv.k == "use" and s.rv.ops[0].place is not None and not s.rv.ops[0].place.proj:
                src = s.rv.ops[0].place.local
            elif s.rv.k == "ref" and not s.rv.place.proj:
                src = s.rv.place.local
            elif s.rv.k == "ref" and s.rv.place.proj == ["*"]:
                src = s.rv.place.local
            if src in aliases and s.lhs.local not in aliases:
                aliases.add(s.lhs.local)
                changed = True
    if 0 in aliases:
        handed_on = False
        if b.kind == "closure" and _FLOWS[0] is not None:
            # `xs.iter().flat_map(|c| c.iter())` / `.map(|c| c.iter())`: the hash-ordered iterator the closure returns is
            # consumed through the adaptor it was handed to -- keep following there
            flows_ = _FLOWS[0]
            for (pp, s_) in flows_.closure_sites(b.path):
                pb = prog.bodies[pp]
                pf = flows_.of(pp)
                cls_ = pf.copies_of(s_.lhs.local)
                for t in pb.calls():
                    if t.callee and t.callee.short.split("::")[-1] in ("flat_map", "map", "flatten", "filter_map", "and_then") and any(a.place is not None and a.place.local in cls_ for a in t.args[1:]) and not t.dest.proj:
                        handed_on = True
                        _follow(prog, pb, pf, effects, site, t.dest.local, set())
        if not handed_on:
            site.escapes.append("returned from %s" % b.short)
    for t in b.calls():
        if not any(a.place is not None and a.place.local in aliases and not a.place.proj for a in t.args):
            continue
        nm = t.callee.short if t.callee else "<indirect>"
        dty = t.dest.ty
        last = nm.split("::")[-1]
        if nm != "std::iter::Iterator::next" and (_contains_hash_iter(dty) or (last in ADAPTORS and (t.args[0].place is not None and t.args[0].place.local in aliases))):
            # adaptor (map/filter/cloned/into_iter/by_ref/...): keep following
            if last in POSITIONAL_ADAPTORS and nm.split("::")[0] in ("std", "core", "itertools") and (t.args[0].place is not None and t.args[0].place.local in aliases):
                site.consumers.append((t, "ORDER", "%s forms its items from the POSITION of the elements in hash order" % last))
            _follow(prog, b, fl, effects, site, t.dest.local, seen)
            continue
        # consumer
        if nm == "std::iter::Iterator::next":
            if desugaring(t.span) == "ForLoop" or True:
                # loop header = the block of the next() call if it is in a loop
                loop = natural_loop_blocks(b, t.bb)
                if len(loop) > 1:
                    cls, reasons = classify_loop_body(b, fl, effects, loop, t.bb)
                    site.consumers.append((t, cls, "loop over items: " + ("; ".join(reasons) if reasons else "body only inserts into unordered containers / accumulates integers")))
                else:
                    site.consumers.append((t, "ORDER", "single next(): takes the first element in hash order"))
            continue
        if nm in SAFE_CONSUMERS:
            site.consumers.append((t, "SAFE", nm))
        elif nm in ORDER_CONSUMERS:
            site.consumers.append((t, "ORDER", nm))
        elif nm in FOLD_CONSUMERS and not (nm.endswith("::fold") and _closure_arg(fl, t) and dty not in INT_TYS and dty not in ("f64", "f32")):
            if dty in INT_TYS:
                site.consumers.append((t, "SAFE", nm + " -> " + dty))
            elif dty in ("f64", "f32"):
                site.consumers.append((t, "FLOAT", nm + " -> " + dty))
            else:
                site.consumers.append((t, "ORDER", nm + " -> " + dty))
        elif nm in ("std::iter::Iterator::collect", "std::iter::FromIterator::from_iter", "std::iter::Extend::extend", "std::iter::Iterator::unzip", "std::iter::Iterator::partition"):
            if is_unordered_collection(dty) or dty.startswith("std::result::Result<std::collections::Hash"):
                site.consumers.append((t, "SAFE", "collect into " + dty.split("<")[0]))
            elif nm.endswith("extend") and t.args and t.args[0].place is not None and is_unordered_collection(t.args[0].place.ty.lstrip("&mut ").strip()):
                site.consumers.append((t, "SAFE", "extend of unordered container"))
            else:
                srt = sorted_after(b, fl, t, site)
                if srt:
                    site.consumers.append((t, "SAFE", "collect into Vec, then " + srt))
                else:
                    site.consumers.append((t, "ORDER", "collect into ordered " + dty.split("<")[0]))
        elif nm in ("std::iter::Iterator::for_each", "std::iter::Iterator::fold") and _closure_arg(fl, t):
            cb = prog.bodies[_closure_arg(fl, t)]
            cls, reasons = classify_closure_body(prog, cb, effects)
            site.consumers.append((t, cls, "%s with closure: %s" % (nm.split("::")[-1], "; ".join(reasons) if reasons else "only inserts into unordered containers / accumulates integers")))
        elif nm == "std::iter::Iterator::for_each":
            site.consumers.append((t, "ORDER", "for_each with a non-closure callee: treated as order-sensitive"))
        elif nm in ("std::iter::Iterator::size_hint", "std::clone::Clone::clone", "std::mem::drop"):
            continue
        else:
            tp = t.callee.target_path(prog) if t.callee else None
            site.consumers.append((t, "ORDER", "iterator passed to %s (not analysed): treated as order-sensitive" % nm))


def _closure_arg(fl, t):
    for a in t.args:
        if a.place is not None and a.place.local in fl.closure_locals:
            return fl.closure_locals[a.place.local]
        if a.is_const() and a.c and "closure" in a.c:
            return a.c["closure"]
    return None


def sorted_after(b, fl, collect_term, site):
    """the Vec produced by `collect_term` is sorted (total order) before any other use"""
    v = collect_term.dest.local
    aliases = {v}
    changed = True
    while changed:
        changed = False
        for s in b.stmts():
            if s.k != "assign" or s.lhs.proj:
                continue
            src = None
            if s.rv.k == "use" and s.rv.ops[0].place is not None and not s.rv.ops[0].place.proj:
                src = s.rv.ops[0].place.local
            elif s.rv.k == "ref" and (not s.rv.place.proj or s.rv.place.proj == ["*"]):
                src = s.rv.place.local
            if src in aliases and s.lhs.local not in aliases:
                aliases.add(s.lhs.local)
                changed = True
        for t in b.calls():
            if t.callee and t.callee.short.split("::")[-1] in ("deref_mut", "deref", "as_mut_slice") and t.args and t.args[0].place is not None and t.args[0].place.local in aliases and t.dest.local not in aliases:
                aliases.add(t.dest.local)
                changed = True
    sorts = []
    uses = []
    for t in b.calls():
        if t is collect_term or not t.callee:
            continue
        if any(a.place is not None and a.place.local in aliases for a in t.args):
            last = t.callee.short.split("::")[-1]
            if last in ("sort", "sort_unstable", "sort_by", "sort_by_key", "sort_unstable_by", "sort_unstable_by_key", "sort_by_cached_key"):
                sorts.append(t)
            elif last in ("deref_mut", "deref", "as_mut_slice"):
                continue
            else:
                uses.append(t)
    if not sorts:
        return None
    st = sorts[0]
    if not all(b.dominates(st.bb, u.bb) and u.bb != st.bb for u in uses):
        return None
    last = st.callee.short.split("::")[-1]
    if last in ("sort", "sort_unstable"):
        return "%s (total order on the elements)" % last
    # sort by a comparator: total only if it compares unique keys -- the `.0` of (key, value) pairs
    # taken from a HashMap, or the elements of a HashSet
    if site.container[0] in ("HashMap", "HashSet") and last in ("sort_by", "sort_unstable_by"):
        cp = _closure_arg(fl, st)
        if cp:
            cb = fl.prog.bodies[cp]
            from flow import Flows

            cf = Flows(fl.prog).of(cb)
            cmps = [t for t in cb.calls() if t.callee and t.callee.short.split("::")[-1] in ("cmp", "partial_cmp")]
            if len(cmps) == 1:
                from flow import fmt_desc

                ds = [fmt_desc(cf.describe(a, depth=6)) for a in cmps[0].args]
                if site.container[0] == "HashSet" or all(d.endswith(".0") for d in ds):
                    return "%s comparing the %s's own keys (unique, hence a total order)" % (last, site.container[0])
    # sort by a key function: total if the key is the unique key itself (the `.0` of a HashMap pair, a HashSet element)
    if site.container[0] in ("HashMap", "HashSet") and last in ("sort_by_key", "sort_unstable_by_key", "sort_by_cached_key"):
        cp = _closure_arg(fl, st)
        if cp:
            cb = fl.prog.bodies[cp]
            from flow import Flows, fmt_desc

            cf = Flows(fl.prog).of(cb)
            defs = cb.assigns_to(0)
            if len(defs) == 1 and getattr(defs[0][1], "rv", None) is not None and defs[0][1].rv.ops:
                d0 = fmt_desc(cf.describe(defs[0][1].rv.ops[0], depth=6))
                no_calls = not any(t.callee and t.callee.short.split("::")[-1] not in ("clone", "deref", "borrow", "as_ref") for t in cb.calls())
                if no_calls and (site.container[0] == "HashSet" or d0.endswith(".0")):
                    return "%s keyed by the %s's own keys (unique, hence a total order)" % (last, site.container[0])
    return None


def classify_closure_body(prog, cb, effects):
    """effects of a closure called once per item (for_each / fold)"""
    reasons = []
    cls = "SAFE"
    order = {"SAFE": 0, "FLOAT": 1, "ORDER": 2}

    def bump(c, why):
        nonlocal cls
        reasons.append("%s: %s" % (c, why))
        if order[c] > order[cls]:
            cls = c

    for (bb, site, obj, kind) in effects.events(cb.path):
        if obj[0] == "L" and obj[1] > cb.arg_count:
            ty = cb.local_ty(obj[1])
            # a closure-local temporary
            if kind == "assign" and hasattr(site, "lhs") and site.lhs.ty in ("f64", "f32") and site.lhs.has_deref():
                bump("FLOAT", "float accumulation through a reference at %s" % loc_str(site.span))
            continue
        if kind in ("HashMap::insert", "HashSet::insert", "HashMap::entry", "Entry::or_default", "Entry::or_insert", "Entry::or_insert_with", "HashSet::extend", "HashMap::extend", "BTreeMap::insert", "BTreeSet::insert", "HashMap::remove", "HashSet::remove", "iter::Extend::extend"):
            continue
        if kind in ("Vec::push", "VecDeque::push_back", "String::push_str", "String::push", "Vec::extend", "Vec::insert", "Vec::append", "BinaryHeap::push"):
            bump("ORDER", "%s at %s" % (kind, loc_str(site.span)))
            continue
        if kind == "assign":
            vt = site.lhs.ty if hasattr(site, "lhs") and site.lhs is not None else None
            if vt in ("f64", "f32"):
                bump("FLOAT", "float accumulation/assignment at %s" % loc_str(site.span))
            elif vt in INT_TYS:
                if site.rv.k in ("binop",) or (site.rv.k == "use" and site.rv.ops and site.rv.ops[0].place is not None and site.rv.ops[0].place.fields()[-1:] == ["0"]):
                    continue
                bump("ORDER", "last-wins assignment at %s" % loc_str(site.span))
            else:
                bump("ORDER", "assignment of %s at %s" % (vt, loc_str(site.span)))
            continue
        if kind.startswith("Iterator::") or kind in ("Deref::deref", "DerefMut::deref_mut", "Index::index", "IndexMut::index_mut", "Option::unwrap", "Clone::clone", "Graph::add_node"):
            continue
        bump("ORDER", "unclassified effect %s at %s" % (kind, loc_str(site.span)))
    return cls, reasons
