"""GUARD: kind refusals ("on the wrong kind of graph the function returns an error, never an
answer").  Decided structurally:

  a function F *refuses* (field, value) iff every block of F that can produce a non-error
  return value (a `Result::Ok{..}` of F's return type, or a delegated call whose result is
  returned as is) is reachable from F's entry only through the *continue* edge of a guard:

   (b) a switch testing `<graph>.specs.<field>` whose continue edge is the `field != value` edge, or
   (a) a switch on the result of a call, on the same graph, to a crate function G that itself
       refuses (field, value) -- `?`, `match .. { Err(e) => return Err(e) }`, `.is_err()`/`.is_ok()` --
       whose continue edge is the Ok/Continue edge;
  or the producing block is itself a delegated call to such a G on the same graph.

"Reachable only through edge e" is decided by deleting e from the CFG and testing reachability, so
the rule does not care where in the function the guard sits, only that no answer can be returned
without passing it.
"""
from flow import L, desc_mentions, fmt_desc
from mir import loc_str, short


def graph_param(body):
    for i in range(1, body.arg_count + 1):
        if "graph::Graph<" in body.local_ty(i):
            return i
    return None


def _reach_without_edge(body, edge):
    return body.reach_avoiding_edges([edge])


def ok_producers(body):
    """blocks that may produce a non-error return value: [(bb, what, site)]"""
    rty = body.local_ty(0)
    out = []
    if not rty.startswith("std::result::Result<"):
        return None
    for blk in body.normal_blocks():
        for s in blk.stmts:
            if s.k == "assign" and s.rv.k == "aggr" and s.rv.j["ak"] == "adt" and s.rv.j["adt"] == "std::result::Result" and s.rv.j["variant"] == "Ok" and s.rv.ty == rty:
                out.append((blk.i, "Ok(..)", s))
        t = blk.term
        if t.k == "call" and t.callee and t.dest.ty == rty:
            nm = t.callee.short
            if nm.endswith("FromResidual::from_residual"):
                continue
            out.append((blk.i, "result of %s returned" % nm.split("::")[-1], t))
    return out


class Guards:
    def __init__(self, prog, flows):
        self.prog = prog
        self.flows = flows
        self._memo = {}

    def spec_switches(self, body, field):
        """[(bb, value_to_succ: {True: bb, False: bb})] switches that test <graph>.specs.<field>"""
        fl = self.flows.of(body)
        out = []
        for blk in body.normal_blocks():
            if blk.term.k != "switch":
                continue
            at = fl.atom(blk.i)
            test = at["test"]
            neg = False
            while test[0] == "unop" and test[1] == "Not":
                neg = not neg
                test = test[2]
            if test[0] == "place" and test[1].endswith("specs." + field) and at["ty"] == "bool":
                f_succ = dict(at["targets"]).get(0)
                t_succ = at["otherwise"]
                if neg:
                    f_succ, t_succ = t_succ, f_succ
                out.append((blk.i, {True: t_succ, False: f_succ}))
        return out

    def call_guard_switches(self, body, field, value, stack):
        """[(switch_bb, continue_succ, callee)] switches on the outcome of a call to a refusing crate function"""
        fl = self.flows.of(body)
        gp = graph_param(body)
        out = []
        for t in body.calls():
            if not t.callee:
                continue
            tp = t.callee.target_path(self.prog)
            if not tp or tp == body.path:
                continue
            cb = self.prog.bodies[tp]
            if not cb.local_ty(0).startswith("std::result::Result<"):
                continue
            if not self.refuses(cb, field, value, stack)[0]:
                continue
            if not self._on_same_graph(body, fl, t, gp):
                continue
            # switches whose discriminant derives (data) from this call's result and from no other call
            for blk in body.normal_blocks():
                if blk.term.k != "switch" or not body.dominates(t.bb, blk.i):
                    continue
                sl = fl.slice_local(fl._op_reads(blk.term.discr), data_only=True)
                calls = [n for n in sl if n[0] == "CALL"]
                if ("CALL", t.bb) not in calls:
                    continue
                others = [n for n in calls if n != ("CALL", t.bb) and not self._is_plumbing(body, n[1])]
                if others:
                    continue
                d = fl.describe(blk.term.discr)
                cont = None
                if d[0] == "discr":
                    # variant 0 = Ok / Continue; `if let Err(..)` lists only variant 1 explicitly
                    cont = dict(blk.term.targets).get(0, blk.term.otherwise)
                elif d[0] == "call" and d[1].endswith("::is_err"):
                    cont = dict(blk.term.targets).get(0)
                elif d[0] == "call" and d[1].endswith("::is_ok"):
                    cont = blk.term.otherwise
                if cont is not None:
                    out.append((blk.i, cont, cb.short))
        return out

    def _is_plumbing(self, body, bb):
        t = body.blocks[bb].term
        nm = t.callee.short if t.callee else ""
        return nm.endswith("Try::branch") or nm.endswith("::is_err") or nm.endswith("::is_ok") or nm.endswith("::as_ref") or nm.endswith("Deref::deref")

    def _on_same_graph(self, body, fl, t, gp):
        if gp is None:
            return False
        if not t.args:
            return False
        for a in t.args:
            if a.place is None:
                continue
            if "graph::Graph<" not in a.place.ty:
                continue
            sl = fl.slice_local(fl._op_reads(a), data_only=True)
            # the graph argument must be the function's own graph parameter (not a derived graph)
            if L(gp) in sl and not any(n[0] == "CALL" and not self._is_plumbing(body, n[1]) for n in sl):
                return True
        return False

    def refuses(self, body, field, value, stack=()):
        """(bool, details).  details: list of (producer description, site, protecting guard | None)"""
        key = (body.path, field, value)
        if key in self._memo:
            return self._memo[key]
        if body.path in stack:
            return (False, [])
        stack = stack + (body.path,)
        prods = ok_producers(body)
        if prods is None:
            r = (False, [("not a Result-returning function", loc_str(body.span), None)])
            self._memo[key] = r
            return r
        guards = []  # (edge, description)
        for (bb, succs) in self.spec_switches(body, field):
            cont = succs[not value]
            if cont is not None:
                guards.append(((bb, cont), "test of specs.%s (continue when %s)" % (field, str(not value).lower())))
        for (bb, cont, g) in self.call_guard_switches(body, field, value, stack):
            guards.append(((bb, cont), "outcome of %s" % g.split("::")[-1]))
        reach = [(e, d, _reach_without_edge(body, e)) for (e, d) in guards]
        fl = self.flows.of(body)
        gp = graph_param(body)
        details = []
        allok = True
        for (bb, what, site) in prods:
            prot = None
            for (e, d, r) in reach:
                if bb not in r:
                    prot = d
                    break
            if prot is None and getattr(site, "k", None) == "call" and site.callee:
                tp = site.callee.target_path(self.prog)
                if tp and tp != body.path:
                    cb = self.prog.bodies[tp]
                    if self.refuses(cb, field, value, stack)[0] and self._on_same_graph(body, fl, site, gp):
                        prot = "delegated to %s, which refuses" % cb.short.split("::")[-1]
            details.append((what, loc_str(site.span), prot))
            if prot is None:
                allok = False
        if not prods:
            allok = False
            details.append(("no non-error return found", loc_str(body.span), None))
        r = (allok, details)
        self._memo[key] = r
        return r

    def wrongmethod_sites(self, body):
        from engines import errorkind_sites

        return [(bb, s) for (bb, s, v) in errorkind_sites(body) if v == "WrongMethod"]


def check_refusal(ctx, guards, rule, body, field, value, what):
    ok, details = guards.refuses(body, field, value)
    key = "%s|%s=%s" % (body.short, field, str(value).lower())
    if ok:
        ctx.ok(rule, key, "%s refuses %s: every non-error return is behind a guard (%s)" % (body.short.split("::")[-1], what, "; ".join(sorted({d[2] for d in details if d[2]}))), loc_str(body.span))
    else:
        bad = [(w, s) for (w, s, p) in details if p is None]
        ctx.violation(rule, key, "%s can return an answer on %s: unguarded non-error return(s) %s" % (body.short.split("::")[-1], what, bad[:3]), bad[0][1] if bad else loc_str(body.span))
    return ok


def refusal_kinds(ctx, guards, rule, prog, roots=None, floor=0):
    """a straight-line refusal under a test of specs.directed / specs.multi_edges (the exclusive region of one outcome
    contains no further branch and constructs an error) raises ErrorKind::WrongMethod: callers tell `wrong kind of graph`
    from `bad argument` / `not found` by that kind.  `roots`: restrict to the bodies reachable from these paths."""
    from engines import errorkind_sites

    only = None
    if roots is not None:
        only = set(prog.reachable_bodies(list(roots)))
    n = 0
    for p in sorted(prog.bodies):
        if only is not None and p not in only:
            continue
        b = prog.bodies[p]
        if b.kind == "closure":
            continue
        for field in ("directed", "multi_edges"):
            try:
                sw = guards.spec_switches(b, field)
            except Exception:
                continue
            for (bb, succs) in sw:
                for val in (True, False):
                    a, o = succs.get(val), succs.get(not val)
                    if a is None or o is None:
                        continue
                    ex = (b.reachable_from(a) | {a}) - (b.reachable_from(o) | {o})
                    if any(b.blocks[x].term.k == "switch" for x in ex):
                        continue
                    ks = [(s_, v_) for (kb, s_, v_) in errorkind_sites(b) if kb in ex]
                    for (s_, v_) in ks:
                        n += 1
                        ctx.require(v_ == "WrongMethod", rule, "refusal-kind|%s|%s=%s" % (b.short, field, str(val).lower()),
                                    "%s refuses specs.%s == %s with ErrorKind::WrongMethod" % (b.short.split("::")[-1], field, str(val).lower()),
                                    "%s refuses a graph with specs.%s == %s with ErrorKind::%s, not WrongMethod: a caller that tells the wrong kind of graph from a bad argument by the error kind is misled" % (b.short.split("::")[-1], field, str(val).lower(), v_), loc_str(s_.span))
    ctx.floor(rule, "straight_line_refusals", n, floor)
    return n
